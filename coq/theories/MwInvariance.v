(* C20: the remaining clauses of the Meyer-Wallach property, on the per-qubit quantity D(u, v) of MeyerWallach.v
   (u, v = the halves of the state with qubit k = 0, 1):
   - D = 0 when the halves are proportional to a common vector (product states),
   - D is multiplied by |det|^2 when the halves are mixed by a 2x2 matrix (a one-qubit unitary on qubit k itself),
   - D + D is unchanged when the same isometry acts on both halves (a one-qubit unitary on another qubit, or any relabelling of
     the remaining qubits: a permutation matrix),
   - over a field with an order (numClosedFieldType, conj = complex conjugation): 0 <= D and 4 D <= 1 for unit vectors. *)
From mathcomp Require Import all_ssreflect all_fingroup all_algebra.
From mathcomp Require Import ring.
From QV Require Import Lagrange MeyerWallach.
Set Implicit Arguments. Unset Strict Implicit. Unset Printing Implicit Defensive.
Import GRing.Theory.
Local Open Scope ring_scope.

Section Inv.
Variable (F : fieldType) (conj : {rmorphism F -> F}).
Variable n : nat.

Lemma D_product (u v w : 'I_n -> F) (a b : F) :
  (forall i, u i = a * w i) -> (forall i, v i = b * w i) -> D conj u v = 0.
Proof.
  move=> Hu Hv. rewrite /D. apply: big1 => j _. apply: big1 => i _.
  rewrite !Hu !Hv /nsq. have -> : a * w i * (b * w j) - a * w j * (b * w i) = 0 by ring. by rewrite mul0r.
Qed.

Lemma D_mix (u v : 'I_n -> F) (a b c d : F) :
  D conj (fun i => a * u i + b * v i) (fun i => c * u i + d * v i) = nsq conj (a * d - b * c) * D conj u v.
Proof.
  rewrite /D big_distrr /=. apply: eq_bigr => j _. rewrite big_distrr /=. apply: eq_bigr => i _.
  rewrite /nsq !(rmorphB, rmorphD, rmorphM) /=. ring.
Qed.

(* the same linear map on both halves, preserving inner products *)
Variable m : nat.
Variable W : 'I_m -> 'I_n -> F.
Hypothesis Wiso : forall j l : 'I_n, \sum_(i : 'I_m) W i j * conj (W i l) = (j == l)%:R.
Definition img (u : 'I_n -> F) : 'I_m -> F := fun i => \sum_j W i j * u j.

Lemma ip_img (u v : 'I_n -> F) :
  \sum_i img u i * conj (img v i) = \sum_j u j * conj (v j).
Proof.
  rewrite /img.
  have -> : \sum_i (\sum_j W i j * u j) * conj (\sum_l W i l * v l)
          = \sum_i \sum_j \sum_l (u j * conj (v l)) * (W i j * conj (W i l)).
    apply: eq_bigr => i _. rewrite rmorph_sum /= big_distrlr /=.
    apply: eq_bigr => j _. apply: eq_bigr => l _. rewrite rmorphM /=. ring.
  rewrite exchange_big /=. apply: eq_bigr => j _.
  rewrite exchange_big /=.
  have -> : \sum_l \sum_i u j * conj (v l) * (W i j * conj (W i l)) = \sum_l u j * conj (v l) * (j == l)%:R.
    apply: eq_bigr => l _. by rewrite -big_distrr /= Wiso.
  rewrite (bigD1 j) //= eqxx mulr1 big1 ?addr0 // => l Hl.
  by rewrite eq_sym (negbTE Hl) mulr0.
Qed.
End Inv.

Section Inv2.
Variable (F : fieldType) (conj : {rmorphism F -> F}).
Variables (n m : nat) (W : 'I_m -> 'I_n -> F).
Hypothesis Wiso : forall j l : 'I_n, \sum_(i : 'I_m) W i j * conj (W i l) = (j == l)%:R.

Lemma A_img (u : 'I_n -> F) : A conj (img W u) = A conj u.
Proof. rewrite /A /nsq. exact: (ip_img Wiso). Qed.
Lemma S_img (u v : 'I_n -> F) : S conj (img W u) (img W v) = S conj u v.
Proof. rewrite /S. exact: (ip_img Wiso). Qed.
Lemma Sc_img (u v : 'I_n -> F) : Sc conj (img W u) (img W v) = Sc conj u v.
Proof.
  rewrite /Sc.
  have E (x y : 'I_m -> F) : \sum_i conj (x i) * y i = \sum_i y i * conj (x i).
    by apply: eq_bigr => i _; rewrite mulrC.
  have E' (x y : 'I_n -> F) : \sum_i conj (x i) * y i = \sum_i y i * conj (x i).
    by apply: eq_bigr => i _; rewrite mulrC.
  rewrite E E'. exact: (ip_img Wiso).
Qed.

Theorem D_img (u v : 'I_n -> F) :
  D conj (img W u) (img W v) + D conj (img W u) (img W v) = D conj u v + D conj u v.
Proof.
  have EB : B conj (img W v) = B conj v := A_img v.
  by rewrite !mw_per_qubit (A_img u) EB S_img Sc_img.
Qed.
End Inv2.

(* relabelling of the remaining qubits: any permutation of the index set *)
Section Perm.
Variable (F : fieldType) (conj : {rmorphism F -> F}).
Variable n : nat.
Variable s : 'S_n.
Lemma sum_perm (g : 'I_n -> F) : \sum_i g (s i) = \sum_i g i.
Proof. by rewrite [RHS](reindex_inj (@perm_inj _ s)). Qed.
Theorem D_perm (u v : 'I_n -> F) :
  D conj (fun i => u (s i)) (fun i => v (s i)) + D conj (fun i => u (s i)) (fun i => v (s i)) = D conj u v + D conj u v.
Proof.
  rewrite !mw_per_qubit /A /B /S /Sc.
  by rewrite (sum_perm (fun i => nsq conj (u i))) (sum_perm (fun i => nsq conj (v i)))
             (sum_perm (fun i => u i * conj (v i))) (sum_perm (fun i => conj (u i) * v i)).
Qed.
End Perm.

(* ---------- order: 0 <= D and 4 D <= 1 for unit vectors (complex numbers = any numClosedFieldType) ---------- *)
Import Order.TTheory Num.Theory.
Section Range.
Variable C : numClosedFieldType.
Variable n : nat.
Variables u v : 'I_n -> C.
Local Notation cj := (@conjC C).

Lemma D_ge0 : 0 <= D cj u v.
Proof.
  rewrite /D. apply: sumr_ge0 => j _. apply: sumr_ge0 => i _. rewrite /nsq. exact: mul_conjC_ge0.
Qed.
Lemma A_ge0 (x : 'I_n -> C) : 0 <= A cj x.
Proof. rewrite /A. apply: sumr_ge0 => i _. exact: mul_conjC_ge0. Qed.
Lemma Sc_conj : Sc cj u v = cj (S cj u v).
Proof. rewrite /Sc /S rmorph_sum /=. apply: eq_bigr => i _. by rewrite rmorphM /= conjCK. Qed.

Theorem D_le_quarter : A cj u + A cj v = 1 -> D cj u v *+ 4 <= 1.
Proof.
  move=> H1.
  have H2 : D cj u v + D cj u v <= A cj u * A cj v + A cj u * A cj v.
    rewrite mw_per_qubit /B Sc_conj. rewrite ler_subl_addr ler_addl.
    apply: addr_ge0; exact: mul_conjC_ge0.
  have H3 : A cj u * A cj v *+ 4 <= 1.
    have := real_leif_AGM2_scaled (ger0_real (A_ge0 u)) (ger0_real (A_ge0 v)).
    rewrite H1 expr1n. by case.
  have -> : D cj u v *+ 4 = (D cj u v + D cj u v) *+ 2 by rewrite -mulr2n -mulrnA.
  apply: le_trans H3. have -> : A cj u * A cj v *+ 4 = (A cj u * A cj v + A cj u * A cj v) *+ 2 by rewrite -mulr2n -mulrnA.
  by rewrite ler_muln2r /= H2.
Qed.
End Range.

(* ---------- D = 0 only when the halves are proportional (qubit k is not entangled with the rest) ---------- *)
Section Zero.
Variable C : numClosedFieldType.
Variable n : nat.
Variables u v : 'I_n -> C.
Local Notation cj := (@conjC C).

Lemma nsq_eq0 (z : C) : nsq cj z = 0 -> z = 0.
Proof. rewrite /nsq => /eqP. rewrite mulf_eq0 conjC_eq0 orbb. by move/eqP. Qed.

Theorem D_eq0_cross : D cj u v = 0 -> forall i j : 'I_n, u i * v j = u j * v i.
Proof.
  move=> H0.
  have Hlt : forall i j : 'I_n, (i < j)%N -> u i * v j = u j * v i.
    move=> i j Hij.
    have Hall : forall j0 : 'I_n, predT j0 -> \sum_(i0 : 'I_n | (i0 < j0)%N) nsq cj (u i0 * v j0 - u j0 * v i0) = 0.
      apply: psumr_eq0P; last exact: H0.
      move=> k _. apply: sumr_ge0 => l _. exact: mul_conjC_ge0.
    have Hj0 := Hall j isT.
    have Hin : forall i0 : 'I_n, (i0 < j)%N -> nsq cj (u i0 * v j - u j * v i0) = 0.
      apply: psumr_eq0P; last exact: Hj0.
      move=> k _. exact: mul_conjC_ge0.
    have Hz := Hin i Hij.
    by move/nsq_eq0/eqP: Hz; rewrite subr_eq0 => /eqP.
  move=> i j. case: (ltngtP i j) => Hij.
  - exact: Hlt.
  - by rewrite (Hlt j i Hij).
  - by rewrite (val_inj Hij).
Qed.

(* hence, when v is not the zero vector, u is a multiple of v *)
Corollary D_eq0_proportional (j : 'I_n) : D cj u v = 0 -> v j != 0 -> forall i, u i = (u j / v j) * v i.
Proof.
  move=> H0 Hv i. have E := D_eq0_cross H0 i j.
  by rewrite mulrAC -E mulfK.
Qed.
End Zero.
