(* C12 / C01: the 2x2 operators chosen by UCGInitialize._build_multiplexor, over any field with an involutive
   ring morphism conj.  (a0, a1) is the normalised child pair (a0 conj a0 + a1 conj a1 = 1).
   The matrix handed to the multiplexer is G = conj(operator)^T, written out entry by entry. *)
From mathcomp Require Import all_ssreflect all_algebra.
From mathcomp Require Import ring.
Set Implicit Arguments. Unset Strict Implicit. Unset Printing Implicit Defensive.
Import GRing.Theory.
Local Open Scope ring_scope.

Section Ops.
Variable (F : fieldType) (conj : {rmorphism F -> F}).
Hypothesis conjK : forall x, conj (conj x) = x.
Variables a0 a1 : F.
Hypothesis unit : a0 * conj a0 + a1 * conj a1 = 1.

(* target bit '0':  operator = [[a0, -conj a1], [a1, conj a0]],  G = [[conj a0, conj a1], [-a1, a0]] *)
Definition G0 : F * F * (F * F) := ((conj a0, conj a1), (- a1, a0)).
(* target bit '1':  operator = [[-conj a1, a0], [conj a0, a1]],  G = [[-a1, a0], [conj a0, conj a1]] *)
Definition G1 : F * F * (F * F) := ((- a1, a0), (conj a0, conj a1)).
Definition mulv (G : F * F * (F * F)) (x y : F) : F * F :=
  (G.1.1 * x + G.1.2 * y, G.2.1 * x + G.2.2 * y).

Lemma branch0 : mulv G0 a0 a1 = (1, 0).
Proof. rewrite /mulv /G0 /=. congr (_, _); last by ring. by rewrite -unit; ring. Qed.
Lemma branch1 : mulv G1 a0 a1 = (0, 1).
Proof. rewrite /mulv /G1 /=. congr (_, _); first by ring. by rewrite -unit; ring. Qed.

(* rows of G0 / G1 are orthonormal: G is unitary *)
Lemma G0_unitary :
  conj a0 * conj (conj a0) + conj a1 * conj (conj a1) = 1 /\ (- a1) * conj (- a1) + a0 * conj a0 = 1
  /\ conj a0 * conj (- a1) + conj a1 * conj a0 = 0.
Proof.
  rewrite !conjK rmorphN. split; [|split].
  - by rewrite -unit; ring.
  - by rewrite mulrNN addrC.
  - by rewrite mulrN mulrC addNr.
Qed.
End Ops.

Section Diag.
Variable (F : fieldType) (conj : {rmorphism F -> F}).
Variable a1 : F.
Hypothesis unit1 : a1 * conj a1 = 1.        (* the |0> child vanishes: |a1| = 1 *)
(* target '0': operator = [[0,1],[a1,0]], G = [[0, conj a1],[1, 0]];  target '1': operator = diag(1,a1), G = diag(1, conj a1) *)
Lemma diag0 : (0 * 0 + conj a1 * a1, 1 * 0 + 0 * a1) = (1, 0 : F).
Proof. congr (_, _); last by ring. by rewrite -unit1; ring. Qed.
Lemma diag1 : (1 * 0 + 0 * a1, 0 * 0 + conj a1 * a1) = (0 : F, 1).
Proof. congr (_, _); first by ring. by rewrite -unit1; ring. Qed.
End Diag.
