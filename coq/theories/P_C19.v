(* Property C19: black-box (amplitude amplification) preparation.  PARTIAL: the 2-D recurrence of the rounds and the
   flag amplitudes of the oracle are theorems; the reduction of the n-qubit circuit to the 2-D recurrence (U I_s U^dagger is
   the reflection about U|0>) is evaluated; the number of rounds and the oracle angles are tied by correspondence/monitors. *)
From Coq Require Import Reals Lra.
From QV Require Import Grover.
Open Scope R_scope.

(* after j rounds the (good, bad) coordinates are (-1)^j (sin((2j+1)t), cos((2j+1)t)): with the circuit's global phase pi
   for odd j the flagged branch carries exactly sin((2j+1)t) times the target vector *)
Theorem C19_grover_rec : forall t j,
  iter t j (sin t, cos t) = (sgn j * sin ((2 * INR j + 1) * t), sgn j * cos ((2 * INR j + 1) * t)).
Proof. exact grover_rec. Qed.
Print Assumptions C19_grover_rec.

(* the oracle's rotation loads modulus m on flag = 0 and sqrt(1-m^2) on flag = 1, PROVIDED 0 <= m <= 1: the hypothesis
   that binary64 normalisation violates by one ulp (repaired in /repo by clipping before arccos) *)
Theorem C19_oracle_flag : forall m, 0 <= m <= 1 ->
  cos (2 * acos m / 2) = m /\ sin (2 * acos m / 2) = sqrt (1 - m * m).
Proof. exact oracle_flag. Qed.
Print Assumptions C19_oracle_flag.

Example ex_hyp : 0 <= 1 <= 1 /\ 0 <= 0 <= 1.
Proof. lra. Qed.
