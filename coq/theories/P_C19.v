(* Property C19: black-box (amplitude amplification) preparation.  The gate list of the model (BlackBox.bb_circuit: the oracle
   U = H^n ; UCRY ; UCRZ, r rounds of I_t ; U^-1 ; I_s ; U) is proved end to end, for every n, every r and every pair of angle
   tables: from |0..0>, times the global phase (-1)^r, the flag = 0 branch is sin((2r+1)t) a_k with a_k = cos(th_k/2) e^{-i ph_k/2}
   (C19_flag0_branch, C19_flag0_branch_asin), the flag = 1 branch carries cos((2r+1)t) b_k / sqrt(2^n - 1) (C19_flag1_branch).
   The number of rounds and the angle tables are tied to /repo by the correspondence and the angle contract. *)
From Coq Require Import Reals Lra.
From Coq Require Import NArith List.
From Coquelicot Require Import Complex.
From QV Require Import Sem Grover BlackBox.
Open Scope R_scope.

(* after j rounds the (good, bad) coordinates are (-1)^j (sin((2j+1)t), cos((2j+1)t)): with the circuit's global phase pi
   for odd j the flagged branch carries exactly sin((2j+1)t) times the target vector *)
Theorem C19_grover_rec : forall t j,
  iter t j (sin t, cos t) = (sgn j * sin ((2 * INR j + 1) * t), sgn j * cos ((2 * INR j + 1) * t)).
Proof. exact grover_rec. Qed.
Print Assumptions C19_grover_rec.

(* the oracle's rotation loads modulus m on flag = 0 and sqrt(1-m^2) on flag = 1, PROVIDED 0 <= m <= 1: the hypothesis
   that binary64 normalisation violates by one ulp (repaired in /repo by clipping before arccos) *)
Theorem C19_oracle_flag : forall m, 0 <= m <= 1 ->
  cos (2 * acos m / 2) = m /\ sin (2 * acos m / 2) = sqrt (1 - m * m).
Proof. exact oracle_flag. Qed.
Print Assumptions C19_oracle_flag.

Example ex_hyp : 0 <= 1 <= 1 /\ 0 <= 0 <= 1.
Proof. lra. Qed.

(* ---------- the circuit, end to end (assignment semantics: qubit 0 = flag, qubits 1..n = data, little endian) ---------- *)
(* the state stays in the plane spanned by G (flag 0: the amplitudes a_k) and B (flag 1: the complementary amplitudes b_k) *)
Theorem C19_circuit_state : forall (n : nat) (th ph : nat -> R),
  bigsum (fun k => RtoC (cos (th k / 2) * cos (th k / 2))) (2 ^ n) = 1 ->
  forall r, brun n th ph (bb_circuit n r) e0 = comb n th ph (RtoC (fst (xy n r))) (RtoC (snd (xy n r))).
Proof. exact circuit_state. Qed.
Print Assumptions C19_circuit_state.

Theorem C19_flag0_branch : forall (n : nat) (th ph : nat -> R),
  bigsum (fun k => RtoC (cos (th k / 2) * cos (th k / 2))) (2 ^ n) = 1 ->
  forall t sq : R, sin t = sn n -> cos t = sn n * sq -> sq * sq = 2 ^ n - 1 ->
  forall (r : nat) (b : asg), get b 0 = false ->
  (RtoC (sgn r) * brun n th ph (bb_circuit n r) e0 b = RtoC (sin ((2 * INR r + 1) * t)) * (indh n b * ak th ph (cidx n b)))%C.
Proof. exact flag0_branch. Qed.
Print Assumptions C19_flag0_branch.

(* with the angle of the property, theta = asin(1/sqrt(N)), N = 2^n: no side conditions left but the normalisation *)
Theorem C19_flag0_branch_asin : forall (n : nat) (th ph : nat -> R) (r : nat) (b : asg),
  bigsum (fun k => RtoC (cos (th k / 2) * cos (th k / 2))) (2 ^ n) = 1 ->
  get b 0 = false ->
  (RtoC (sgn r) * brun n th ph (bb_circuit n r) e0 b
   = RtoC (sin ((2 * INR r + 1) * asin (/ sqrt (2 ^ n)))) * (indh n b * ak th ph (cidx n b)))%C.
Proof. exact flag0_branch_asin. Qed.
Print Assumptions C19_flag0_branch_asin.

Theorem C19_flag1_branch : forall (n : nat) (th ph : nat -> R),
  bigsum (fun k => RtoC (cos (th k / 2) * cos (th k / 2))) (2 ^ n) = 1 ->
  forall t sq : R, sin t = sn n -> cos t = sn n * sq -> sq * sq = 2 ^ n - 1 ->
  forall (r : nat) (b : asg), get b 0 = true ->
  (RtoC sq * (RtoC (sgn r) * brun n th ph (bb_circuit n r) e0 b)
   = RtoC (cos ((2 * INR r + 1) * t)) * (indh n b * bk th ph (cidx n b)))%C.
Proof. exact flag1_branch. Qed.
Print Assumptions C19_flag1_branch.

(* the premise is the normalisation of the vector: |a_k|^2 = cos^2(th_k/2) *)
Theorem C19_amp_norm : forall (th ph : nat -> R) (k : nat),
  (ak th ph k * Cconj (ak th ph k))%C = RtoC (cos (th k / 2) * cos (th k / 2)).
Proof. exact ak_norm. Qed.
Print Assumptions C19_amp_norm.

(* "the rest of the norm lies on the flag = 1 branch": the flag = 1 amplitudes are cos((2r+1)t) b_k / sqrt(N - 1) and the |b_k|^2
   sum to N - 1, so that branch weighs cos^2((2r+1)t) and the flag = 0 branch sin^2((2r+1)t) *)
Theorem C19_rest_weight : forall (n : nat) (th ph : nat -> R),
  bigsum (fun k => RtoC (cos (th k / 2) * cos (th k / 2))) (2 ^ n) = 1 ->
  bigsum (fun k => (bk th ph k * Cconj (bk th ph k))%C) (2 ^ n) = RtoC (2 ^ n - 1).
Proof. exact rest_weight. Qed.
Print Assumptions C19_rest_weight.

(* the premises are satisfiable: one data qubit, the uniform vector (th = pi/2 twice) *)
Example ex_norm : bigsum (fun k => RtoC (cos ((fun _ => PI / 2) k / 2) * cos ((fun _ => PI / 2) k / 2))) (2 ^ 1) = 1.
Proof.
  cbn [Nat.pow Nat.mul Nat.add bigsum]. replace (PI / 2 / 2) with (PI / 4) by field. rewrite cos_PI4.
  assert (E : 1 / sqrt 2 * (1 / sqrt 2) = / 2).
  { unfold Rdiv. rewrite !Rmult_1_l. rewrite <- Rinv_mult, sqrt_sqrt by lra. reflexivity. }
  rewrite E. apply injective_projections; cbn [fst snd Cplus RtoC]; field.
Qed.
