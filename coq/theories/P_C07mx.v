(* Property C07 (part 2): overlap of a state M = U diag(s) V with its truncation M' = U diag(p) diag(s) V
   (p the 0/1 mask of the kept terms) is sum_i p_i |s_i|^2, given orthonormal left and right Schmidt vectors -
   over any field with an involutive ring morphism conj. *)
From mathcomp Require Import all_ssreflect all_algebra.
From QV Require Import Fidelity LowRankAsm.
Set Implicit Arguments. Unset Strict Implicit. Unset Printing Implicit Defensive.
Import GRing.Theory.
Local Open Scope ring_scope.

Theorem C07_overlap_truncated :
  forall (F : fieldType) (conj : {rmorphism F -> F}) (d1 d2 r : nat)
         (U : 'M[F]_(d1, r)) (V : 'M[F]_(r, d2)) (s p : 'rV[F]_r),
  adj conj U *m U = 1%:M -> V *m adj conj V = 1%:M ->
  \tr (adj conj (M U V s) *m M' U V s p) = \sum_i p 0 i * (s 0 i * conj (s 0 i)).
Proof. exact: overlap_truncated. Qed.
Print Assumptions C07_overlap_truncated.

(* assembly of the Schmidt circuit (see LowRankAsm.v): singular values and CNOT fan give sum_i s_i e_(jb i) e_(ja i)^T; the
   circuits of U and V^T, whose columns at the embedded indices are the Schmidt vectors, turn it into sum_i s_i u_i v_i^T *)
Theorem C07_lowrank_assembly : forall (R : comRingType) (dB dA r : nat) (jb : 'I_r -> 'I_dB) (ja : 'I_r -> 'I_dA) (s : 'I_r -> R)
  (WB : 'M[R]_dB) (WA : 'M[R]_dA) (U : 'M[R]_(dB, r)) (V : 'M[R]_(dA, r)),
  (forall i, col (jb i) WB = col i U) -> (forall i, col (ja i) WA = col i V) ->
  WB *m Psi2 jb ja s *m WA^T = \sum_i s i *: (col i U *m (col i V)^T).
Proof. move=> R dB dA r jb ja s WB WA U V H1 H2. exact: lowrank_assembly. Qed.
Print Assumptions C07_lowrank_assembly.
