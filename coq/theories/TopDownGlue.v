(* C01: list-level glue for top-down preparation.  The gate list produced by the executable model
   TopDownModel.topdown_gates (zero-skip instance) denotes the semantic walk of TopDownWalk, hence prepares the
   amplitude tree of its angle tables, for every n and every table. *)
From Coq Require Import Reals Lra List Bool Arith Lia NArith FunctionalExtensionality QArith Qreals.
From Coquelicot Require Import Complex.
From QV Require Import Sem Mat2 UcrLocal Toff2 Chain UcrPlaced TopDownWalk AmpTree UcrModel TopDownModel.
Import ListNotations.
Open Scope R_scope.

(* ---------- two more facts about the placed multiplexer ---------- *)
Section Placed2.
Variable t : nat.
Variable cq : nat -> nat.
Hypothesis cq_t : forall i, cq i <> t.

(* the reversed multiplexer with its entangler in front (claim B of UcrPlaced.ucrp_AB at state level) *)
Theorem ucrp_first r e k a : (e = EntCX \/ r = RotY) ->
  forall psi, run (lastE t cq e k ++ rev (ucrp t cq r e k a)) psi = muxp t cq r k a psi.
Proof.
  intros Hre psi.
  assert (W : Forall (gwf t) (lastE t cq e k ++ rev (ucrp t cq r e k a))).
  { apply Forall_app; split; [destruct k; constructor; simpl; auto | apply Forall_rev, ucrp_wf; auto]. }
  rewrite (run_cmat t) by auto. apply functional_extensionality; intros b. unfold appf, muxp.
  f_equal. rewrite cmat_app. destruct (ucrp_AB t cq r e Hre k a b) as [_ B].
  destruct k; simpl in *.
  - now rewrite mmul_I2_r in *.
  - rewrite mmul_I2_l. exact B.
Qed.

Lemma muxp_zero r k a psi : (forall j, a j = 0) -> muxp t cq r k a psi = psi.
Proof.
  intros H. apply functional_extensionality; intros b. unfold muxp. rewrite H, Rm_0. apply app1_I2.
Qed.
End Placed2.

(* ---------- the real instance of the generic model ---------- *)
Definition skip0 (x : R) : bool := if Req_EM_T x 0 then true else false.
Definition Rops : aops R :=
  {| aadd := Rplus; asub := Rminus; ahalf := fun x => x / 2; askip := skip0 |}.
Definition nzR (x : R) : bool := negb (skip0 x).
Definition gR (g : pgate R) : gate := valgate (fun x => x) g.

Section Relabel.
Variable f : nat -> nat.
Let t := f 0%nat.
Let cq (i : nat) := f i.

Lemma ucr_nl_relabel r e k : forall a,
  map gR (map (relabel_p f) (ucr_nl_g Rops r e k a)) = ucrp t cq r e k a.
Proof.
  induction k as [|k IH]; intros a; cbn [ucr_nl_g ucrp].
  - cbn [askip Rops]. unfold skip0. destruct (Req_EM_T (a 0%nat) 0); reflexivity.
  - rewrite !map_app, !map_rev, !IH. cbn [map relabel_p gR valgate]. reflexivity.
Qed.

Lemma ucr_relabel r e k a last :
  map gR (map (relabel_p f) (ucr_g Rops r e k a last))
  = ucrp t cq r e k a ++ (if last then lastE t cq e k else []).
Proof.
  unfold ucr_g. rewrite !map_app, ucr_nl_relabel. f_equal.
  destruct k; destruct last; reflexivity.
Qed.
End Relabel.

Lemma anyb_false l : anyb nzR l = false -> forall j, nth j l 0 = 0.
Proof.
  unfold anyb. induction l as [|x l IH]; intros H j.
  - destruct j; reflexivity.
  - simpl in H. apply orb_false_elim in H as [Hx Hl]. destruct j; simpl; auto.
    unfold nzR, skip0 in Hx. destruct (Req_EM_T x 0); auto. discriminate.
Qed.

(* ---------- one level ---------- *)
Section LevelGlue.
Variable n l : nat.
Hypothesis Hl : (l < n)%nat.
Variables ys zs : list R.

Lemma place_t : place n l 0 = tq n l. Proof. reflexivity. Qed.
Lemma place_cq i : (1 <= i)%nat -> place n l i = cql n l i.
Proof. intros H. destruct i; [lia|]. unfold place, cql. lia. Qed.
Lemma place_ne i : (1 <= i)%nat -> place n l i <> place n l 0.
Proof. intros H. destruct i; [lia|]. unfold place. lia. Qed.

(* ucrp only reads the controls at indices >= 1 *)
Lemma ucrp_ext t cq cq' r e k : (forall i, (1 <= i)%nat -> cq i = cq' i) ->
  forall a, ucrp t cq r e k a = ucrp t cq' r e k a.
Proof.
  intros H. induction k as [|k IH]; intros a; cbn [ucrp]. reflexivity.
  now rewrite !IH, H by lia.
Qed.
Lemma lastE_ext t cq cq' e k : (forall i, (1 <= i)%nat -> cq i = cq' i) -> lastE t cq e k = lastE t cq' e k.
Proof. intros H. destruct k; simpl; auto. now rewrite H by lia. Qed.

Theorem level_gates_sem psi :
  run (map gR (level_gates Rops nzR n l ys zs 0)) psi
  = level (tq n l) (cql n l) l (fun j => nth j ys 0) (fun j => nth j zs 0) psi.
Proof.
  assert (Hcq : forall i, cql n l i <> tq n l) by (intros; apply cql_t; auto).
  assert (EXT : forall i, (1 <= i)%nat -> place n l i = cql n l i) by apply place_cq.
  unfold level_gates, level. rewrite map_app.
  set (ay := fun j => nth j ys 0). set (az := fun j => nth j zs 0).
  destruct (anyb nzR ys) eqn:AY, (anyb nzR zs) eqn:AZ; cbn [negb].
  - (* both multiplexers: shared omitted entangler *)
    rewrite !map_rev, !ucr_relabel. rewrite !app_nil_r. rewrite place_t.
    rewrite (ucrp_ext _ _ (cql n l)) by exact EXT.
    rewrite (ucrp_ext _ (fun i => place n l i) (cql n l) RotZ) by exact EXT.
    now apply ucrp_pair.
  - (* only RY: complete multiplexer; the RZ multiplexer has only zero angles *)
    cbn [map app]. rewrite app_nil_r, ucr_relabel, place_t.
    rewrite (ucrp_ext _ _ (cql n l)) by exact EXT. rewrite (lastE_ext _ _ (cql n l)) by exact EXT.
    rewrite (ucrp_last (tq n l) (cql n l) Hcq) by (left; reflexivity).
    symmetry. apply muxp_zero. intros j. unfold az. now apply anyb_false.
  - (* only RZ: reversed complete multiplexer *)
    cbn [map app]. rewrite !map_rev, ucr_relabel, place_t, rev_app_distr.
    rewrite (ucrp_ext _ _ (cql n l)) by exact EXT. rewrite (lastE_ext _ _ (cql n l)) by exact EXT.
    replace (rev (lastE (tq n l) (cql n l) EntCX l)) with (lastE (tq n l) (cql n l) EntCX l) by (destruct l; reflexivity).
    rewrite (ucrp_first (tq n l) (cql n l) Hcq) by (left; reflexivity).
    f_equal. symmetry. apply muxp_zero. intros j. unfold ay. now apply anyb_false.
  - (* nothing emitted *)
    cbn [map app run fold_left].
    rewrite !muxp_zero; auto; intros j; [unfold az | unfold ay]; now apply anyb_false.
Qed.
End LevelGlue.

(* ---------- all levels ---------- *)
Section Whole.
Variable n : nat.
Variables ys zs : list (list R).
Hypothesis Hy : length ys = n.
Hypothesis Hz : length zs = n.
Definition tab (t : list (list R)) (l j : nat) : R := nth j (nth l t []) 0.

Lemma levels_sem : forall (ys' zs' : list (list R)) (l : nat) psi,
  length ys' = length zs' -> (l + length ys' = n)%nat ->
  (forall i, nth i ys' [] = nth (l + i) ys []) -> (forall i, nth i zs' [] = nth (l + i) zs []) ->
  run (map gR (topdown_levels Rops nzR n l ys' zs' 0)) (walk n (tab ys) (tab zs) l psi)
  = walk n (tab ys) (tab zs) n psi.
Proof.
  induction ys' as [|y ys' IH]; intros zs' l psi HL Hn Ey Ez.
  - destruct zs'; [|discriminate]. simpl in Hn. replace l with n by lia. reflexivity.
  - destruct zs' as [|z zs']; [discriminate|]. cbn [topdown_levels]. rewrite map_app.
    unfold run. rewrite fold_left_app. fold (run (map gR (level_gates Rops nzR n l y z 0)) (walk n (tab ys) (tab zs) l psi)).
    fold (run (map gR (topdown_levels Rops nzR n (S l) ys' zs' 0))).
    simpl in Hn. rewrite level_gates_sem by lia.
    assert (E : level (tq n l) (cql n l) l (fun j => nth j y 0) (fun j => nth j z 0) (walk n (tab ys) (tab zs) l psi)
                = walk n (tab ys) (tab zs) (S l) psi).
    { cbn [walk]. f_equal.
      - apply functional_extensionality; intros j. unfold tab. specialize (Ey 0%nat). simpl in Ey. rewrite Nat.add_0_r in Ey. now rewrite <- Ey.
      - apply functional_extensionality; intros j. unfold tab. specialize (Ez 0%nat). simpl in Ez. rewrite Nat.add_0_r in Ez. now rewrite <- Ez. }
    rewrite E. apply IH.
    + simpl in HL. lia.
    + lia.
    + intros i. specialize (Ey (S i)). simpl in Ey. rewrite Ey. f_equal. lia.
    + intros i. specialize (Ez (S i)). simpl in Ez. rewrite Ez. f_equal. lia.
Qed.

Theorem topdown_gates_sem psi :
  run (map gR (topdown_gates Rops nzR n ys zs 0)) psi = walk n (tab ys) (tab zs) n psi.
Proof.
  unfold topdown_gates. change psi with (walk n (tab ys) (tab zs) 0 psi) at 1.
  apply levels_sem; auto; try lia.
Qed.

(* the model's circuit prepares the amplitude tree of its angle tables *)
Theorem topdown_model_amplitudes b : (forall q, (n <= q)%nat -> get b q = false) ->
  run (map gR (topdown_gates Rops nzR n ys zs 0)) ket0 b = amp (tab ys) (tab zs) n (lidx n n b).
Proof. intros H. rewrite topdown_gates_sem. now apply topdown_amplitudes. Qed.
End Whole.

(* ---------- the executable rational instance denotes the same gate list ---------- *)
Lemma Q2R_0 : Q2R 0 = 0. Proof. unfold Q2R. simpl. lra. Qed.
Lemma Q2R_half0 x : Q2R (Qred (x / 2)) = Q2R x / 2.
Proof. apply UcrModel.Q2R_half. Qed.

Lemma qskip0_ok x : Qeq_bool x 0 = skip0 (Q2R x).
Proof.
  unfold skip0. destruct (Req_EM_T (Q2R x) 0) as [E|E].
  - apply Qeq_bool_iff. apply eqR_Qeq. now rewrite Q2R_0.
  - destruct (Qeq_bool x 0) eqn:B; auto. apply Qeq_bool_iff in B. apply Qeq_eqR in B. rewrite Q2R_0 in B. contradiction.
Qed.
Lemma qnz_ok x : qnz x = nzR (Q2R x).
Proof. unfold qnz, nzR. now rewrite qskip0_ok. Qed.

Lemma ucr_g_Rops r e k a last : map gR (ucr_g Rops r e k a last) = ucr_s skip0 r e k a last.
Proof.
  unfold gR. rewrite (ucr_g_val Rops (fun x => x) skip0); auto.
Qed.
Lemma ucr_q0_R r e k (a : nat -> Q) last :
  map (valgate Q2R) (ucr_g qops0 r e k a last) = map gR (ucr_g Rops r e k (fun j => Q2R (a j)) last).
Proof.
  rewrite ucr_g_Rops. apply ucr_g_val.
  - intros x y. cbn [ahalf aadd qops0]. now rewrite Q2R_half0, Q2R_plus.
  - intros x y. cbn [ahalf asub qops0]. now rewrite Q2R_half0, Q2R_minus.
  - intros x. cbn [askip qops0]. apply qskip0_ok.
Qed.

Definition relabel_g (f : nat -> nat) (g : gate) : gate :=
  match g with GRot r x q => GRot r x (f q) | GEnt e c t => GEnt e (f c) (f t) end.
Lemma val_relabel {A} (v : A -> R) f (l : list (pgate A)) :
  map (valgate v) (map (relabel_p f) l) = map (relabel_g f) (map (valgate v) l).
Proof. rewrite !map_map. apply map_ext. intros [r x q|e c t]; reflexivity. Qed.

Lemma anyb_q (l : list Q) : anyb qnz l = anyb nzR (map Q2R l).
Proof. unfold anyb. induction l as [|x l IH]; simpl; auto. now rewrite IH, qnz_ok. Qed.

Lemma level_q_R n l (ys zs : list Q) :
  map (valgate Q2R) (level_gates qops0 qnz n l ys zs 0%Q)
  = map gR (level_gates Rops nzR n l (map Q2R ys) (map Q2R zs) 0).
Proof.
  unfold level_gates. rewrite !map_app, <- !anyb_q.
  assert (N : forall (t : list Q), (fun j => Q2R (nth j t 0%Q)) = (fun j => nth j (map Q2R t) 0)).
  { intros t. apply functional_extensionality; intros j. rewrite <- Q2R_0. symmetry. apply map_nth. }
  f_equal.
  - destruct (anyb qnz ys); [|reflexivity]. unfold gR at 1. rewrite !val_relabel. f_equal.
    rewrite ucr_q0_R, N. reflexivity.
  - destruct (anyb qnz zs); [|reflexivity]. unfold gR at 1. rewrite !val_relabel. f_equal.
    rewrite !map_rev. f_equal. rewrite ucr_q0_R, N. reflexivity.
Qed.

Lemma levels_q_R n : forall (ys zs : list (list Q)) l,
  map (valgate Q2R) (topdown_levels qops0 qnz n l ys zs 0%Q)
  = map gR (topdown_levels Rops nzR n l (map (map Q2R) ys) (map (map Q2R) zs) 0).
Proof.
  induction ys as [|y ys IH]; intros zs l; [reflexivity|].
  destruct zs as [|z zs]; [reflexivity|]. cbn [topdown_levels map]. rewrite !map_app, level_q_R, IH. reflexivity.
Qed.

(* the gate list that the correspondence check compares with TopDownInitialize (exact-zero leaf skip) prepares the
   amplitude tree of its angle tables *)
Theorem topdown_q0_amplitudes n (ys zs : list (list Q)) b :
  length ys = n -> length zs = n -> (forall q, (n <= q)%nat -> get b q = false) ->
  run (map (valgate Q2R) (topdown_q0 n ys zs)) ket0 b
  = amp (tab (map (map Q2R) ys)) (tab (map (map Q2R) zs)) n (lidx n n b).
Proof.
  intros Hy Hz Hb. unfold topdown_q0, topdown_gates. rewrite levels_q_R.
  apply (topdown_model_amplitudes n); auto; now rewrite map_length.
Qed.

(* ---------- end to end on the real instance: angle tables computed from a state tree ---------- *)
Lemma amp_ext (ay az ay' az' : nat -> nat -> R) : forall l j, (j < 2 ^ l)%nat ->
  (forall l' p, (l' < l)%nat -> (p < 2 ^ l')%nat -> ay l' p = ay' l' p /\ az l' p = az' l' p) ->
  amp ay az l j = amp ay' az' l j.
Proof.
  induction l as [|l IH]; intros j Hj H. reflexivity.
  cbn [amp]. assert (Hp : (j / 2 < 2 ^ l)%nat).
  { apply Nat.div_lt_upper_bound; [lia|]. simpl in Hj. lia. }
  destruct (H l (j / 2)%nat ltac:(lia) Hp) as [-> ->].
  rewrite (IH (j / 2)%nat Hp). reflexivity. intros l' p Hl' Hp'. apply H; auto.
Qed.

Lemma lidx_lt n : forall l b, (l <= n)%nat -> (lidx n l b < 2 ^ l)%nat.
Proof.
  induction l as [|l IH]; intros b Hl. simpl. unfold lidx. simpl. lia.
  rewrite lidx_S by lia. specialize (IH b ltac:(lia)). simpl. destruct (get b (tq n l)); lia.
Qed.

(* If the tables handed to the model are the angle tree of a state tree (mag, arg) - which the correspondence check
   verifies numerically on every run - the circuit prepares m_k e^{i(phi_k - phi_root)} (times the root magnitude):
   with the global phase phi_root that TopDownInitialize adds and a unit vector this is the requested state. *)
Theorem topdown_prepares_state (n : nat) (ys zs : list (list R)) (mag arg : nat -> nat -> R) b :
  length ys = n -> length zs = n ->
  (forall l j, 0 <= mag l j) ->
  (forall l j, mag l j * mag l j = mag (S l) (2*j)%nat * mag (S l) (2*j)%nat + mag (S l) (2*j+1)%nat * mag (S l) (2*j+1)%nat) ->
  (forall l j, arg l j = (arg (S l) (2*j)%nat + arg (S l) (2*j+1)%nat) / 2) ->
  (forall l j, (l < n)%nat -> (j < 2 ^ l)%nat -> tab ys l j = AmpTree.ay mag l j /\ tab zs l j = AmpTree.az arg l j) ->
  (forall q, (n <= q)%nat -> get b q = false) ->
  (run (map gR (topdown_gates Rops nzR n ys zs 0)) ket0 b * mag 0%nat 0%nat
   = mag n (lidx n n b) * cis (arg n (lidx n n b) - arg 0%nat 0%nat))%C.
Proof.
  intros Hy Hz M1 M2 A1 T Hb.
  rewrite (topdown_model_amplitudes n ys zs Hy Hz b Hb).
  rewrite (amp_ext _ _ (AmpTree.ay mag) (AmpTree.az arg)).
  - apply AmpTree.amp_tree; auto. apply lidx_lt. lia.
  - apply lidx_lt. lia.
  - intros l' p Hl Hp. apply T; auto.
Qed.
