(* Finite sums over the values of a list of qubits (marginals and norms of states given as functions on assignments). *)
From Coq Require Import Reals Lra List Bool Arith Lia NArith Permutation.
From Coquelicot Require Import Complex.
From QV Require Import Sem.
Import ListNotations.
Open Scope R_scope.

Fixpoint sumq (qs : list nat) (f : asg -> R) (b : asg) : R :=
  match qs with
  | [] => f b
  | q :: r => sumq r f (upd b q false) + sumq r f (upd b q true)
  end.

Lemma sumq_ext qs f g : (forall b, f b = g b) -> forall b, sumq qs f b = sumq qs g b.
Proof. intros H. induction qs as [|q r IH]; intros b; simpl; auto. now rewrite !IH. Qed.

Lemma sumq_scal qs c f : forall b, sumq qs (fun x => c * f x) b = c * sumq qs f b.
Proof. induction qs as [|q r IH]; intros b; simpl; auto. rewrite !IH. ring. Qed.

Lemma sumq_zero qs : forall b, sumq qs (fun _ => 0) b = 0.
Proof. induction qs as [|q r IH]; intros b; simpl; auto. rewrite !IH. ring. Qed.

Lemma sumq_app l1 l2 f : forall b, sumq (l1 ++ l2) f b = sumq l1 (sumq l2 f) b.
Proof. induction l1 as [|q r IH]; intros b; simpl; auto. now rewrite !IH. Qed.

(* dependence on qubits *)
Definition indepq {A} (q : nat) (f : asg -> A) : Prop := forall b v, f (upd b q v) = f b.
Definition indeps {A} (qs : list nat) (f : asg -> A) : Prop := forall q, In q qs -> indepq q f.

Lemma sumq_indep_arg qs f q v : ~ In q qs -> forall b, sumq qs f (upd b q v) = sumq qs (fun x => f (upd x q v)) b.
Proof.
  induction qs as [|a r IH]; intros H b; simpl; auto.
  assert (a <> q) by (intro E; apply H; left; auto).
  rewrite !(upd_comm b q v a) by auto. rewrite !IH by (intro I; apply H; now right). reflexivity.
Qed.

Lemma sumq_comm2 qs f a c : forall b, sumq (a :: c :: qs) f b = sumq (c :: a :: qs) f b.
Proof.
  intros b. simpl. destruct (Nat.eq_dec a c) as [->|H]. ring.
  rewrite !(upd_comm b a _ c) by auto. ring.
Qed.
Lemma sumq_perm l l' f : Permutation l l' -> forall b, sumq l f b = sumq l' f b.
Proof.
  induction 1 as [|x l l' _ IH|x y l|l l' l'' _ IH1 _ IH2]; intros b.
  - reflexivity.
  - simpl. now rewrite !IH.
  - apply sumq_comm2.
  - now rewrite IH1, IH2.
Qed.

(* a factor that does not depend on the summed qubits comes out *)
Lemma sumq_factor qs g f : indeps qs g -> forall b, sumq qs (fun x => g x * f x) b = g b * sumq qs f b.
Proof.
  induction qs as [|q r IH]; intros H b; simpl. reflexivity.
  assert (Hr : indeps r g) by (intros a Ha; apply H; now right).
  rewrite !IH by auto. rewrite !(H q (or_introl eq_refl)). ring.
Qed.

(* the sum no longer depends on the summed qubits *)
Lemma sumq_indep_self qs f q : In q qs -> indepq q (sumq qs f).
Proof.
  induction qs as [|a r IH]; intros H b v. destruct H.
  simpl. destruct (Nat.eq_dec a q) as [->|Hq].
  - now rewrite !upd_upd.
  - destruct H as [E|H]; [congruence|].
    rewrite !(upd_comm b q v a) by auto. now rewrite !(IH H).
Qed.
Lemma sumq_indep_other qs f q : indepq q f -> ~ In q qs -> indepq q (sumq qs f).
Proof.
  intros Hf Hq b v. rewrite sumq_indep_arg by auto. apply sumq_ext. intros x. apply Hf.
Qed.

(* product of two factors living on disjoint sets of qubits *)
Lemma sumq_prod l1 l2 f g : indeps l2 f -> indeps l1 g -> (forall q, In q l1 -> ~ In q l2) ->
  forall b, sumq (l1 ++ l2) (fun x => f x * g x) b = sumq l1 f b * sumq l2 g b.
Proof.
  intros Hf Hg Hd b. rewrite sumq_app.
  rewrite (sumq_ext l1 _ (fun x => sumq l2 g x * f x)).
  - rewrite sumq_factor. ring.
    intros q Hq. apply sumq_indep_other. apply Hg; auto. now apply Hd.
  - intros x. rewrite sumq_factor by auto. ring.
Qed.

(* swapping two qubits *)
Definition swapq (a c : nat) (x : asg) : asg := upd (upd x a (get x c)) c (get x a).
Lemma get_swapq a c x q : a <> c -> get (swapq a c x) q = if q =? a then get x c else if q =? c then get x a else get x q.
Proof.
  intros H. unfold swapq.
  destruct (Nat.eqb_spec q a) as [->|Ha].
  - rewrite get_upd_other by auto. apply get_upd_same.
  - destruct (Nat.eqb_spec q c) as [->|Hc]. apply get_upd_same. now rewrite !get_upd_other by auto.
Qed.
Lemma swapq_upd_c a c x v : a <> c -> swapq a c (upd x c v) = upd (swapq a c x) a v.
Proof.
  intros H. apply asg_ext. intros q. rewrite get_swapq by auto.
  destruct (Nat.eq_dec q a) as [->|Ha].
  - rewrite Nat.eqb_refl, !get_upd_same. reflexivity.
  - rewrite (proj2 (Nat.eqb_neq q a)) by auto. rewrite (get_upd_other _ a) by auto. rewrite get_swapq by auto.
    rewrite (proj2 (Nat.eqb_neq q a)) by auto.
    destruct (Nat.eqb_spec q c) as [->|Hc]. now rewrite get_upd_other by auto.
    now rewrite get_upd_other by auto.
Qed.
Lemma swapq_upd_other a c x q v : q <> a -> q <> c -> swapq a c (upd x q v) = upd (swapq a c x) q v.
Proof.
  intros Ha Hc. destruct (Nat.eq_dec a c) as [->|H].
  - unfold swapq. rewrite !get_upd_other by auto. rewrite !upd_upd.
    rewrite (upd_comm x q v c) by auto. reflexivity.
  - apply asg_ext. intros p. rewrite get_swapq by auto.
    destruct (Nat.eq_dec p q) as [->|Hp].
    + rewrite get_upd_same. rewrite (proj2 (Nat.eqb_neq q a)), (proj2 (Nat.eqb_neq q c)) by auto. now rewrite get_upd_same.
    + assert (a <> q) by auto. assert (c <> q) by auto.
      rewrite (get_upd_other (swapq a c x) q v p) by auto. rewrite get_swapq by auto.
      now rewrite !get_upd_other by auto.
Qed.

(* re-indexing: summing f o swap over c (and qs) at b = summing f over a (and qs) at the swapped point *)
Lemma sumq_swap_one a c qs f : a <> c -> ~ In a qs -> ~ In c qs ->
  forall b, sumq (c :: qs) (fun x => f (swapq a c x)) b = sumq (a :: qs) f (swapq a c b).
Proof.
  intros H Ha Hc b.
  assert (G : forall qs', ~ In a qs' -> ~ In c qs' -> forall x, sumq qs' (fun y => f (swapq a c y)) x = sumq qs' f (swapq a c x)).
  { induction qs' as [|q r IH]; intros Ha' Hc' x; simpl. reflexivity.
    assert (q <> a) by (intro E; apply Ha'; left; auto). assert (q <> c) by (intro E; apply Hc'; left; auto).
    rewrite !IH by (intro I; first [apply Ha'; now right | apply Hc'; now right]).
    now rewrite !swapq_upd_other by auto. }
  cbn [sumq]. rewrite !G by auto. now rewrite !swapq_upd_c by auto.
Qed.
