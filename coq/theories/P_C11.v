(* Property C11: widths of the bidirectional and divide-and-conquer initializers.
   bdsp_width, dcsp_width, the start levels and the allocation count are REGENERATED FROM THE SOURCE (Gen_width);
   the closed forms on the right-hand sides are the property's. *)
From Coq Require Import ZArith Lia List.
From QV Require Import GenLib Gen_width WidthGen WidthBounds.
Open Scope Z_scope.

(* declared width = the property's formula *)
Theorem C11_bdsp_declared : forall n s, bdsp_width n s = (s + 1) * 2 ^ (n - s) - 1.
Proof. intros. unfold bdsp_width. ring. Qed.
Print Assumptions C11_bdsp_declared.

(* qubits allocated by add_register for split level s = declared width *)
Theorem C11_bdsp_allocated : forall n s, 1 <= s <= n ->
  alloc_width n (bdsp_start_level n s) = bdsp_width n s.
Proof.
  intros n s H. unfold bdsp_start_level, bdsp_width. rewrite alloc_closed by lia.
  replace (n - (n - s)) with s by lia. ring.
Qed.
Print Assumptions C11_bdsp_allocated.

Theorem C11_dcsp_declared_allocated : forall n, 1 <= n ->
  dcsp_width (2 ^ n) = 2 ^ n - 1 /\ alloc_width n (dcsp_start_level n) = 2 ^ n - 1.
Proof.
  intros n H. split. unfold dcsp_width. ring.
  unfold dcsp_start_level. rewrite alloc_closed by lia.
  replace (n - (n - 1)) with 1 by lia. replace n with (Z.succ (n - 1)) at 3 by lia.
  rewrite Z.pow_succ_r by lia. ring.
Qed.
Print Assumptions C11_dcsp_declared_allocated.

(* with s = n no ancilla is used: width n *)
Theorem C11_split_n_no_ancilla : forall n, 1 <= n -> bdsp_width n n = n.
Proof. intros n H. unfold bdsp_width. replace (n - n) with 0 by lia. simpl. ring. Qed.
Print Assumptions C11_split_n_no_ancilla.

Theorem C11_default_split : forall n, 0 <= n -> bdsp_default_split n = (n + 1) / 2.
Proof. intros n H. unfold bdsp_default_split, ceil_div. f_equal. lia. Qed.
Print Assumptions C11_default_split.

Example ex_widths : bdsp_width 4 2 = 11 /\ alloc_width 4 (bdsp_start_level 4 2) = 11 /\ dcsp_width 16 = 15
                    /\ alloc_width 4 (dcsp_start_level 4) = 15.
Proof. vm_compute. auto. Qed.

(* the declared width interpolates between pure top-down (n qubits) and the full tree (2^n - 1 qubits) ... *)
Theorem C11_bdsp_width_bounds : forall n s, 1 <= s <= n -> n <= bdsp_width n s <= 2 ^ n - 1.
Proof. exact bdsp_width_bounds. Qed.
Print Assumptions C11_bdsp_width_bounds.

(* ... and never grows when the split level is raised by one *)
Theorem C11_bdsp_width_step : forall n s, 1 <= s < n -> bdsp_width n (s + 1) <= bdsp_width n s.
Proof. exact bdsp_width_step. Qed.
Print Assumptions C11_bdsp_width_step.

Example ex_bdsp_bounds : bdsp_width 5 1 = 31 /\ bdsp_width 5 3 = 15 /\ bdsp_width 5 5 = 5.
Proof. vm_compute. auto. Qed.
