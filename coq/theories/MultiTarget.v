(* C04, MultiTargetMCSU2: one V-chain pair shared by several targets, each target with its own fourth-root gate A_i.
   Part 1: the multi-target V-chain on an arbitrary placement flips every placed target iff the placed controls match. *)
From Coq Require Import Reals Lra List Bool Arith Lia NArith FunctionalExtensionality.
From Coquelicot Require Import Complex.
From QV Require Import Sem Mat2 Toff2 Chain Vchain Cvoqram SumQ McxModel McxPlaced McxMulti McxAll LinearMcx IrProps Placed QdmcuModel.
Import ListNotations.
Open Scope nat_scope.

Lemma bnd_fan_r B ts : (forall x, In x ts -> x < B) -> 0 < B -> Forall (bnd B) (fan_r ts).
Proof.
  intros H HB. unfold fan_r. apply Forall_forall. intros g Hg. apply in_map_iff in Hg as [i [<- _]].
  intros p [<-|[<-|[]]]; now apply nth_bound.
Qed.
Lemma bnd_fan_l B ts : (forall x, In x ts -> x < B) -> 0 < B -> Forall (bnd B) (fan_l ts).
Proof.
  intros H HB. unfold fan_l. apply Forall_forall. intros g Hg. apply in_map_iff in Hg as [i [<- _]].
  intros p [<-|[<-|[]]]; now apply nth_bound.
Qed.
Lemma bnd_mono B B' g : B <= B' -> bnd B g -> bnd B' g.
Proof. intros H Hg p Hp. specialize (Hg p Hp). lia. Qed.

Lemma general_multi_bounded j nt : 1 <= nt -> Forall (bnd (2 * j + 4 + nt)) (general j nt false false).
Proof.
  intros Hnt. set (B := 2 * j + 4 + nt).
  assert (TS : forall x, In x (targets j nt) -> x < B).
  { intros x Hx. unfold targets in Hx. apply in_map_iff in Hx as [m [<- Hm]]. apply in_seq in Hm. unfold B. lia. }
  assert (CG : Forall (bnd B) (chain_gates j)).
  { pose proof (chain_bounded j nt Hnt) as C. rewrite Forall_forall in *. intros g Hg. eapply bnd_mono; [|apply C; auto]. unfold B. lia. }
  assert (MC : bnd B (SMCX [cq0 (j + 3 - 1); aq0 j (j + 1 - 1)] (nth 0 (targets j nt) 0))).
  { intros p [<-|[<-|[<-|[]]]]; unfold cq0, aq0, B; try lia. apply nth_bound; auto. unfold B; lia. }
  assert (FG : forall sr, Forall (bnd B) (first_gate j nt false sr)).
  { intros sr. unfold first_gate, toffoli_mt. destruct sr.
    - apply Forall_app; split; [constructor; auto | apply bnd_fan_r; auto; unfold B; lia].
    - apply Forall_app; split; [apply bnd_fan_l; auto; unfold B; lia | constructor; auto]. }
  unfold general. apply Forall_app; split; [apply FG|]. apply Forall_app; split; [exact CG|].
  apply Forall_app; split; [apply FG | exact CG].
Qed.

Lemma bnd_bndw w g : bnd w g <-> bndw w g.
Proof. reflexivity. Qed.

Section PlacedMulti.
Variables j nt : nat.
Hypothesis Hnt : 1 <= nt.
Hypothesis Hsp : 1 <= j \/ 2 <= nt.
Variable f : nat -> nat.
Let w := 2 * j + 4 + nt.
Hypothesis f_inj : forall a b, a < w -> b < w -> f a = f b -> a = b.
Variable p : list bool.

Definition pmf (b : asg) : bool := forallb (fun i => Bool.eqb (get b (f i)) (nth i p true)) (seq 0 (j + 3)).

Theorem vchain_multi_placed Psi b :
  srun (map (relabelf f) (vchain (j + 3) nt p false false)) Psi b
  = Psi (if pmf b then flips (map f (targets j nt)) b else b).
Proof.
  assert (BD : Forall (bndw w) (vchain (j + 3) nt p false false)).
  { unfold vchain. replace (j + 3) with (S (S (S j))) at 2 by lia. cbn [negb andb].
    assert (E : (j =? 0) && (nt <? 2) = false).
    { destruct Hsp as [H|H]. rewrite (proj2 (Nat.eqb_neq j 0)) by lia. reflexivity.
      rewrite (proj2 (Nat.ltb_ge nt 2)) by lia. apply andb_false_r. }
    rewrite E.
    assert (XB : Forall (bndw w) (xs p (j + 3))).
    { apply Forall_forall. intros g Hg q Hq. pose proof (xs_ctl (j + 3) p ltac:(lia) g q Hg Hq). unfold w. lia. }
    apply Forall_app; split; [exact XB|]. apply Forall_app; split; [|exact XB].
    apply general_multi_bounded. auto. }
  rewrite (srun_placed f w f_inj _ BD). rewrite vchain_multi_pattern by auto.
  assert (PM : pmatch p (j + 3) (pull f w b) = pmf b).
  { unfold pmatch, pmf. apply (forallb_pull f w (fun i v => Bool.eqb v (nth i p true))).
    intros i Hi. apply in_seq in Hi. unfold w. lia. }
  rewrite PM. destruct (pmf b).
  - rewrite (push_flips f w f_inj). now rewrite (push_pull f w f_inj).
    intros t Ht. unfold targets in Ht. apply in_map_iff in Ht as [m [<- Hm]]. apply in_seq in Hm. unfold w. lia.
  - now rewrite (push_pull f w f_inj).
Qed.
End PlacedMulti.

(* ---------- Part 2: the shared chains and the per-target gates, regrouped target by target ---------- *)
From QV Require Import Transpose LdmcsuModel.

Definition MXs (ts : list nat) (P : asg -> bool) (psi : state) : state := fun b => psi (if P b then flips ts b else b).
Lemma flips_cons t ts b : flips (t :: ts) b = flips ts (flipq t b).
Proof. reflexivity. Qed.
Lemma P_flips (P : asg -> bool) ts b : (forall t, In t ts -> indep t P) -> P (flips ts b) = P b.
Proof.
  revert b. induction ts as [|t ts IH]; intros b H. reflexivity.
  rewrite flips_cons, IH by (intros; apply H; now right). unfold flipq. apply H. now left.
Qed.
Lemma MXs_comp ts P psi : NoDup ts -> (forall t, In t ts -> indep t P) ->
  comp state (map (fun t => MX t P) ts) psi = MXs ts P psi.
Proof.
  revert psi. induction ts as [|t ts IH]; intros psi Hn HP.
  - apply functional_extensionality; intros b. unfold MXs. simpl. now destruct (P b).
  - inversion Hn; subst. cbn [map]. rewrite comp_cons, IH by (auto; intros; apply HP; now right).
    apply functional_extensionality; intros b. unfold MXs, MX, appf.
    destruct (P b) eqn:E.
    + rewrite P_flips by (intros; apply HP; now right). rewrite E. cbn [Xpow]. rewrite app1_X.
      rewrite flips_cons. f_equal. now apply flips_out.
    + rewrite E. cbn [Xpow]. apply app1_I2.
Qed.

Section Grid.
Variables P1 P2 : asg -> bool.
Variables A Ad U : nat -> mat2.
Variable L : list (nat * nat).                    (* (index of the target, its qubit) *)
Hypothesis L_nodup : NoDup (map snd L).
Hypothesis P1_t : forall k, In k L -> indep (snd k) P1.
Hypothesis P2_t : forall k, In k L -> indep (snd k) P2.
Hypothesis AdA : forall k, In k L -> mmul (Ad (fst k)) (A (fst k)) = I2.
Hypothesis AAd : forall k, In k L -> mmul (A (fst k)) (Ad (fst k)) = I2.
Hypothesis fourth : forall k, In k L ->
  mmul (mmul (mmul (Ad (fst k)) Xm) (mmul (A (fst k)) Xm)) (mmul (mmul (Ad (fst k)) Xm) (mmul (A (fst k)) Xm)) = U (fst k).

Definition gop (j : nat) (k : nat * nat) : state -> state :=
  match j with
  | 0 | 4 => MX (snd k) P1
  | 1 | 5 => appf (fun _ => A (fst k)) (snd k)
  | 2 | 6 => MX (snd k) P2
  | _ => appf (fun _ => Ad (fst k)) (snd k)
  end.
Definition gfun (j : nat) (k : nat * nat) (b : asg) : mat2 :=
  match j with 0 | 4 => Xpow (P1 b) | 1 | 5 => A (fst k) | 2 | 6 => Xpow (P2 b) | _ => Ad (fst k) end.
Lemma gop_appf j k psi : gop j k psi = appf (gfun j k) (snd k) psi.
Proof. unfold gop, gfun, MX. do 8 (destruct j as [|j]; auto). Qed.
Lemma snd_inj k k' : In k L -> In k' L -> k <> k' -> snd k <> snd k'.
Proof.
  intros H H' N E. apply N. clear N. revert H H' E. clear -L_nodup. induction L as [|x l IH]; intros H H' E. destruct H.
  cbn [map] in L_nodup. inversion L_nodup as [|? ? Hx Hl]; subst.
  destruct H as [<-|H], H' as [<-|H']; auto.
  - exfalso. apply Hx. rewrite E. now apply in_map.
  - exfalso. apply Hx. rewrite <- E. now apply in_map.
Qed.
Lemma gfun_indep j k k' : In k L -> In k' L -> indep (snd k') (gfun j k).
Proof.
  intros H H' b v. unfold gfun. do 8 (destruct j as [|j]; try reflexivity; try (now rewrite (P1_t k' H' b v)); try (now rewrite (P2_t k' H' b v))).
Qed.
Lemma gop_comm j j' k k' s : In k L -> In k' L -> k <> k' -> gop j k (gop j' k' s) = gop j' k' (gop j k s).
Proof.
  intros H H' N. rewrite !gop_appf. apply appf_comm.
  - now apply snd_inj.
  - now apply gfun_indep.
  - now apply gfun_indep.
Qed.

Definition rows := seq 0 8.
Theorem grid_transpose psi :
  comp state (flat_map (fun j => map (gop j) L) rows) psi
  = comp state (map (fun k => appf (fun b => if P1 b && P2 b then U (fst k) else I2) (snd k)) L) psi.
Proof.
  assert (ND : NoDup L).
  { clear -L_nodup. induction L as [|x l IH]. constructor. cbn [map] in L_nodup. inversion L_nodup; subst.
    constructor; auto. intro I. apply H1. now apply in_map. }
  rewrite (transpose state (nat * nat) gop L gop_comm rows ND (fun k H => H) L (incl_refl L) ND).
  (* every column is the one-target identity *)
  assert (COL : forall k, In k L -> forall s, comp state (map (fun j => gop j k) rows) s
                 = appf (fun b => if P1 b && P2 b then U (fst k) else I2) (snd k) s).
  { intros k Hk s. unfold rows. cbn [seq map comp fold_left gop].
    apply (ldmcsu_core (A (fst k)) (Ad (fst k)) (snd k) P1 P2 (P1_t k Hk) (P2_t k Hk) (U (fst k)) (AdA k Hk) (AAd k Hk) (fourth k Hk)). }
  assert (G : forall l, incl l L -> forall s,
             comp state (flat_map (fun k => map (fun j => gop j k) rows) l) s
             = comp state (map (fun k => appf (fun b => if P1 b && P2 b then U (fst k) else I2) (snd k)) l) s).
  { induction l as [|k l IH]; intros Hi s. reflexivity.
    cbn [flat_map map]. rewrite comp_app, comp_cons, COL by (apply Hi; now left).
    apply IH. intros x Hx. apply Hi. now right. }
  apply G. apply incl_refl.
Qed.
End Grid.

(* ---------- Part 3: well-formedness (for the inverse) and the concrete placements ---------- *)
Lemma lwf_mono w w' g : w <= w' -> lwf w g -> lwf w' g.
Proof.
  intros H. destruct g as [q|n q|c t|cs t]; cbn [lwf]; try lia.
  intros [Ht F]. split. lia. rewrite Forall_forall in *. intros c Hc. specialize (F c Hc). lia.
Qed.
Lemma nth_targets j nt i : i < nt -> nth i (targets j nt) 0 = j + 3 + (j + 1) + i.
Proof.
  intros H. unfold targets. rewrite (nth_indep _ 0 ((fun m => j + 3 + (j + 1) + m) 0)) by (rewrite map_length, seq_length; lia).
  rewrite map_nth, seq_nth by lia. lia.
Qed.
Lemma targets_length j nt : length (targets j nt) = nt.
Proof. unfold targets. now rewrite map_length, seq_length. Qed.

Lemma general_multi_lwf j nt : 1 <= nt -> Forall (lwf (2 * j + 4 + nt)) (general j nt false false).
Proof.
  intros Hnt. set (B := 2 * j + 4 + nt).
  assert (CG : Forall (lwf B) (chain_gates j)).
  { pose proof (chain_gates_lwf j) as C. rewrite Forall_forall in *. intros g Hg. eapply lwf_mono; [|apply C; auto]. unfold B. lia. }
  assert (MC : lwf B (SMCX [cq0 (j + 3 - 1); aq0 j (j + 1 - 1)] (nth 0 (targets j nt) 0))).
  { rewrite nth_targets by lia. cbn [lwf]. unfold cq0, aq0, B. split. lia. repeat constructor; lia. }
  assert (FR : Forall (lwf B) (fan_r (targets j nt))).
  { unfold fan_r. apply Forall_forall. intros g Hg. apply in_map_iff in Hg as [i [<- Hi]]. apply in_seq in Hi.
    rewrite targets_length in Hi. rewrite !nth_targets by lia. cbn [lwf]. unfold B. lia. }
  assert (FL : Forall (lwf B) (fan_l (targets j nt))).
  { unfold fan_l. apply Forall_forall. intros g Hg. apply in_map_iff in Hg as [i [<- Hi]]. apply in_seq in Hi.
    rewrite targets_length in *. rewrite !nth_targets by lia. cbn [lwf]. unfold B. lia. }
  assert (FG : forall sr, Forall (lwf B) (first_gate j nt false sr)).
  { intros sr. unfold first_gate, toffoli_mt. destruct sr.
    - apply Forall_app; split; [constructor; auto | exact FR].
    - apply Forall_app; split; [exact FL | constructor; auto]. }
  unfold general. apply Forall_app; split; [apply FG|]. apply Forall_app; split; [exact CG|].
  apply Forall_app; split; [apply FG | exact CG].
Qed.
Lemma vchain_multi_lwf j nt p : 1 <= nt -> (1 <= j \/ 2 <= nt) -> Forall (lwf (2 * j + 4 + nt)) (vchain (j + 3) nt p false false).
Proof.
  intros Hnt Hsp. unfold vchain. replace (j + 3) with (S (S (S j))) at 2 by lia. cbn [negb andb].
  assert (E : (j =? 0) && (nt <? 2) = false).
  { destruct Hsp as [H|H]. rewrite (proj2 (Nat.eqb_neq j 0)) by lia. reflexivity.
    rewrite (proj2 (Nat.ltb_ge nt 2)) by lia. apply andb_false_r. }
  rewrite E. apply Forall_app; split; [apply xs_lwf; lia|]. apply Forall_app; split; [|apply xs_lwf; lia].
  now apply general_multi_lwf.
Qed.

(* a multi-target V-chain placed through a list *)
Section PlacedList.
Variables j nt : nat.
Hypothesis Hnt : 1 <= nt.
Hypothesis Hsp : 1 <= j \/ 2 <= nt.
Variable l : list nat.
Hypothesis l_nodup : NoDup l.
Hypothesis l_len : length l = 2 * j + 4 + nt.
Variable p : list bool.
Let f := fun q => nth q l 0.
Let ts := map f (targets j nt).
Let P := pmf j f p.

Lemma f_inj_l a b : a < 2 * j + 4 + nt -> b < 2 * j + 4 + nt -> f a = f b -> a = b.
Proof. intros Ha Hb E. apply (nodup_nth_inj l); auto; lia. Qed.

Lemma mcxm_sem Psi : srun (map (relabel l) (vchain (j + 3) nt p false false)) Psi = MXs ts P Psi.
Proof.
  apply functional_extensionality; intros b.
  rewrite (map_ext _ _ (relabel_relabelf l)).
  now rewrite (vchain_multi_placed j nt Hnt Hsp f f_inj_l p).
Qed.
Lemma ts_nodup_l : NoDup ts.
Proof.
  unfold ts, targets. rewrite map_map.
  assert (G : forall n0, n0 <= nt -> NoDup (map (fun m => f (j + 3 + (j + 1) + m)) (seq 0 n0))).
  { induction n0 as [|n0 IH]; intros H. constructor. rewrite seq_S, map_app. apply nodup_app_intro.
    - apply IH. lia.
    - repeat constructor. intros [].
    - intros x I1 [<-|[]]. apply in_map_iff in I1 as [m [E Hm]]. apply in_seq in Hm.
      apply f_inj_l in E; lia. }
  apply G. lia.
Qed.
Lemma P_indep_ts t : In t ts -> indep t P.
Proof.
  intros Ht b v. unfold P, pmf. apply LdmcsuModel.forallb_ext_in'. intros i Hi. apply in_seq in Hi.
  rewrite get_upd_other; auto. intro E. unfold ts, targets in Ht. rewrite map_map in Ht.
  apply in_map_iff in Ht as [m [E2 Hm]]. apply in_seq in Hm. rewrite <- E2 in E.
  apply f_inj_l in E; lia.
Qed.
Lemma mcxm_swf : Forall swf (map (relabel l) (vchain (j + 3) nt p false false)).
Proof.
  apply Forall_forall. intros g I. apply in_map_iff in I as [g0 [<- I0]].
  apply (lwf_relabel l (2 * j + 4 + nt)); auto.
  pose proof (vchain_multi_lwf j nt p Hnt Hsp) as F. rewrite Forall_forall in F. auto.
Qed.
Lemma mcxm_inv_sem Psi : srun (sinv_list (map (relabel l) (vchain (j + 3) nt p false false))) Psi = MXs ts P Psi.
Proof.
  apply functional_extensionality; intros b. unfold MXs.
  apply (sinv_involution _ (fun b => if P b then flips ts b else b)).
  - apply mcxm_swf.
  - intros b0. destruct (P b0) eqn:E; [|now rewrite E].
    rewrite P_flips by (intros; now apply P_indep_ts). rewrite E. apply flips_invol. apply ts_nodup_l.
  - intros phi b0. now rewrite mcxm_sem.
Qed.
End PlacedList.

(* ---------- Part 4: the gate list of MultiTargetMCSU2 and its meaning ---------- *)
From QV Require Import AbcModel.

Definition L1m (k nt : nat) : list nat := seq 0 (k1 k) ++ seq (k1 k) (k1 k - 2) ++ seq k nt.
Definition L2m (k nt : nat) : list nat := seq (k1 k) (k2 k) ++ seq (k1 k + 2 - k2 k) (k2 k - 2) ++ seq k nt.
Definition mcx1m (k nt : nat) (pat : list bool) := map (relabel (L1m k nt)) (vchain (k1 k) nt (pat1 k pat) false false).
Definition mcx2m (k nt : nat) (pat : list bool) := map (relabel (L2m k nt)) (vchain (k2 k) nt (pat2 k pat) false false).
Definition Lk (k nt : nat) : list (nat * nat) := map (fun i => (i, k + i)) (seq 0 nt).
Definition ugs (g : nat -> nat) (L : list (nat * nat)) : list ag := map (fun it => AU (g (fst it)) (snd it)) L.
Definition hgs (hs : list bool) (L : list (nat * nat)) : list ag :=
  flat_map (fun it => if nth (fst it) hs false then [AU (3 * fst it + 2) (snd it)] else []) L.
(* A_i = M (3i), A_i^dagger = M (3i+1), the Hadamard of target i = M (3i+2) *)
Definition mtm (k nt : nat) (pat : list bool) (hs : list bool) : list ag :=
  hgs hs (Lk k nt) ++ map AS (mcx1m k nt pat) ++ ugs (fun i => 3 * i) (Lk k nt) ++ map AS (sinv_list (mcx2m k nt pat))
  ++ ugs (fun i => 3 * i + 1) (Lk k nt) ++ map AS (mcx1m k nt pat) ++ ugs (fun i => 3 * i) (Lk k nt) ++ map AS (mcx2m k nt pat)
  ++ ugs (fun i => 3 * i + 1) (Lk k nt) ++ hgs hs (Lk k nt).

Lemma forallb_seq_shift (F : nat -> bool) a n : forallb F (seq a n) = forallb (fun i => F (a + i)) (seq 0 n).
Proof.
  revert F a. induction n as [|n IH]; intros F a. reflexivity.
  cbn [seq forallb]. rewrite Nat.add_0_r. f_equal. rewrite (IH F (S a)), (IH (fun i => F (a + i)) 1).
  apply LdmcsuModel.forallb_ext_in'. intros i _. f_equal. lia.
Qed.

Lemma nth_map_seq' {X} (f : nat -> X) a n i d : i < n -> nth i (map f (seq a n)) d = f (a + i).
Proof. intros H. rewrite (nth_indep _ d (f 0)) by (rewrite map_length, seq_length; lia). rewrite map_nth. now rewrite seq_nth. Qed.

Section MT.
Variables k nt : nat.
Hypothesis Hnt : 1 <= nt.
Hypothesis Hk : 6 <= k.
Hypothesis Hsp : 8 <= k \/ 2 <= nt.
Variable pat : list bool.

Lemma K12 : k1 k + k2 k = k /\ 3 <= k2 k /\ k2 k <= k1 k /\ k1 k <= k2 k + 1.
Proof.
  unfold k1, k2.
  pose proof (Nat.div_mod k 2 ltac:(lia)). pose proof (Nat.mod_upper_bound k 2 ltac:(lia)).
  pose proof (Nat.div_mod (k + 1) 2 ltac:(lia)). pose proof (Nat.mod_upper_bound (k + 1) 2 ltac:(lia)). lia.
Qed.
Let j1 := k1 k - 3.
Let j2 := k2 k - 3.
Lemma J1 : k1 k = j1 + 3. Proof. pose proof K12. unfold j1. lia. Qed.
Lemma J2 : k2 k = j2 + 3. Proof. pose proof K12. unfold j2. lia. Qed.
Lemma Jsp1 : 1 <= j1 \/ 2 <= nt.
Proof. pose proof K12. unfold j1. destruct Hsp; [left|right]; lia. Qed.
Lemma Jsp2 : 1 <= j2 \/ 2 <= nt.
Proof. pose proof K12. unfold j2. destruct Hsp; [left|right]; lia. Qed.

Lemma L1m_len : length (L1m k nt) = 2 * j1 + 4 + nt.
Proof. unfold L1m. rewrite !app_length, !seq_length. pose proof K12. unfold j1. lia. Qed.
Lemma L2m_len : length (L2m k nt) = 2 * j2 + 4 + nt.
Proof. unfold L2m. rewrite !app_length, !seq_length. pose proof K12. unfold j2. lia. Qed.
Lemma L1m_nodup : NoDup (L1m k nt).
Proof.
  pose proof K12. unfold L1m. apply nodup_app_intro; [apply seq_NoDup | apply nodup_app_intro; try apply seq_NoDup |].
  - intros x I1 I2. apply in_seq in I1, I2. lia.
  - intros x I1 I2. apply in_seq in I1. apply in_app_or in I2 as [I2|I2]; apply in_seq in I2; lia.
Qed.
Lemma L2m_nodup : NoDup (L2m k nt).
Proof.
  pose proof K12. unfold L2m. apply nodup_app_intro; [apply seq_NoDup | apply nodup_app_intro; try apply seq_NoDup |].
  - intros x I1 I2. apply in_seq in I1, I2. lia.
  - intros x I1 I2. apply in_seq in I1. apply in_app_or in I2 as [I2|I2]; apply in_seq in I2; lia.
Qed.
Lemma L1m_ctrl i : i < k1 k -> nth i (L1m k nt) 0 = i.
Proof. intros H. unfold L1m. rewrite app_nth1 by (rewrite seq_length; lia). now rewrite seq_nth. Qed.
Lemma L2m_ctrl i : i < k2 k -> nth i (L2m k nt) 0 = k1 k + i.
Proof. intros H. unfold L2m. rewrite app_nth1 by (rewrite seq_length; lia). now rewrite seq_nth. Qed.
Lemma L1m_tgt m : m < nt -> nth (2 * j1 + 4 + m) (L1m k nt) 0 = k + m.
Proof.
  intros H. pose proof K12. unfold L1m. rewrite app_nth2 by (rewrite seq_length; unfold j1; lia).
  rewrite app_nth2 by (rewrite !seq_length; unfold j1; lia). rewrite !seq_length, seq_nth by (unfold j1; lia). unfold j1. lia.
Qed.
Lemma L2m_tgt m : m < nt -> nth (2 * j2 + 4 + m) (L2m k nt) 0 = k + m.
Proof.
  intros H. pose proof K12. unfold L2m. rewrite app_nth2 by (rewrite seq_length; unfold j2; lia).
  rewrite app_nth2 by (rewrite !seq_length; unfold j2; lia). rewrite !seq_length, seq_nth by (unfold j2; lia). unfold j2. lia.
Qed.

Lemma ts1 : map (fun q => nth q (L1m k nt) 0) (targets j1 nt) = seq k nt.
Proof.
  unfold targets. rewrite map_map.
  assert (G : forall n0, n0 <= nt -> map (fun x => nth (j1 + 3 + (j1 + 1) + x) (L1m k nt) 0) (seq 0 n0) = seq k n0).
  { induction n0 as [|n0 IH]; intros H. reflexivity. rewrite !seq_S, map_app, IH by lia. cbn [map]. f_equal. f_equal.
    replace (j1 + 3 + (j1 + 1) + (0 + n0)) with (2 * j1 + 4 + n0) by lia. apply L1m_tgt. lia. }
  apply G. lia.
Qed.
Lemma ts2 : map (fun q => nth q (L2m k nt) 0) (targets j2 nt) = seq k nt.
Proof.
  unfold targets. rewrite map_map.
  assert (G : forall n0, n0 <= nt -> map (fun x => nth (j2 + 3 + (j2 + 1) + x) (L2m k nt) 0) (seq 0 n0) = seq k n0).
  { induction n0 as [|n0 IH]; intros H. reflexivity. rewrite !seq_S, map_app, IH by lia. cbn [map]. f_equal. f_equal.
    replace (j2 + 3 + (j2 + 1) + (0 + n0)) with (2 * j2 + 4 + n0) by lia. apply L2m_tgt. lia. }
  apply G. lia.
Qed.
Lemma P1_spec b : pmf j1 (fun q => nth q (L1m k nt) 0) (pat1 k pat) b = Q1 k pat b.
Proof.
  unfold pmf, Q1. rewrite <- J1. apply LdmcsuModel.forallb_ext_in'. intros i I. apply in_seq in I.
  rewrite L1m_ctrl by lia. unfold pat1. rewrite nth_map_seq' by lia. reflexivity.
Qed.
Lemma P2_spec b : pmf j2 (fun q => nth q (L2m k nt) 0) (pat2 k pat) b = Q2 k pat b.
Proof.
  unfold pmf, Q2. rewrite <- J2. rewrite (forallb_seq_shift _ (k1 k) (k2 k)).
  apply LdmcsuModel.forallb_ext_in'. intros i I. apply in_seq in I.
  rewrite L2m_ctrl by lia. unfold pat2. rewrite nth_map_seq' by lia. reflexivity.
Qed.

Lemma mcx1m_sem psi : srun (mcx1m k nt pat) psi = MXs (seq k nt) (Q1 k pat) psi.
Proof.
  unfold mcx1m. rewrite J1. rewrite (mcxm_sem j1 nt Hnt Jsp1 (L1m k nt) L1m_nodup L1m_len).
  rewrite ts1. unfold MXs. apply functional_extensionality; intros b. now rewrite P1_spec.
Qed.
Lemma mcx2m_sem psi : srun (mcx2m k nt pat) psi = MXs (seq k nt) (Q2 k pat) psi.
Proof.
  unfold mcx2m. rewrite J2. rewrite (mcxm_sem j2 nt Hnt Jsp2 (L2m k nt) L2m_nodup L2m_len).
  rewrite ts2. unfold MXs. apply functional_extensionality; intros b. now rewrite P2_spec.
Qed.
Lemma mcx2m_inv_sem psi : srun (sinv_list (mcx2m k nt pat)) psi = MXs (seq k nt) (Q2 k pat) psi.
Proof.
  unfold mcx2m. rewrite J2. rewrite (mcxm_inv_sem j2 nt Hnt Jsp2 (L2m k nt) L2m_nodup L2m_len).
  rewrite ts2. unfold MXs. apply functional_extensionality; intros b. now rewrite P2_spec.
Qed.

Variable M : nat -> mat2.
Lemma arun_ugs g L psi : arun M (ugs g L) psi = comp state (map (fun it => appf (fun _ => M (g (fst it))) (snd it)) L) psi.
Proof.
  revert psi. induction L as [|it L IH]; intros psi. reflexivity.
  unfold ugs in *. cbn [map arun fold_left aapp]. rewrite comp_cons. apply IH.
Qed.
Definition Hm (hs : list bool) (i : nat) : mat2 := if nth i hs false then M (3 * i + 2) else I2.
Lemma arun_hgs hs L psi : arun M (hgs hs L) psi = comp state (map (fun it => appf (fun _ => Hm hs (fst it)) (snd it)) L) psi.
Proof.
  revert psi. induction L as [|it L IH]; intros psi. reflexivity.
  unfold hgs in *. cbn [flat_map map]. rewrite arun_app, comp_cons, IH. f_equal.
  unfold Hm. destruct (nth (fst it) hs false). reflexivity.
  cbn [arun fold_left]. apply functional_extensionality; intros b. unfold appf. now rewrite app1_I2.
Qed.
Lemma snd_Lk : map snd (Lk k nt) = seq k nt.
Proof.
  unfold Lk. rewrite map_map. cbn [snd].
  assert (G : forall a n0, map (fun x => k + x) (seq a n0) = seq (k + a) n0).
  { intros a n0. revert a. induction n0 as [|n0 IH]; intros a. reflexivity. cbn [seq map]. rewrite IH. f_equal. f_equal. lia. }
  rewrite G. f_equal. lia.
Qed.
Lemma MXs_Lk P psi : (forall t, In t (seq k nt) -> indep t P) ->
  MXs (seq k nt) P psi = comp state (map (fun it => MX (snd it) P) (Lk k nt)) psi.
Proof.
  intros H. rewrite <- MXs_comp by (auto; apply seq_NoDup). rewrite <- snd_Lk, map_map. reflexivity.
Qed.
Lemma Q1_tgt t : In t (seq k nt) -> indep t (Q1 k pat).
Proof.
  intros Ht b v. apply in_seq in Ht. unfold Q1. apply LdmcsuModel.forallb_ext_in'. intros i I. apply in_seq in I.
  pose proof K12. now rewrite get_upd_other by lia.
Qed.
Lemma Q2_tgt t : In t (seq k nt) -> indep t (Q2 k pat).
Proof.
  intros Ht b v. apply in_seq in Ht. unfold Q2. apply LdmcsuModel.forallb_ext_in'. intros i I. apply in_seq in I.
  pose proof K12. now rewrite get_upd_other by lia.
Qed.
Lemma in_Lk it : In it (Lk k nt) -> fst it < nt /\ snd it = k + fst it.
Proof. unfold Lk. intros H. apply in_map_iff in H as [i [<- Hi]]. apply in_seq in Hi. simpl. lia. Qed.

Variables U U' : nat -> mat2.
Variable hs : list bool.
Hypothesis AdA : forall i, i < nt -> mmul (M (3 * i + 1)) (M (3 * i)) = I2.
Hypothesis AAd : forall i, i < nt -> mmul (M (3 * i)) (M (3 * i + 1)) = I2.
Hypothesis fourth : forall i, i < nt ->
  mmul (mmul (mmul (M (3 * i + 1)) Xm) (mmul (M (3 * i)) Xm)) (mmul (mmul (M (3 * i + 1)) Xm) (mmul (M (3 * i)) Xm)) = U' i.
Hypothesis HH : forall i, i < nt -> mmul (Hm hs i) (Hm hs i) = I2.
Hypothesis HUH : forall i, i < nt -> mmul (Hm hs i) (mmul (U' i) (Hm hs i)) = U i.

Definition hop (j : nat) (it : nat * nat) : state -> state :=
  match j with
  | 1 => appf (fun b => if Q1 k pat b && Q2 k pat b then U' (fst it) else I2) (snd it)
  | _ => appf (fun _ => Hm hs (fst it)) (snd it)
  end.

Theorem mtm_sem psi :
  arun M (mtm k nt pat hs) psi
  = comp state (map (fun it => appf (fun b => if pmatch pat k b then U (fst it) else I2) (snd it)) (Lk k nt)) psi.
Proof.
  unfold mtm. rewrite !arun_app, !arun_AS, !arun_ugs, !arun_hgs.
  rewrite !mcx1m_sem, !mcx2m_sem, mcx2m_inv_sem.
  rewrite !(MXs_Lk (Q1 k pat)) by apply Q1_tgt. rewrite !(MXs_Lk (Q2 k pat)) by apply Q2_tgt.
  (* the eight middle rows *)
  set (A := fun i => M (3 * i)). set (Ad := fun i => M (3 * i + 1)).
  assert (ND : NoDup (map snd (Lk k nt))) by (rewrite snd_Lk; apply seq_NoDup).
  pose proof (grid_transpose (Q1 k pat) (Q2 k pat) A Ad U' (Lk k nt) ND
    ltac:(intros it Hit; apply Q1_tgt; rewrite <- snd_Lk; now apply in_map)
    ltac:(intros it Hit; apply Q2_tgt; rewrite <- snd_Lk; now apply in_map)
    ltac:(intros it Hit; apply AdA; apply in_Lk in Hit; lia)
    ltac:(intros it Hit; apply AAd; apply in_Lk in Hit; lia)
    ltac:(intros it Hit; apply fourth; apply in_Lk in Hit; lia)) as G.
  unfold rows in G. cbn [seq flat_map] in G. rewrite app_nil_r in G.
  set (H0 := comp state (map (fun it => appf (fun _ => Hm hs (fst it)) (snd it)) (Lk k nt)) psi).
  specialize (G H0). rewrite !comp_app in G.
  unfold gop in G at 1 2 3 4 5 6 7 8. cbn [fst snd] in G. unfold A, Ad in G.
  rewrite G. clear G.
  (* Hadamard conjugation target by target *)
  unfold H0. clear H0.
  assert (NDL : NoDup (Lk k nt)).
  { unfold Lk. apply FinFun.Injective_map_NoDup. intros a b E. now inversion E. apply seq_NoDup. }
  assert (T := transpose state (nat * nat) hop (Lk k nt)).
  assert (HC : forall j j' it it' s, In it (Lk k nt) -> In it' (Lk k nt) -> it <> it' -> hop j it (hop j' it' s) = hop j' it' (hop j it s)).
  { intros j j' it it' s Hi Hi' N. apply in_Lk in Hi as [Hi1 Hi2]. apply in_Lk in Hi' as [Hi1' Hi2'].
    assert (snd it <> snd it') by (intro E; apply N; destruct it, it'; simpl in *; f_equal; lia).
    assert (I1 : forall t, t = snd it \/ t = snd it' -> indep t (fun b => if Q1 k pat b && Q2 k pat b then U' (fst it) else I2)).
    { intros t Ht b v. rewrite (Q1_tgt t), (Q2_tgt t); auto; apply in_seq; lia. }
    assert (I1' : forall t, t = snd it \/ t = snd it' -> indep t (fun b => if Q1 k pat b && Q2 k pat b then U' (fst it') else I2)).
    { intros t Ht b v. rewrite (Q1_tgt t), (Q2_tgt t); auto; apply in_seq; lia. }
    unfold hop. destruct j as [|[|j]], j' as [|[|j']]; apply appf_comm; auto; try (intros b v; reflexivity). }
  specialize (T HC [0; 1; 2] NDL (fun _ H => H) (Lk k nt) (incl_refl _) NDL psi).
  cbn [flat_map] in T. rewrite app_nil_r, !comp_app in T. unfold hop in T at 1 2 3. cbn [fst snd] in T.
  rewrite T. clear T.
  assert (G : forall l, incl l (Lk k nt) -> forall s,
             comp state (flat_map (fun it => map (fun j => hop j it) [0; 1; 2]) l) s
             = comp state (map (fun it => appf (fun b => if pmatch pat k b then U (fst it) else I2) (snd it)) l) s).
  { induction l as [|it l IH]; intros Hi s. reflexivity.
    cbn [flat_map map]. rewrite comp_app. rewrite IH by (intros x Hx; apply Hi; now right).
    rewrite (comp_cons state (appf (fun b => if pmatch pat k b then U (fst it) else I2) (snd it))). f_equal.
    assert (Hit : In it (Lk k nt)) by (apply Hi; now left). apply in_Lk in Hit as [Hi1 Hi2].
    cbn [comp fold_left hop].
    rewrite (appf_appf (fun b => if Q1 k pat b && Q2 k pat b then U' (fst it) else I2) (fun _ => Hm hs (fst it)))
      by (intros b v; reflexivity).
    rewrite appf_appf by (intros b v; cbn beta; rewrite (Q1_tgt (snd it)), (Q2_tgt (snd it)); auto; apply in_seq; lia).
    f_equal. apply functional_extensionality; intros b.
    assert (Hk2 : 2 <= k) by lia. rewrite <- (Q12 k Hk2 pat b).
    destruct (Q1 k pat b && Q2 k pat b).
    - now apply HUH.
    - rewrite mmul_I2_l. now apply HH. }
  apply G. apply incl_refl.
Qed.
End MT.

(* ---------- McxVchainDirty, action_only on its own ---------- *)
Theorem vchain_action_only_split k p : 1 <= k ->
  exists R : list sgate, (forall g q, In g R -> In q (sq g) -> q < McxAll.tpos k) /\ Forall swf R /\
  forall psi, srun (vchain k 1 p false false) psi = srun R (srun (vchain k 1 p false true) psi).
Proof.
  intros Hk. destruct (le_lt_dec k 3) as [Hs|Hb].
  - exists []. split; [intros g q []|]. split; [constructor|]. intros psi.
    assert (E : vchain k 1 p false true = vchain k 1 p false false).
    { unfold vchain. destruct k as [|[|[|[|j]]]]; try lia; reflexivity. }
    now rewrite E.
  - destruct k as [|[|[|j]]] eqn:EK; try lia. assert (Hj : 1 <= j) by lia.
    set (X := xs p (S (S (S j)))).
    assert (Eex : vchain (S (S (S j))) 1 p false false = X ++ general j 1 false true ++ chain_gates j ++ X).
    { unfold vchain. cbn [negb andb]. replace (j =? 0) with false by (symmetry; apply Nat.eqb_neq; lia).
      cbn [andb]. rewrite general_ao_split. now rewrite <- !app_assoc. }
    assert (Eao : vchain (S (S (S j))) 1 p false true = X ++ general j 1 false true ++ X).
    { unfold vchain. cbn [negb andb]. replace (j =? 0) with false by (symmetry; apply Nat.eqb_neq; lia). reflexivity. }
    assert (TP : McxAll.tpos (S (S (S j))) = 2 * j + 4) by (unfold McxAll.tpos; cbn; lia).
    exists (X ++ chain_gates j ++ X). split; [|split].
    + intros g q Hg Hq. rewrite TP. apply in_app_or in Hg as [H0|H0]; [|apply in_app_or in H0 as [H0|H0]].
      * pose proof (xs_ctl (S (S (S j))) p ltac:(lia) g q H0 Hq). lia.
      * pose proof (chain_bounded j 1 ltac:(lia)) as CB. rewrite Forall_forall in CB. pose proof (CB g H0 q Hq). lia.
      * pose proof (xs_ctl (S (S (S j))) p ltac:(lia) g q H0 Hq). lia.
    + apply Forall_app; split; [apply xs_swf|]. apply Forall_app; split; [|apply xs_swf].
      pose proof (chain_gates_lwf j) as F. apply Forall_forall. intros g Hg. rewrite Forall_forall in F.
      specialize (F g Hg). destruct g as [q|n q|c t|cs t]; cbn [lwf swf] in *; auto; try tauto.
      destruct F as [_ F]. rewrite Forall_forall in F. intros I. destruct (F t I). congruence.
    + intros psi. rewrite Eex, Eao. rewrite !srun_app. unfold X. now rewrite xs_xs.
Qed.
