(* Property C12 (and the UCG part of C01): the 2x2 operators of UCGInitialize._build_multiplexor map the normalised
   child pair to the basis vector selected by the target bit, and are unitary; over any field with involution conj.
   MODULAR in Qiskit's UCGate (contract D * circuit = multiplexer, D = diag(_get_diagonal()), monitored per run); the
   induction over levels with the carried diagonal and the preserve option are evaluated. *)
From mathcomp Require Import all_ssreflect all_algebra.
From QV Require Import UcgOps.
Set Implicit Arguments. Unset Strict Implicit. Unset Printing Implicit Defensive.
Import GRing.Theory.
Local Open Scope ring_scope.

Theorem C12_branch0 : forall (F : fieldType) (conj : {rmorphism F -> F}) (a0 a1 : F),
  a0 * conj a0 + a1 * conj a1 = 1 -> mulv (G0 conj a0 a1) a0 a1 = (1, 0).
Proof. move=> F conj a0 a1 H. exact: branch0. Qed.
Print Assumptions C12_branch0.

Theorem C12_branch1 : forall (F : fieldType) (conj : {rmorphism F -> F}) (a0 a1 : F),
  a0 * conj a0 + a1 * conj a1 = 1 -> mulv (G1 conj a0 a1) a0 a1 = (0, 1).
Proof. move=> F conj a0 a1 H. exact: branch1. Qed.
Print Assumptions C12_branch1.

Theorem C12_G0_unitary : forall (F : fieldType) (conj : {rmorphism F -> F}), (forall x, conj (conj x) = x) ->
  forall a0 a1 : F, a0 * conj a0 + a1 * conj a1 = 1 ->
  conj a0 * conj (conj a0) + conj a1 * conj (conj a1) = 1 /\ (- a1) * conj (- a1) + a0 * conj a0 = 1
  /\ conj a0 * conj (- a1) + conj a1 * conj a0 = 0.
Proof. move=> F conj K a0 a1 H. exact: G0_unitary. Qed.
Print Assumptions C12_G0_unitary.

Theorem C12_diag0 : forall (F : fieldType) (conj : {rmorphism F -> F}) (a1 : F), a1 * conj a1 = 1 ->
  (0 * 0 + conj a1 * a1, 1 * 0 + 0 * a1) = (1, 0 : F).
Proof. move=> F conj a1 H. exact: diag0. Qed.
Print Assumptions C12_diag0.

Theorem C12_diag1 : forall (F : fieldType) (conj : {rmorphism F -> F}) (a1 : F), a1 * conj a1 = 1 ->
  (1 * 0 + 0 * a1, 0 * 0 + conj a1 * a1) = (0 : F, 1).
Proof. move=> F conj a1 H. exact: diag1. Qed.
Print Assumptions C12_diag1.
