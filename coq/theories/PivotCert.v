(* C06, PivotInitialize: the pivoting part of the circuit is a reversible circuit whose gates act on states by permuting
   the basis states: X, CX, multi-controlled X and - with auxiliary qubits - blocks  ladder of relative-phase Toffolis ;
   CX from the top ancilla ; the reversed ladder  (the phases of the ladder cancel for EVERY content of the ancillas).
   Run after the dense preparation it carries the amplitude sitting on the image of a key back to the key.
   The theorems are for every such circuit and every finite superposition; the harness checks on each instance, inside
   Coq, that the dense vector the code prepares is indexed by the images [pcls (rev Q) key] of the circuit the code emitted. *)
From Coq Require Import Reals Lra List Bool Arith Lia NArith FunctionalExtensionality.
From Coquelicot Require Import Complex.
From QV Require Import Sem Mat2 Toff2 Chain Vchain Cvoqram McxModel McxMulti IrProps FnPointsModel FnSem CvoModel CvoGates CvoAux.
Import ListNotations.
Open Scope nat_scope.

(* ---------- any alphabet of gates that permute the basis states by an involution ---------- *)
Section Gen.
Variable G : Type.
Variable gapp : G -> state -> state.
Variable gperm : G -> asg -> asg.
Variable ok : G -> Prop.
Hypothesis app_perm : forall g psi, ok g -> gapp g psi = fun b => psi (gperm g b).
Hypothesis perm_invol : forall g b, ok g -> gperm g (gperm g b) = b.
Definition grun (P : list G) (psi : state) : state := fold_left (fun s g => gapp g s) P psi.
Definition gcls (P : list G) (b : asg) : asg := fold_left (fun y g => gperm g y) P b.
Lemma gcls_app P Q b : gcls (P ++ Q) b = gcls Q (gcls P b).
Proof. unfold gcls. now rewrite fold_left_app. Qed.

Theorem grun_den P : Forall ok P -> forall l, grun P (den l) = den (map (fun e => (fst e, gcls P (snd e))) l).
Proof.
  induction P as [|g P IH]; intros HW l.
  - simpl. f_equal. induction l as [|[a B] l IHl]; simpl; auto. now rewrite <- IHl.
  - inversion HW; subst. cbn [grun fold_left]. fold (grun P). rewrite app_perm by auto.
    rewrite (den_perm (gperm g)) by (intros; now apply perm_invol).
    rewrite IH by auto. f_equal. rewrite map_map. reflexivity.
Qed.
Lemma gcls_rev_cancel Q b : Forall ok Q -> gcls Q (gcls (rev Q) b) = b.
Proof.
  revert b. induction Q as [|g Q IH]; intros b W. reflexivity.
  inversion W; subst. cbn [rev]. rewrite gcls_app. cbn [gcls fold_left]. fold (gcls Q).
  rewrite perm_invol by auto. now apply IH.
Qed.
Theorem gen_cert Q (l : list entry) : Forall ok Q ->
  grun Q (den (map (fun e => (fst e, gcls (rev Q) (snd e))) l)) = den l.
Proof.
  intros HW. rewrite grun_den by auto. rewrite map_map. f_equal.
  rewrite <- (map_id l) at 2. apply map_ext. intros [a B]. cbn [fst snd]. now rewrite gcls_rev_cancel.
Qed.
End Gen.

(* ---------- X, CX, multi-controlled X ---------- *)
Definition sclassical (g : sgate) : Prop := match g with SU _ _ => False | _ => True end.
Definition sclassicalb (g : sgate) : bool := match g with SU _ _ => false | _ => true end.
Definition sperm (g : sgate) (b : asg) : asg :=
  match g with
  | SX q => flipq q b
  | SU _ _ => b
  | SCX c t => if get b c then flipq t b else b
  | SMCX cs t => if allq cs b then flipq t b else b
  end.
Definition scls (P : list sgate) (b : asg) : asg := fold_left (fun y g => sperm g y) P b.

Lemma allq_flipq cs t b : ~ In t cs -> allq cs (flipq t b) = allq cs b.
Proof.
  intros H. unfold allq. induction cs as [|c cs IH]; auto. simpl.
  rewrite flq_other by (intro E; apply H; left; auto). f_equal. apply IH. intro I. apply H. now right.
Qed.
Lemma sperm_invol g b : swf g -> sperm g (sperm g b) = b.
Proof.
  destruct g as [q|n t|c t|cs t]; cbn [swf sperm]; intros W.
  - apply flipq_flipq.
  - reflexivity.
  - destruct (get b c) eqn:E; [|now rewrite E]. rewrite flq_other, E by auto. apply flipq_flipq.
  - destruct (allq cs b) eqn:E; [|now rewrite E]. rewrite allq_flipq, E by auto. apply flipq_flipq.
Qed.
Lemma sapp_perm g psi : sclassical g -> sapp g psi = fun b => psi (sperm g b).
Proof.
  destruct g as [q|n t|c t|cs t]; cbn [sclassical sapp sperm]; intros H; try tauto;
    apply functional_extensionality; intros b; unfold appf.
  - apply app1_X.
  - destruct (get b c); simpl. apply app1_X. apply app1_I2.
  - destruct (allq cs b); simpl. apply app1_X. apply app1_I2.
Qed.

Definition sok (g : sgate) : Prop := sclassical g /\ swf g.
Theorem srun_den P : Forall sok P -> forall l, srun P (den l) = den (map (fun e => (fst e, scls P (snd e))) l).
Proof.
  intros H l. apply (grun_den sgate sapp sperm sok); auto.
  - intros g psi [C _]. now apply sapp_perm.
  - intros g b [_ W]. now apply sperm_invol.
Qed.
Theorem pivot_cert Q (l : list entry) : Forall sok Q ->
  srun Q (den (map (fun e => (fst e, scls (rev Q) (snd e))) l)) = den l.
Proof.
  intros H. apply (gen_cert sgate sapp sperm sok); auto.
  - intros g psi [C _]. now apply sapp_perm.
  - intros g b [_ W]. now apply sperm_invol.
Qed.

Definition swfb (g : sgate) : bool :=
  match g with SX _ | SU _ _ => true | SCX c t => negb (Nat.eqb c t) | SMCX cs t => negb (existsb (Nat.eqb t) cs) end.
Lemma swfb_ok g : swfb g = true -> swf g.
Proof.
  destruct g as [q|n t|c t|cs t]; cbn [swfb swf]; auto.
  - intros H E. subst. now rewrite Nat.eqb_refl in H.
  - intros H I. apply negb_true_iff in H. assert (existsb (Nat.eqb t) cs = true); [|congruence].
    apply existsb_exists. exists t. split; auto. apply Nat.eqb_refl.
Qed.
Lemma sclassicalb_ok g : sclassicalb g = true -> sclassical g.
Proof. destruct g; simpl; auto; discriminate. Qed.
Definition sokb (g : sgate) : bool := sclassicalb g && swfb g.
Lemma sokb_ok g : sokb g = true -> sok g.
Proof. unfold sokb. intros H. apply andb_true_iff in H as [H1 H2]. split. now apply sclassicalb_ok. now apply swfb_ok. Qed.
Theorem pivot_cert_b Q (l : list entry) : forallb sokb Q = true ->
  srun Q (den (map (fun e => (fst e, scls (rev Q) (snd e))) l)) = den l.
Proof.
  intros H. apply pivot_cert. apply Forall_forall. intros g Hg. apply sokb_ok. rewrite forallb_forall in H. auto.
Qed.

(* ---------- with auxiliary qubits: blocks  ladder ; CX top -> u ; reversed ladder ---------- *)
Inductive pgate := PS (g : sgate) | PB (P : list tri) (top u : nat).
Definition papp (g : pgate) (psi : state) : state :=
  match g with
  | PS s => sapp s psi
  | PB P top u => mrun (rev P) (sapp (SCX top u) (mrun P psi))
  end.
Definition pperm (g : pgate) (x : asg) : asg :=
  match g with
  | PS s => sperm s x
  | PB P top u => if get (fwd P x) top then flipq u x else x
  end.
Definition pok (g : pgate) : Prop :=
  match g with PS s => sok s | PB P top u => Forall (twf u) P /\ top <> u end.
Definition prun (Q : list pgate) (psi : state) : state := fold_left (fun s g => papp g s) Q psi.
Definition pcls (Q : list pgate) (x : asg) : asg := fold_left (fun y g => pperm g y) Q x.

Lemma block_sem P top u psi : Forall (twf u) P ->
  mrun (rev P) (sapp (SCX top u) (mrun P psi)) = fun x => psi (if get (fwd P x) top then flipq u x else x).
Proof.
  intros W.
  assert (E : sapp (SCX top u) (mrun P psi) = fun x => if get x top then app1 Xm u (mrun P psi) x else mrun P psi x).
  { apply functional_extensionality; intros x. cbn [sapp]. unfold appf. destruct (get x top); simpl; auto. apply app1_I2. }
  rewrite E, (conj_cu u top Xm P psi W). apply functional_extensionality; intros x.
  destruct (get (fwd P x) top); auto. apply app1_X.
Qed.
Lemma fwd_flipq u P x : Forall (twf u) P -> fwd P (flipq u x) = flipq u (fwd P x).
Proof.
  revert x. induction P as [|[[a b] t] P IH]; intros x W. reflexivity.
  inversion W as [|? ? Hg WP]; subst. simpl in Hg. destruct Hg as [_ [_ [Ha [Hb Ht]]]].
  cbn [fwd fold_left tperm]. fold (fwd P). unfold flipq at 1. rewrite rccx_perm_upd by auto.
  rewrite <- (rccx_perm_get a b t u x Ht). fold (flipq u (rccx_perm a b t x)). now apply IH.
Qed.
Lemma pperm_invol g x : pok g -> pperm g (pperm g x) = x.
Proof.
  destruct g as [s|P top u]; cbn [pok pperm].
  - intros [_ W]. now apply sperm_invol.
  - intros [W Htu]. destruct (get (fwd P x) top) eqn:E; [|now rewrite E].
    rewrite fwd_flipq by auto. rewrite flq_other, E by auto. apply flipq_flipq.
Qed.
Lemma papp_perm g psi : pok g -> papp g psi = fun x => psi (pperm g x).
Proof.
  destruct g as [s|P top u]; cbn [pok papp pperm].
  - intros [C _]. now apply sapp_perm.
  - intros [W _]. now apply block_sem.
Qed.

Theorem pivot_aux_cert Q (l : list entry) : Forall pok Q ->
  prun Q (den (map (fun e => (fst e, pcls (rev Q) (snd e))) l)) = den l.
Proof.
  intros H. apply (gen_cert pgate papp pperm pok); auto.
  - intros g psi Hg. now apply papp_perm.
  - intros g b Hg. now apply pperm_invol.
Qed.

Definition twfb (u : nat) (g : tri) : bool :=
  let '(a, b, t) := g in negb (Nat.eqb a t) && negb (Nat.eqb b t) && negb (Nat.eqb a u) && negb (Nat.eqb b u) && negb (Nat.eqb t u).
Lemma twfb_ok u g : twfb u g = true -> twf u g.
Proof.
  destruct g as [[a b] t]. unfold twfb, twf. rewrite !andb_true_iff, !negb_true_iff, !Nat.eqb_neq. tauto.
Qed.
Definition pokb (g : pgate) : bool :=
  match g with PS s => sokb s | PB P top u => forallb (twfb u) P && negb (Nat.eqb top u) end.
Lemma pokb_ok g : pokb g = true -> pok g.
Proof.
  destruct g as [s|P top u]; cbn [pokb pok]. apply sokb_ok.
  rewrite andb_true_iff, negb_true_iff, Nat.eqb_neq. intros [H1 H2]. split; auto.
  apply Forall_forall. intros g Hg. apply twfb_ok. rewrite forallb_forall in H1. auto.
Qed.
Theorem pivot_aux_cert_b Q (l : list entry) : forallb pokb Q = true ->
  prun Q (den (map (fun e => (fst e, pcls (rev Q) (snd e))) l)) = den l.
Proof.
  intros H. apply pivot_aux_cert. apply Forall_forall. intros g Hg. apply pokb_ok. rewrite forallb_forall in H. auto.
Qed.
