(* C06, PivotInitialize: the pivoting part of the circuit is a classical reversible circuit (X, CX, multi-controlled X).
   Run backwards after the dense preparation it carries the amplitude sitting on the image of a key back to the key.
   The theorem is for every classical circuit and every finite superposition; the harness checks on each instance, inside
   Coq, that the dense vector the code prepares is indexed by the images [scls (rev Q) key] of the circuit the code emitted. *)
From Coq Require Import Reals Lra List Bool Arith Lia NArith FunctionalExtensionality.
From Coquelicot Require Import Complex.
From QV Require Import Sem Mat2 Toff2 Chain Vchain Cvoqram McxModel McxMulti IrProps FnPointsModel FnSem.
Import ListNotations.
Open Scope nat_scope.

Definition sclassical (g : sgate) : Prop := match g with SU _ _ => False | _ => True end.
Definition sclassicalb (g : sgate) : bool := match g with SU _ _ => false | _ => true end.
Definition sperm (g : sgate) (b : asg) : asg :=
  match g with
  | SX q => flipq q b
  | SU _ _ => b
  | SCX c t => if get b c then flipq t b else b
  | SMCX cs t => if allq cs b then flipq t b else b
  end.
Definition scls (P : list sgate) (b : asg) : asg := fold_left (fun y g => sperm g y) P b.
Lemma scls_app P Q b : scls (P ++ Q) b = scls Q (scls P b).
Proof. unfold scls. now rewrite fold_left_app. Qed.

Lemma allq_flipq cs t b : ~ In t cs -> allq cs (flipq t b) = allq cs b.
Proof.
  intros H. unfold allq. induction cs as [|c cs IH]; auto. simpl.
  rewrite flq_other by (intro E; apply H; left; auto). f_equal. apply IH. intro I. apply H. now right.
Qed.
Lemma sperm_invol g b : swf g -> sperm g (sperm g b) = b.
Proof.
  destruct g as [q|n t|c t|cs t]; cbn [swf sperm]; intros W.
  - apply flipq_flipq.
  - reflexivity.
  - destruct (get b c) eqn:E; [|now rewrite E]. rewrite flq_other, E by auto. apply flipq_flipq.
  - destruct (allq cs b) eqn:E; [|now rewrite E]. rewrite allq_flipq, E by auto. apply flipq_flipq.
Qed.
Lemma sapp_perm g psi : sclassical g -> sapp g psi = fun b => psi (sperm g b).
Proof.
  destruct g as [q|n t|c t|cs t]; cbn [sclassical sapp sperm]; intros H; try tauto;
    apply functional_extensionality; intros b; unfold appf.
  - apply app1_X.
  - destruct (get b c); simpl. apply app1_X. apply app1_I2.
  - destruct (allq cs b); simpl. apply app1_X. apply app1_I2.
Qed.

(* a classical circuit moves the basis states of a finite superposition *)
Theorem srun_den P : Forall sclassical P -> Forall swf P -> forall l,
  srun P (den l) = den (map (fun e => (fst e, scls P (snd e))) l).
Proof.
  induction P as [|g P IH]; intros HC HW l.
  - simpl. f_equal. induction l as [|[a B] l IHl]; simpl; auto. now rewrite <- IHl.
  - inversion HC; inversion HW; subst. rewrite srun_cons, sapp_perm by auto.
    rewrite (den_perm (sperm g)) by (intros; now apply sperm_invol).
    rewrite IH by auto. f_equal. rewrite map_map. reflexivity.
Qed.
Lemma scls_rev_cancel Q b : Forall swf Q -> scls Q (scls (rev Q) b) = b.
Proof.
  revert b. induction Q as [|g Q IH]; intros b W. reflexivity.
  inversion W; subst. cbn [rev]. rewrite scls_app. cbn [scls fold_left]. fold (scls Q).
  rewrite sperm_invol by auto. now apply IH.
Qed.

(* Q = the pivoting gates as they stand in the final circuit (after the dense preparation) *)
Theorem pivot_cert Q (l : list entry) : Forall sclassical Q -> Forall swf Q ->
  srun Q (den (map (fun e => (fst e, scls (rev Q) (snd e))) l)) = den l.
Proof.
  intros HC HW. rewrite srun_den by auto. rewrite map_map. f_equal.
  rewrite <- (map_id l) at 2. apply map_ext. intros [a B]. cbn [fst snd]. now rewrite scls_rev_cancel.
Qed.
(* and a prepared dense state of that form, whatever prepared it, is turned into the sparse state *)
Corollary pivot_final Q l (dense : state) : Forall sclassical Q -> Forall swf Q ->
  dense = den (map (fun e => (fst e, scls (rev Q) (snd e))) l) -> srun Q dense = den l.
Proof. intros HC HW ->. now apply pivot_cert. Qed.

(* executable side conditions *)
Definition swfb (g : sgate) : bool :=
  match g with SX _ | SU _ _ => true | SCX c t => negb (Nat.eqb c t) | SMCX cs t => negb (existsb (Nat.eqb t) cs) end.
Lemma swfb_ok g : swfb g = true -> swf g.
Proof.
  destruct g as [q|n t|c t|cs t]; cbn [swfb swf]; auto.
  - intros H E. subst. now rewrite Nat.eqb_refl in H.
  - intros H I. apply negb_true_iff in H. assert (existsb (Nat.eqb t) cs = true); [|congruence].
    apply existsb_exists. exists t. split; auto. apply Nat.eqb_refl.
Qed.
Lemma sclassicalb_ok g : sclassicalb g = true -> sclassical g.
Proof. destruct g; simpl; auto; discriminate. Qed.
Theorem pivot_cert_b Q (l : list entry) : forallb sclassicalb Q = true -> forallb swfb Q = true ->
  srun Q (den (map (fun e => (fst e, scls (rev Q) (snd e))) l)) = den l.
Proof.
  intros HC HW. apply pivot_cert; apply Forall_forall; intros g Hg.
  - apply sclassicalb_ok. rewrite forallb_forall in HC. auto.
  - apply swfb_ok. rewrite forallb_forall in HW. auto.
Qed.
