(* C04: the quadratic-depth multi-controlled U (Qdmcu, Barenco Lemma 7.5 with the LinearMcx of C05).
   Model of Qdmcu._define (recursion over the controls, square roots V_1 = sqrt U, V_2 = sqrt V_1, ...), and the theorem that
   its gate list applies U to the target iff the controls match the pattern - every number of controls, every pattern.
   Qdmcu calls LinearMcx with action_only=True and later its inverse: the action-only circuit is the exact one followed by the
   inverse of a circuit that touches control qubits only, which commutes with the controlled V^dagger in between. *)
From Coq Require Import Reals Lra List Bool Arith Lia NArith FunctionalExtensionality.
From Coquelicot Require Import Complex.
From QV Require Import Sem Mat2 Toff2 Chain Vchain Cvoqram SumQ RelPhase McxModel McxAll LinearMcx McxMulti IrProps LdmcsuModel RelabelSwap.
Import ListNotations.
Open Scope nat_scope.

(* ---------- LinearMcx is exact for EVERY number of controls ---------- *)
Definition allk (k : nat) (b : asg) : bool := forallb (fun c => get b c) (seq 0 k).

Lemma sapp_smcx0 cs t psi b : sapp (SMCX cs t) psi b = psi (if forallb (fun c => get b c) cs then flipq t b else b).
Proof.
  cbn [sapp]. unfold appf, allq. destruct (forallb (fun c => get b c) cs); cbn [Xpow]. apply app1_X. apply app1_I2.
Qed.
Lemma sapp_smcx' cs t psi b : sapp (smcx cs t) psi b = psi (if forallb (fun c => get b c) cs then flipq t b else b).
Proof.
  unfold smcx. destruct cs as [|c [|c' cs]].
  - apply sapp_smcx0.
  - rewrite sapp_scx. simpl. now rewrite andb_true_r.
  - apply sapp_smcx0.
Qed.

(* the 7-qubit case: two Toffoli-like gates through the ancilla, twice (Lemma 9 with exact gates) *)
Lemma lm5_exact psi b :
  srun [SMCX [0; 1; 2] 6; SMCX [3; 4; 6] 5; SMCX [0; 1; 2] 6; SMCX [3; 4; 6] 5] psi b
  = psi (if allk 5 b then flipq 5 b else b).
Proof.
  rewrite !srun_cons. cbn [srun fold_left].
  set (P1 := fun x : asg => get x 0 && (get x 1 && get x 2)).
  set (P2 := fun x : asg => get x 3 && get x 4).
  assert (H1a : forall x, P1 (flipq 6 x) = P1 x) by (intros x; unfold P1; now rewrite !flq_other by lia).
  assert (H1t : forall x, P1 (flipq 5 x) = P1 x) by (intros x; unfold P1; now rewrite !flq_other by lia).
  assert (H2a : forall x, P2 (flipq 6 x) = P2 x) by (intros x; unfold P2; now rewrite !flq_other by lia).
  assert (H2t : forall x, P2 (flipq 5 x) = P2 x) by (intros x; unfold P2; now rewrite !flq_other by lia).
  assert (HG : forall phi x, sapp (SMCX [0; 1; 2] 6) phi x
               = ((if (fun _ : asg => false) x then sgn (get x 6) else RtoC 1) * phi (if P1 x then flipq 6 x else x))%C).
  { intros phi x. rewrite sapp_smcx0. cbn [forallb]. rewrite andb_true_r, Cmult_1_l. reflexivity. }
  assert (HS : forall phi x, sapp (SMCX [3; 4; 6] 5) phi x = phi (if P2 x && get x 6 then flipq 5 x else x)).
  { intros phi x. rewrite sapp_smcx0. cbn [forallb]. rewrite andb_true_r. unfold P2. now rewrite andb_assoc. }
  rewrite (lemma9 6 5 ltac:(lia) P1 (fun _ => false) P2 H1a H1t (fun _ => eq_refl) (fun _ => eq_refl) H2a H2t
             (fun x (E : false = true) => False_ind _ (Bool.diff_false_true E))
             (sapp (SMCX [0; 1; 2] 6)) (sapp (SMCX [3; 4; 6] 5)) HG HS).
  f_equal. unfold allk, P1, P2. cbn [forallb seq]. rewrite !andb_true_r.
  destruct (get b 0), (get b 1), (get b 2), (get b 3), (get b 4); reflexivity.
Qed.

(* all-ones pattern, every k >= 1 *)
Lemma lm_ones_exact k : 1 <= k -> forall psi b,
  srun (linear_mcx k [] false) psi b = psi (if allk k b then flipq k b else b).
Proof.
  intros Hk psi b. destruct (le_lt_dec 6 k) as [H6|H6]. now apply linear_mcx_exact.
  unfold linear_mcx. rewrite xs_nil, app_nil_r. cbn [app].
  destruct k as [|[|[|[|[|[|k]]]]]]; try lia; cbn [Nat.add Nat.ltb Nat.leb Nat.eqb].
  - cbn [srun fold_left]. now rewrite sapp_smcx'.
  - cbn [srun fold_left]. now rewrite sapp_smcx'.
  - cbn [srun fold_left]. now rewrite sapp_smcx0.
  - cbn [srun fold_left]. now rewrite sapp_smcx0.
  - apply lm5_exact.
Qed.

(* every pattern *)
Theorem lm_exact k pat : 1 <= k -> forall psi b,
  srun (linear_mcx k pat false) psi b = psi (if pmatch pat k b then flipq k b else b).
Proof.
  intros Hk.
  assert (U : linear_mcx k pat false = xs pat k ++ linear_mcx k [] false ++ xs pat k).
  { unfold linear_mcx. rewrite xs_nil, app_nil_r. reflexivity. }
  rewrite U. apply ctrl_state_conj. lia. intros phi b0. now apply lm_ones_exact.
Qed.

(* ---------- the action-only circuit = exact circuit up to a circuit on the controls ---------- *)
Lemma xs_xs pat k psi : srun (xs pat k) (srun (xs pat k) psi) = psi.
Proof. apply functional_extensionality; intros b. now rewrite !xs_sem, xflip_invol. Qed.

(* qubits of the chain of a V-chain: its controls except the top one, and its ancillas *)
Definition chain_ok (kv : nat) (p : nat) : Prop := p < kv - 1 \/ (kv <= p /\ p < kv + (kv - 2)).
Lemma toffoli_sq cn c0 c1 t g p : In g (toffoli cn c0 c1 t) -> In p (sq g) -> p = c0 \/ p = c1 \/ p = t.
Proof.
  unfold toffoli. intros Hg Hp.
  repeat (apply in_app_or in Hg as [Hg|Hg]); destruct cn; simpl in Hg;
    repeat (destruct Hg as [<-|Hg]; [simpl in Hp; intuition|]); try contradiction.
Qed.
Lemma chain_gates_qubits j g p : In g (chain_gates j) -> In p (sq g) -> chain_ok (j + 3) p.
Proof.
  unfold chain_gates, TRs, TLs, chain_ok. intros Hg Hp.
  apply in_app_or in Hg as [Hg|Hg]; [|apply in_app_or in Hg as [Hg|Hg]].
  - apply in_flat_map in Hg as [i [Hi Hg]]. apply in_seq in Hi.
    destruct (toffoli_sq _ _ _ _ _ _ Hg Hp) as [E|[E|E]]; subst p; unfold cq0, aq0; lia.
  - destruct (toffoli_sq _ _ _ _ _ _ Hg Hp) as [E|[E|E]]; subst p; unfold cq0, aq0; lia.
  - apply in_flat_map in Hg as [i [Hi Hg]]. apply in_seq in Hi.
    destruct (toffoli_sq _ _ _ _ _ _ Hg Hp) as [E|[E|E]]; subst p; unfold cq0, aq0; lia.
Qed.
Lemma sq_relabel l g p : In p (sq (relabel l g)) -> exists p0, In p0 (sq g) /\ p = nth p0 l 0.
Proof.
  destruct g as [q|n t|c t|cs t]; cbn [relabel sq]; intros H.
  - destruct H as [<-|[]]. eexists; split; [now left|reflexivity].
  - destruct H as [<-|[]]. eexists; split; [now left|reflexivity].
  - destruct H as [<-|[<-|[]]]; eexists; (split; [|reflexivity]); simpl; auto.
  - destruct H as [<-|H]. eexists; split; [now left|reflexivity].
    apply in_map_iff in H as [c [<- Hc]]. exists c. split; [now right|reflexivity].
Qed.

Lemma chain_gates_lwf j : Forall (lwf (2 * j + 5)) (chain_gates j).
Proof.
  unfold chain_gates, TRs, TLs. apply Forall_app; split; [|apply Forall_app; split].
  - apply forall_flat_map. intros i I. apply in_seq in I. apply toffoli_lwf; unfold cq0, aq0; lia.
  - apply toffoli_lwf; unfold cq0, aq0; lia.
  - apply forall_flat_map. intros i I. apply in_seq in I. apply toffoli_lwf; unfold cq0, aq0; lia.
Qed.
Lemma general_ao_split j : general j 1 false false = general j 1 false true ++ chain_gates j.
Proof. unfold general, first_gate. cbn [negb]. rewrite <- !app_assoc. reflexivity. Qed.

Section Split.
Variable k : nat.
Variable pat : list bool.
Hypothesis Hk : 1 <= k.

Definition ctl_only (c : list sgate) : Prop := forall g p, In g c -> In p (sq g) -> p < k.

Lemma xs_ctl : ctl_only (xs pat k).
Proof.
  intros g p Hg Hp. unfold xs in Hg. apply in_flat_map in Hg as [i [Hi Hg]]. apply in_seq in Hi.
  destruct (nth i pat true); [destruct Hg|]. destruct Hg as [<-|[]]. destruct Hp as [<-|[]]. lia.
Qed.

Theorem lm_split : exists Cl : list sgate, ctl_only Cl /\ Forall swf Cl /\
  forall psi, srun (linear_mcx k pat false) psi = srun Cl (srun (linear_mcx k pat true) psi).
Proof.
  destruct (le_lt_dec 8 (k + 2)) as [H8|H8].
  2:{ exists []. split; [intros g p []|]. split; [constructor|]. intros psi.
      assert (E : linear_mcx k pat false = linear_mcx k pat true).
      { unfold linear_mcx.
        destruct (Nat.ltb_spec (k + 2) 5); auto. destruct (Nat.eqb_spec (k + 2) 5); auto.
        destruct (Nat.eqb_spec (k + 2) 6); auto. destruct (Nat.eqb_spec (k + 2) 7); auto. lia. }
      now rewrite E. }
  (* general branch *)
  set (nq := k + 2). set (k2 := (nq + 1) / 2). set (k1 := k - k2 + 1).
  set (l2 := slice k1 k ++ [k + 1] ++ slice (k1 + 2 - k2) k1 ++ [k]).
  assert (K2 : 4 <= k2 /\ k2 <= k /\ k1 + k2 = k + 1 /\ k2 <= k1 + 2).
  { unfold k2, k1, nq in *.
    assert (D := Nat.div_mod (k + 2 + 1) 2 ltac:(lia)).
    assert (M := Nat.mod_upper_bound (k + 2 + 1) 2 ltac:(lia)). lia. }
  set (j2 := k2 - 3).
  set (Rl := map (relabel l2) (chain_gates j2)).
  exists (xs pat k ++ Rl ++ xs pat k).
  assert (Rctl : ctl_only Rl).
  { intros g p Hg Hp. unfold Rl in Hg. apply in_map_iff in Hg as [g0 [<- Hg0]].
    apply sq_relabel in Hp as [p0 [Hp0 ->]].
    pose proof (chain_gates_qubits j2 g0 p0 Hg0 Hp0) as Ok. unfold chain_ok in Ok.
    replace (j2 + 3) with k2 in Ok by (unfold j2; lia).
    unfold l2, slice. destruct Ok as [Lo|[Hi1 Hi2]].
    - rewrite app_nth1 by (rewrite seq_length; lia). rewrite seq_nth by lia. lia.
    - rewrite app_nth2 by (rewrite seq_length; lia). rewrite seq_length.
      rewrite app_nth2 by (simpl; lia). cbn [length].
      rewrite app_nth1 by (rewrite seq_length; lia). rewrite seq_nth by lia. lia. }
  split; [|split].
  - intros g p Hg Hp. apply in_app_or in Hg as [Hg|Hg]; [eapply xs_ctl; eauto|].
    apply in_app_or in Hg as [Hg|Hg]; [eapply Rctl; eauto | eapply xs_ctl; eauto].
  - rewrite !Forall_app. repeat split.
    + apply Forall_forall. intros g Hg. unfold xs in Hg. apply in_flat_map in Hg as [i [_ Hg]].
      destruct (nth i pat true); [destruct Hg|]. destruct Hg as [<-|[]]. exact I.
    + assert (N2 : NoDup l2).
      { unfold l2, slice. apply nodup_app_intro; [apply seq_NoDup| |].
        - apply nodup_app_intro; [repeat constructor; auto| |].
          + apply nodup_app_intro; [apply seq_NoDup|repeat constructor; auto|].
            intros x I1 I2. apply in_seq in I1. destruct I2 as [E|[]]. lia.
          + intros x I1 I2. destruct I1 as [E|[]]. apply in_app_or in I2 as [I2|[E2|[]]]; [apply in_seq in I2|]; lia.
        - intros x I1 I2. apply in_seq in I1. apply in_app_or in I2 as [[E|[]]|I2]; [lia|].
          apply in_app_or in I2 as [I2|[E2|[]]]; [apply in_seq in I2|]; lia. }
      assert (L2 : length l2 = 2 * j2 + 5).
      { unfold l2, slice. rewrite !app_length, !seq_length. cbn [length]. unfold j2. lia. }
      apply Forall_forall. intros g Hg. unfold Rl in Hg. apply in_map_iff in Hg as [g0 [<- Hg0]].
      apply (lwf_relabel l2 (2 * j2 + 5)); auto.
      pose proof (chain_gates_lwf j2) as F. rewrite Forall_forall in F. auto.
    + apply Forall_forall. intros g Hg. unfold xs in Hg. apply in_flat_map in Hg as [i [_ Hg]].
      destruct (nth i pat true); [destruct Hg|]. destruct Hg as [<-|[]]. exact I.
  - intros psi.
    assert (Ef : forall ao, linear_mcx k pat ao
                 = xs pat k ++ (map (relabel (slice 0 k1 ++ slice k1 (k1 + k1 - 2) ++ [k + 1])) (vchain k1 1 [] true false)
                    ++ map (relabel l2) (vchain k2 1 [] false false)
                    ++ map (relabel (slice 0 k1 ++ slice k1 (k1 + k1 - 2) ++ [k + 1])) (vchain k1 1 [] true false)
                    ++ map (relabel l2) (vchain k2 1 [] false ao)) ++ xs pat k).
    { intros ao. unfold linear_mcx. fold nq.
      replace (nq <? 5) with false by (symmetry; apply Nat.ltb_ge; unfold nq; lia).
      replace (nq =? 5) with false by (symmetry; apply Nat.eqb_neq; unfold nq; lia).
      replace (nq =? 6) with false by (symmetry; apply Nat.eqb_neq; unfold nq; lia).
      replace (nq =? 7) with false by (symmetry; apply Nat.eqb_neq; unfold nq; lia).
      reflexivity. }
    assert (Ev : vchain k2 1 [] false false = vchain k2 1 [] false true ++ chain_gates j2).
    { unfold vchain. rewrite xs_nil, !app_nil_r. cbn [app].
      replace k2 with (S (S (S j2))) by (unfold j2; lia). cbn [negb andb].
      replace (j2 =? 0) with false by (symmetry; apply Nat.eqb_neq; unfold j2; lia). cbn [andb].
      apply general_ao_split. }
    rewrite (Ef false), (Ef true), Ev, map_app. fold Rl.
    rewrite !srun_app. rewrite xs_xs. reflexivity.
Qed.
End Split.

(* ---------- well-formedness of every LinearMcx gate list ---------- *)
Lemma general_lwf_all j rel ao : Forall (lwf (2 * j + 5)) (general j 1 rel ao).
Proof.
  pose proof (chain_gates_lwf j) as CG.
  assert (FG : forall sr, Forall (lwf (2 * j + 5)) (first_gate j 1 rel sr)).
  { intros sr. unfold first_gate. destruct rel.
    - apply toffoli_lwf; unfold cq0, aq0; lia.
    - unfold toffoli_mt, targets, fan_l, fan_r. destruct sr; cbn [seq map length Nat.sub app nth];
        repeat constructor; cbn [lwf]; unfold cq0, aq0; try lia; repeat constructor; lia. }
  unfold general. apply Forall_app; split; [apply FG|]. apply Forall_app; split; [exact CG|].
  destruct ao.
  - unfold toffoli_mt, targets, fan_l, fan_r. cbn [seq map length Nat.sub app nth].
    repeat constructor; cbn [lwf]; unfold cq0, aq0; try lia; repeat constructor; lia.
  - apply Forall_app; split; [apply FG | exact CG].
Qed.
Lemma vchain_lwf_all k rel ao : 3 <= k -> (rel = true \/ 4 <= k) -> Forall (lwf (2 * (k - 3) + 5)) (vchain k 1 [] rel ao).
Proof.
  intros Hk Hr. unfold vchain. rewrite xs_nil, app_nil_r. cbn [app].
  destruct k as [|[|[|j]]]; try lia. replace (S (S (S j)) - 3) with j by lia.
  replace (negb rel && (j =? 0) && (1 <? 2)) with false.
  apply general_lwf_all.
  symmetry. destruct Hr as [->|H4]. reflexivity.
  rewrite (proj2 (Nat.eqb_neq j 0)) by lia. now rewrite andb_false_r.
Qed.

Lemma nth_bound (l : list nat) p B : (forall x, In x l -> x < B) -> 0 < B -> nth p l 0 < B.
Proof.
  intros H HB. destruct (Nat.lt_ge_cases p (length l)). apply H. now apply nth_In. now rewrite nth_overflow.
Qed.
Definition bounded (B : nat) (c : list sgate) : Prop := forall g p, In g c -> In p (sq g) -> p < B.
Lemma relabel_bounded l c B : (forall x, In x l -> x < B) -> 0 < B -> bounded B (map (relabel l) c).
Proof.
  intros H HB g p Hg Hp. apply in_map_iff in Hg as [g0 [<- _]]. apply sq_relabel in Hp as [p0 [_ ->]]. now apply nth_bound.
Qed.
Lemma bounded_app B c1 c2 : bounded B c1 -> bounded B c2 -> bounded B (c1 ++ c2).
Proof. intros H1 H2 g p Hg Hp. apply in_app_or in Hg as [Hg|Hg]; eauto. Qed.

Lemma swf_bounded_lwf w g : swf g -> (forall p, In p (sq g) -> p < w) -> lwf w g.
Proof.
  destruct g as [q|n t|c t|cs t]; cbn [swf lwf sq]; intros W B; auto.
  - apply B. now left.
  - apply B. now left.
  - repeat split; auto; apply B; simpl; auto.
  - split. apply B. now left. apply Forall_forall. intros c Hc. split. apply B. now right. intros ->. auto.
Qed.

Section LmWf.
Variable k : nat.
Variable pat : list bool.
Hypothesis Hk : 1 <= k.

Lemma lm_bounded ao : bounded (k + 2) (linear_mcx k pat ao).
Proof.
  assert (XB : bounded (k + 2) (xs pat k)) by (intros g p Hg Hp; pose proof (xs_ctl k pat Hk g p Hg Hp); lia).
  unfold linear_mcx. apply bounded_app; [exact XB|]. apply bounded_app; [|exact XB].
  destruct (Nat.ltb_spec (k + 2) 5).
  { intros g p Hg Hp. destruct k as [|[|[|k']]]; try lia; destruct Hg as [<-|[]]; simpl in Hp; intuition lia. }
  destruct (Nat.eqb_spec (k + 2) 5).
  { intros g p [<-|[]] Hp. destruct Hp as [<-|Hp]; [lia|]. apply in_seq in Hp. lia. }
  destruct (Nat.eqb_spec (k + 2) 6).
  { intros g p [<-|[]] Hp. destruct Hp as [<-|Hp]; [lia|]. apply in_seq in Hp. lia. }
  destruct (Nat.eqb_spec (k + 2) 7).
  { assert (k = 5) by lia. subst k. intros g p Hg Hp.
    repeat (destruct Hg as [<-|Hg]; [simpl in Hp; intuition lia|]). destruct Hg. }
  set (k2 := (k + 2 + 1) / 2). set (k1 := k - k2 + 1).
  assert (K2 : k2 <= k /\ k1 + k2 = k + 1 /\ k + 2 <= 2 * k2).
  { unfold k2, k1. assert (D := Nat.div_mod (k + 2 + 1) 2 ltac:(lia)).
    assert (M := Nat.mod_upper_bound (k + 2 + 1) 2 ltac:(lia)). lia. }
  assert (B1 : forall x, In x (slice 0 k1 ++ slice k1 (k1 + k1 - 2) ++ [k + 1]) -> x < k + 2).
  { intros x I. unfold slice in I. apply in_app_or in I as [I|I]; [apply in_seq in I; lia|].
    apply in_app_or in I as [I|[E|[]]]; [apply in_seq in I|]; lia. }
  assert (B2 : forall x, In x (slice k1 k ++ [k + 1] ++ slice (k1 + 2 - k2) k1 ++ [k]) -> x < k + 2).
  { intros x I. unfold slice in I. apply in_app_or in I as [I|I]; [apply in_seq in I; lia|].
    apply in_app_or in I as [[E|[]]|I]; [lia|]. apply in_app_or in I as [I|[E|[]]]; [apply in_seq in I|]; lia. }
  repeat apply bounded_app; apply relabel_bounded; auto; lia.
Qed.
End LmWf.

Section LmSwf.
Variable k : nat.
Variable pat : list bool.
Hypothesis Hk : 1 <= k.

Lemma xs_swf : Forall swf (xs pat k).
Proof.
  apply Forall_forall. intros g Hg. unfold xs in Hg. apply in_flat_map in Hg as [i [_ Hg]].
  destruct (nth i pat true); [destruct Hg|]. destruct Hg as [<-|[]]. exact I.
Qed.

Lemma lm_swf ao : Forall swf (linear_mcx k pat ao).
Proof.
  unfold linear_mcx. apply Forall_app; split; [apply xs_swf|]. apply Forall_app; split; [|apply xs_swf].
  destruct (Nat.ltb_spec (k + 2) 5).
  { destruct k as [|[|[|k']]]; try lia; repeat constructor; simpl; intuition lia. }
  destruct (Nat.eqb_spec (k + 2) 5).
  { repeat constructor. simpl. intro I. apply in_seq in I. lia. }
  destruct (Nat.eqb_spec (k + 2) 6).
  { repeat constructor. simpl. intro I. apply in_seq in I. lia. }
  destruct (Nat.eqb_spec (k + 2) 7).
  { assert (k = 5) by lia. subst k. repeat constructor; simpl; intuition lia. }
  set (k2 := (k + 2 + 1) / 2). set (k1 := k - k2 + 1).
  assert (K2 : 4 <= k2 /\ 3 <= k1 /\ k2 <= k /\ k1 + k2 = k + 1 /\ k2 <= k1 + 2 /\ k1 <= k2).
  { unfold k2, k1. assert (D := Nat.div_mod (k + 2 + 1) 2 ltac:(lia)).
    assert (M := Nat.mod_upper_bound (k + 2 + 1) 2 ltac:(lia)). lia. }
  set (l1 := slice 0 k1 ++ slice k1 (k1 + k1 - 2) ++ [k + 1]).
  set (l2 := slice k1 k ++ [k + 1] ++ slice (k1 + 2 - k2) k1 ++ [k]).
  assert (N1 : NoDup l1).
  { unfold l1, slice. apply nodup_app_intro; [apply seq_NoDup| |].
    - apply nodup_app_intro; [apply seq_NoDup|repeat constructor; auto|].
      intros x I1 I2. apply in_seq in I1. destruct I2 as [E|[]]. lia.
    - intros x I1 I2. apply in_seq in I1. apply in_app_or in I2 as [I2|[E|[]]]; [apply in_seq in I2|]; lia. }
  assert (L1 : length l1 = 2 * (k1 - 3) + 5).
  { unfold l1, slice. rewrite !app_length, !seq_length. cbn [length]. lia. }
  assert (N2 : NoDup l2).
  { unfold l2, slice. apply nodup_app_intro; [apply seq_NoDup| |].
    - apply nodup_app_intro; [repeat constructor; auto| |].
      + apply nodup_app_intro; [apply seq_NoDup|repeat constructor; auto|].
        intros x I1 I2. apply in_seq in I1. destruct I2 as [E|[]]. lia.
      + intros x I1 I2. destruct I1 as [E|[]]. apply in_app_or in I2 as [I2|[E2|[]]]; [apply in_seq in I2|]; lia.
    - intros x I1 I2. apply in_seq in I1. apply in_app_or in I2 as [[E|[]]|I2]; [lia|].
      apply in_app_or in I2 as [I2|[E2|[]]]; [apply in_seq in I2|]; lia. }
  assert (L2 : length l2 = 2 * (k2 - 3) + 5).
  { unfold l2, slice. rewrite !app_length, !seq_length. cbn [length]. lia. }
  assert (W1 : Forall swf (map (relabel l1) (vchain k1 1 [] true false))).
  { apply Forall_forall. intros g Hg. apply in_map_iff in Hg as [g0 [<- Hg0]].
    apply (lwf_relabel l1 (2 * (k1 - 3) + 5)); auto.
    assert (H3 : 3 <= k1) by lia.
    pose proof (vchain_lwf_all k1 true false H3 (or_introl eq_refl)) as F. rewrite Forall_forall in F. auto. }
  assert (W2 : forall ao', Forall swf (map (relabel l2) (vchain k2 1 [] false ao'))).
  { intros ao'. apply Forall_forall. intros g Hg. apply in_map_iff in Hg as [g0 [<- Hg0]].
    apply (lwf_relabel l2 (2 * (k2 - 3) + 5)); auto.
    assert (H3 : 3 <= k2) by lia. assert (H4 : 4 <= k2) by lia.
    pose proof (vchain_lwf_all k2 false ao' H3 (or_intror H4)) as F. rewrite Forall_forall in F. auto. }
  repeat (apply Forall_app; split); auto.
Qed.
End LmSwf.

Lemma swapq_same a x : swapq a a x = x.
Proof. unfold swapq. rewrite upd_upd. apply upd_get. Qed.
Lemma get_swapq_other a c x p : p <> a -> p <> c -> get (swapq a c x) p = get x p.
Proof. intros Ha Hc. unfold swapq. now rewrite !get_upd_other by auto. Qed.

(* ---------- placing LinearMcx(k) with its ancilla on a far qubit K ---------- *)
Definition pl (K k : nat) : list nat := seq 0 (S k) ++ [K].
Definition lmp (K k : nat) (pat : list bool) (ao : bool) : list sgate := map (relabel (pl K k)) (linear_mcx k pat ao).

Lemma nth_pl_low K k q : q <= k -> nth q (pl K k) 0 = q.
Proof. intros H. unfold pl. rewrite app_nth1 by (rewrite seq_length; lia). now rewrite seq_nth by lia. Qed.
Lemma relabel_low K k g : (forall p, In p (sq g) -> p <= k) -> relabel (pl K k) g = g.
Proof.
  destruct g as [q|n t|c t|cs t]; cbn [relabel sq]; intros H.
  - now rewrite nth_pl_low by (apply H; now left).
  - now rewrite nth_pl_low by (apply H; now left).
  - now rewrite !nth_pl_low by (apply H; simpl; auto).
  - rewrite nth_pl_low by (apply H; now left). f_equal.
    rewrite <- (map_id cs) at 2. apply map_ext_in. intros c Hc. apply nth_pl_low. apply H. now right.
Qed.

Section Placed.
Variables K k : nat.
Hypothesis HK : k + 1 <= K.
Hypothesis Hk : 1 <= k.
Definition T (b : asg) : asg := swapq (k + 1) K b.

Lemma T_T b : T (T b) = b.
Proof.
  unfold T. destruct (Nat.eq_dec (k + 1) K) as [E|E]. rewrite <- E. now rewrite !swapq_same.
  apply (tau_tau (k + 1) K E).
Qed.
Lemma get_T_low b q : q <= k -> get (T b) q = get b q.
Proof.
  intros H. unfold T. destruct (Nat.eq_dec (k + 1) K) as [E|E]. rewrite <- E. now rewrite swapq_same.
  apply get_swapq_other; lia.
Qed.
Lemma T_flipq_low b q : q <= k -> T (flipq q b) = flipq q (T b).
Proof.
  intros H. unfold T. destruct (Nat.eq_dec (k + 1) K) as [E|E]. rewrite <- E. now rewrite !swapq_same.
  unfold flipq. rewrite swapq_upd_other by lia. rewrite get_swapq_other by lia. reflexivity.
Qed.

(* semantics of a placed circuit over the qubits < k + 2 *)
Lemma placed_sem c : bounded (k + 2) c -> forall psi b,
  srun (map (relabel (pl K k)) c) psi b = srun c (fun x => psi (T x)) (T b).
Proof.
  intros B psi b. destruct (Nat.eq_dec (k + 1) K) as [E|E].
  - (* the ancilla stays where it is *)
    assert (Id : map (relabel (pl K k)) c = c).
    { rewrite <- (map_id c) at 2. apply map_ext_in. intros g Hg.
      destruct g as [q|n t|cq t|cs t]; cbn [relabel].
      all: assert (N : forall p, p < k + 2 -> nth p (pl K k) 0 = p)
        by (intros p Hp; unfold pl; rewrite <- E; destruct (Nat.eq_dec p (k + 1)) as [->|Hne];
            [rewrite app_nth2 by (rewrite seq_length; lia); rewrite seq_length; replace (k + 1 - S k) with 0 by lia; reflexivity
            |rewrite app_nth1 by (rewrite seq_length; lia); rewrite seq_nth by lia; reflexivity]).
      - rewrite N; auto. apply (B _ _ Hg). now left.
      - rewrite N; auto. apply (B _ _ Hg). now left.
      - rewrite !N; auto; apply (B _ _ Hg); simpl; auto.
      - rewrite N by (apply (B _ _ Hg); now left). f_equal.
        rewrite <- (map_id cs) at 2. apply map_ext_in. intros c0 Hc. apply N. apply (B _ _ Hg). now right. }
    rewrite Id. unfold T. rewrite <- E.
    replace (fun x => psi (swapq (k + 1) (k + 1) x)) with psi by (apply functional_extensionality; intros x; now rewrite swapq_same).
    now rewrite swapq_same.
  - assert (R : map (relabel (pl K k)) c = map (rsw (k + 1) K) c).
    { apply map_ext_in. intros g Hg. unfold pl.
      replace (seq 0 (S k) ++ [K]) with (seq 0 (k + 1) ++ [K] ++ seq (S (k + 1)) (k + 2 - S (k + 1))).
      - apply relabel_is_rsw. lia. intros q Hq. apply (B _ _ Hg Hq).
      - replace (k + 2 - S (k + 1)) with 0 by lia. cbn [seq app]. replace (k + 1) with (S k) by lia. reflexivity. }
    rewrite R. apply srun_rsw; auto.
    apply Forall_forall. intros g Hg I. pose proof (B _ _ Hg I). lia.
Qed.

Variable pat : list bool.
Definition Rm (b : asg) : bool := pmatch pat k b.
Definition Mx (psi : state) : state := fun b => psi (if Rm b then flipq k b else b).

Lemma pmatch_T b : pmatch pat k (T b) = pmatch pat k b.
Proof.
  unfold pmatch.
  assert (G : forall l, (forall i, In i l -> i < k) ->
              forallb (fun i => Bool.eqb (get (T b) i) (nth i pat true)) l = forallb (fun i => Bool.eqb (get b i) (nth i pat true)) l).
  { induction l as [|i l IH]; intros H; simpl; auto. rewrite get_T_low by (pose proof (H i (or_introl eq_refl)); lia).
    f_equal. apply IH. intros; apply H; now right. }
  apply G. intros i Hi. apply in_seq in Hi. lia.
Qed.

Theorem lmp_exact psi : srun (lmp K k pat false) psi = Mx psi.
Proof.
  apply functional_extensionality; intros b. unfold lmp, Mx, Rm.
  rewrite placed_sem by (apply lm_bounded; auto). rewrite lm_exact by auto. rewrite pmatch_T.
  destruct (pmatch pat k b).
  - rewrite <- T_flipq_low by lia. now rewrite T_T.
  - now rewrite T_T.
Qed.

(* the action-only variant: exact = (controls-only circuit) after action-only *)
Theorem lmp_split : exists Cl : list sgate, ctl_only k Cl /\ Forall swf Cl /\
  forall psi, srun (lmp K k pat false) psi = srun Cl (srun (lmp K k pat true) psi).
Proof.
  destruct (lm_split k pat Hk) as [Cl [Hc [Hw Hs]]]. exists Cl. split; auto. split; auto.
  intros psi. apply functional_extensionality; intros b. unfold lmp.
  rewrite placed_sem by (apply lm_bounded; auto). rewrite Hs.
  (* Cl does not touch the moved qubits: it commutes with T *)
  assert (ClT : forall phi x, srun Cl (fun y => phi (T y)) x = srun Cl phi (T x)).
  { intros phi x.
    assert (Id : map (relabel (pl K k)) Cl = Cl).
    { rewrite <- (map_id Cl) at 2. apply map_ext_in. intros g Hg. apply relabel_low.
      intros p Hp. pose proof (Hc g p Hg Hp). lia. }
    assert (P : forall psi0 b0, srun Cl psi0 b0 = srun Cl (fun y => psi0 (T y)) (T b0)).
    { intros psi0 b0. rewrite <- Id at 1. apply placed_sem. intros g p Hg Hp. pose proof (Hc g p Hg Hp). lia. }
    rewrite (P (fun y => phi (T y)) x). f_equal. apply functional_extensionality; intros y. now rewrite T_T. }
  rewrite <- ClT. f_equal. apply functional_extensionality; intros y.
  now rewrite placed_sem by (apply lm_bounded; auto).
Qed.

Lemma lmp_swf ao : Forall swf (lmp K k pat ao).
Proof.
  unfold lmp. apply Forall_forall. intros g Hg. apply in_map_iff in Hg as [g0 [<- Hg0]].
  apply (lwf_relabel (pl K k) (k + 2)).
  - unfold pl. apply nodup_app_intro. apply seq_NoDup. repeat constructor; auto.
    intros x I1 I2. apply in_seq in I1. destruct I2 as [E|[]]. lia.
  - unfold pl. rewrite app_length, seq_length. simpl. lia.
  - apply swf_bounded_lwf.
    + pose proof (lm_swf k pat Hk ao) as F. rewrite Forall_forall in F. auto.
    + intros p Hp. apply (lm_bounded k pat Hk ao g0 p Hg0 Hp).
Qed.
End Placed.

(* ---------- the Qdmcu circuit ---------- *)
Inductive qg := QS (g : sgate) | QCV (dag : bool) (lvl : nat) (cv : bool) (c t : nat).

(* Qdmcu(U, k1 + 1 controls, pattern pat) on controls 0..k1 and target K; level lvl = how many square roots deep *)
Fixpoint qdmcu (K k1 lvl : nat) (pat : list bool) : list qg :=
  match k1 with
  | O => [QCV false lvl (nth 0 pat true) 0 K]
  | S k' =>
      [QCV false (S lvl) (nth (S k') pat true) (S k') K]
      ++ map QS (lmp K (S k') pat true)
      ++ [QCV true (S lvl) (nth (S k') pat true) (S k') K]
      ++ map QS (sinv_list (lmp K (S k') pat true))
      ++ qdmcu K k' (S lvl) pat
  end.

Section QSem.
Variables V Vd : nat -> mat2.                       (* V 0 = U, V (l+1) = sqrt (V l), Vd l = (V l)^dagger *)
Hypothesis Vsq : forall l, mmul (V (S l)) (V (S l)) = V l.
Hypothesis VVd : forall l, mmul (V l) (Vd l) = I2.
Hypothesis VdV : forall l, mmul (Vd l) (V l) = I2.

Definition cvf (dag : bool) (lvl : nat) (cv : bool) (c : nat) (b : asg) : mat2 :=
  if Bool.eqb (get b c) cv then (if dag then Vd lvl else V lvl) else I2.
Definition qapp (g : qg) (psi : state) : state :=
  match g with
  | QS g => sapp g psi
  | QCV dag lvl cv c t => appf (cvf dag lvl cv c) t psi
  end.
Definition qrun (c : list qg) (psi : state) : state := fold_left (fun s g => qapp g s) c psi.
Lemma qrun_app c1 c2 psi : qrun (c1 ++ c2) psi = qrun c2 (qrun c1 psi).
Proof. unfold qrun. now rewrite fold_left_app. Qed.
Lemma qrun_QS c psi : qrun (map QS c) psi = srun c psi.
Proof. revert psi. induction c as [|g c IH]; intros psi; auto. cbn [map qrun fold_left]. apply IH. Qed.

(* a circuit on other qubits commutes with a controlled gate *)
Lemma srun_appf_comm c f t psi : (forall g, In g c -> ~ In t (sq g)) -> (forall g, In g c -> indep (stgt g) f) ->
  srun c (appf f t psi) = appf f t (srun c psi).
Proof.
  revert psi. induction c as [|g c IH]; intros psi H1 H2. reflexivity.
  rewrite !srun_cons. rewrite <- IH by (intros; first [apply H1; now right | apply H2; now right]).
  f_equal. rewrite !sapp_appf. apply appf_comm.
  - intros E. apply (H1 g (or_introl eq_refl)). rewrite <- E. apply stgt_in.
  - apply sfun_indep. apply H1. now left.
  - apply H2. now left.
Qed.

(* Barenco's step with a control polarity *)
Section Step.
Variables c t : nat.
Hypothesis c_t : c <> t.
Variable R : asg -> bool.
Hypothesis R_c : forall b v, R (upd b c v) = R b.
Hypothesis R_t : forall b v, R (upd b t v) = R b.
Variable cv : bool.
Variables U W Wd : mat2.
Hypothesis WW : mmul W W = U.
Hypothesis WWd : mmul W Wd = I2.
Hypothesis WdW : mmul Wd W = I2.
Definition mp (m : mat2) (x : bool) : mat2 := if x then m else I2.
Definition ppi (b : asg) : asg := if R b then flipq c b else b.
Definition PM (psi : state) : state := fun b => psi (ppi b).

Lemma ppi_upd_t b v : ppi (upd b t v) = upd (ppi b) t v.
Proof. unfold ppi. rewrite R_t. destruct (R b); auto. unfold flipq. rewrite get_upd_other by auto. apply upd_comm. auto. Qed.
Lemma R_ppi b : R (ppi b) = R b.
Proof. unfold ppi. destruct (R b) eqn:E; auto. unfold flipq. now rewrite R_c. Qed.
Lemma ppi_ppi b : ppi (ppi b) = b.
Proof. unfold ppi at 1. rewrite R_ppi. unfold ppi. destruct (R b); auto. apply flipq_flipq. Qed.
Lemma get_ppi_c b : get (ppi b) c = xorb (get b c) (R b).
Proof. unfold ppi. destruct (R b). rewrite flq_same. now destruct (get b c). now rewrite xorb_false_r. Qed.
Lemma get_ppi_t b : get (ppi b) t = get b t.
Proof. unfold ppi. destruct (R b); auto. apply flq_other. auto. Qed.
Lemma appf_PM f psi : appf f t (PM psi) = PM (appf (fun b => f (ppi b)) t psi).
Proof.
  apply functional_extensionality; intros b. unfold appf, PM, app1.
  rewrite !ppi_upd_t, get_ppi_t, ppi_ppi. reflexivity.
Qed.
Lemma PM_PM psi : PM (PM psi) = psi.
Proof. apply functional_extensionality; intros b. unfold PM. now rewrite ppi_ppi. Qed.

Theorem step_pol psi :
  appf (fun b => mp W (R b)) t (PM (appf (fun b => mp Wd (Bool.eqb (get b c) cv)) t (PM (appf (fun b => mp W (Bool.eqb (get b c) cv)) t psi))))
  = appf (fun b => mp U (R b && Bool.eqb (get b c) cv)) t psi.
Proof.
  rewrite !appf_PM, PM_PM. rewrite !appf_appf.
  - f_equal. apply functional_extensionality; intros b.
    rewrite ppi_ppi, get_ppi_c. destruct (R b), (get b c), cv; simpl; rewrite ?mmul_I2_l, ?mmul_I2_r; auto.
  - intros b v. now rewrite get_upd_other.
  - intros b v. rewrite ppi_upd_t, !get_upd_other by auto. reflexivity.
Qed.
End Step.

Lemma pmatch_S pat k b : pmatch pat (S k) b = pmatch pat k b && Bool.eqb (get b k) (nth k pat true).
Proof. unfold pmatch. rewrite seq_S, forallb_app. simpl. now rewrite andb_true_r. Qed.
Lemma pmatch_upd_high pat k b q v : k <= q -> pmatch pat k (upd b q v) = pmatch pat k b.
Proof.
  intros H. unfold pmatch. apply forallb_ext_in'. intros i I. apply in_seq in I.
  now rewrite get_upd_other by lia.
Qed.

(* the conjugated middle of one recursion step *)
Section Middle.
Variables K k : nat.
Hypothesis HK : k + 1 <= K.
Hypothesis Hk : 1 <= k.
Variable pat : list bool.
Variable f : asg -> mat2.
Hypothesis f_low : forall q, q < k -> indep q f.          (* f reads no qubit below k *)

Lemma Mx_Mx psi : Mx k pat (Mx k pat psi) = psi.
Proof.
  apply functional_extensionality; intros b. unfold Mx, Rm.
  destruct (pmatch pat k b) eqn:E.
  - unfold flipq at 1. rewrite pmatch_upd_high by lia. rewrite E. now rewrite flipq_flipq.
  - now rewrite E.
Qed.

Lemma middle psi :
  srun (sinv_list (lmp K k pat true)) (appf f K (srun (lmp K k pat true) psi)) = Mx k pat (appf f K (Mx k pat psi)).
Proof.
  destruct (lmp_split K k HK Hk pat) as [Cl [Hc [Hw Hs]]].
  pose proof (lmp_swf K k HK Hk pat true) as Wl.
  assert (Cli : forall x, srun (sinv_list Cl) (srun Cl x) = x) by (intros x; rewrite <- srun_app; now apply inverse_right).
  assert (Clr : forall x, srun Cl (srun (sinv_list Cl) x) = x) by (intros x; rewrite <- srun_app; now apply inverse_left).
  assert (LM : forall x, srun (lmp K k pat true) x = srun (sinv_list Cl) (Mx k pat x)).
  { intros x. rewrite <- (lmp_exact K k HK Hk pat), Hs. now rewrite Cli. }
  assert (LMi : forall y, srun (sinv_list (lmp K k pat true)) y = Mx k pat (srun Cl y)).
  { intros y. set (z := Mx k pat (srun Cl y)).
    assert (E : srun (lmp K k pat true) z = y) by (unfold z; now rewrite LM, Mx_Mx, Cli).
    rewrite <- E. rewrite <- srun_app. now apply inverse_right. }
  rewrite LMi, LM. f_equal.
  rewrite srun_appf_comm.
  - now rewrite Clr.
  - intros g Hg I. pose proof (Hc g K Hg I). lia.
  - intros g Hg. apply f_low. apply (Hc g (stgt g) Hg). apply stgt_in.
Qed.
End Middle.

Theorem qdmcu_sem K : forall k1 lvl pat psi, S k1 <= K ->
  qrun (qdmcu K k1 lvl pat) psi = appf (fun b => if pmatch pat (S k1) b then V lvl else I2) K psi.
Proof.
  induction k1 as [|k' IH]; intros lvl pat psi HK.
  - cbn [qdmcu qrun fold_left qapp]. f_equal. apply functional_extensionality; intros b.
    unfold cvf, pmatch. simpl. now rewrite andb_true_r.
  - cbn [qdmcu]. rewrite !qrun_app, !qrun_QS. cbn [qrun fold_left qapp]. fold (qrun (qdmcu K k' (S lvl) pat)).
    rewrite IH by lia.
    rewrite (middle K (S k')) by (try lia; intros q Hq b v; unfold cvf; now rewrite get_upd_other by lia).
    set (cv := nth (S k') pat true).
    pose proof (step_pol (S k') K ltac:(lia) (pmatch pat (S k')) ltac:(intros; apply pmatch_upd_high; lia)
                  ltac:(intros; apply pmatch_upd_high; lia) cv (V lvl) (V (S lvl)) (Vd (S lvl)) (Vsq lvl) (VVd (S lvl)) (VdV (S lvl)) psi) as E.
    unfold PM, ppi, mp in E. unfold Mx, Rm, cvf.
    etransitivity; [etransitivity; [|exact E]|].
    + reflexivity.
    + f_equal. apply functional_extensionality; intros b. rewrite (pmatch_S pat (S k')). reflexivity.
Qed.
End QSem.

(* ---------- custom_sqrtm: the square root taken through a spectral decomposition ---------- *)
Definition madd (a b : mat2) : mat2 := M2 (m00 a + m00 b)%C (m01 a + m01 b)%C (m10 a + m10 b)%C (m11 a + m11 b)%C.
Definition mscal (c : C) (a : mat2) : mat2 := M2 (c * m00 a)%C (c * m01 a)%C (c * m10 a)%C (c * m11 a)%C.
Definition Z2 : mat2 := M2 (RtoC 0) (RtoC 0) (RtoC 0) (RtoC 0).
Lemma mmul_madd_l a b c : mmul (madd a b) c = madd (mmul a c) (mmul b c).
Proof. apply mat2_eq; simpl; ring. Qed.
Lemma mmul_madd_r a b c : mmul a (madd b c) = madd (mmul a b) (mmul a c).
Proof. apply mat2_eq; simpl; ring. Qed.
Lemma mmul_mscal x y a b : mmul (mscal x a) (mscal y b) = mscal (x * y)%C (mmul a b).
Proof. apply mat2_eq; simpl; ring. Qed.
Lemma mscal_Z2 x : mscal x Z2 = Z2. Proof. apply mat2_eq; simpl; ring. Qed.
Lemma madd_Z2_r a : madd a Z2 = a. Proof. apply mat2_eq; simpl; ring. Qed.
Lemma madd_Z2_l a : madd Z2 a = a. Proof. apply mat2_eq; simpl; ring. Qed.

(* U = l1 P + l2 Q with orthogonal projectors P, Q;  r1^2 = l1, r2^2 = l2:  (r1 P + r2 Q)^2 = U *)
Theorem spectral_sqrt (P Q : mat2) (l1 l2 r1 r2 : C) :
  mmul P P = P -> mmul Q Q = Q -> mmul P Q = Z2 -> mmul Q P = Z2 -> (r1 * r1 = l1)%C -> (r2 * r2 = l2)%C ->
  mmul (madd (mscal r1 P) (mscal r2 Q)) (madd (mscal r1 P) (mscal r2 Q)) = madd (mscal l1 P) (mscal l2 Q).
Proof.
  intros PP QQ PQ QP E1 E2.
  rewrite mmul_madd_l, !mmul_madd_r, !mmul_mscal, PP, QQ, PQ, QP, !mscal_Z2, madd_Z2_r, madd_Z2_l, E1, E2.
  reflexivity.
Qed.
(* and (r1 P + r2 Q)(s1 P + s2 Q) = 1 when r_i s_i = 1 and P + Q = 1 : the dagger used by the circuit is the inverse *)
Theorem spectral_inverse (P Q : mat2) (r1 r2 s1 s2 : C) :
  mmul P P = P -> mmul Q Q = Q -> mmul P Q = Z2 -> mmul Q P = Z2 -> madd P Q = I2 -> (r1 * s1 = RtoC 1)%C -> (r2 * s2 = RtoC 1)%C ->
  mmul (madd (mscal r1 P) (mscal r2 Q)) (madd (mscal s1 P) (mscal s2 Q)) = I2.
Proof.
  intros PP QQ PQ QP S E1 E2.
  rewrite mmul_madd_l, !mmul_madd_r, !mmul_mscal, PP, QQ, PQ, QP, !mscal_Z2, madd_Z2_r, madd_Z2_l, E1, E2.
  rewrite <- S. apply mat2_eq; simpl; ring.
Qed.
