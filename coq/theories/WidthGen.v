(* C11: qubit counts of the ancilla-tree initializers (definitions regenerated from the source: Gen_width). *)
From Coq Require Import ZArith Lia List.
From QV Require Import GenLib Gen_width.
Import ListNotations.
Open Scope Z_scope.

Lemma geom_sum (m : nat) : zsum (map (fun l => 2 ^ l) (zrange 0 (Z.of_nat m))) = 2 ^ Z.of_nat m - 1.
Proof.
  induction m as [|m IH]. reflexivity.
  replace (Z.of_nat (S m)) with (0 + Z.of_nat (S m)) at 1 by lia. rewrite zrange_S.
  rewrite map_app, zsum_app. replace (0 + Z.of_nat m) with (Z.of_nat m) by lia. rewrite IH.
  cbn [map]. rewrite zsum_cons. unfold zsum at 1. simpl fold_left.
  rewrite Nat2Z.inj_succ, Z.pow_succ_r by lia. lia.
Qed.

Lemma alloc_closed n start : 0 <= start -> alloc_width n start = 2 ^ start - 1 + 2 ^ start * (n - start).
Proof.
  intros H. unfold alloc_width. cbv zeta. rewrite <- (Z2Nat.id start) at 1 by lia. rewrite geom_sum.
  rewrite Z2Nat.id by lia. reflexivity.
Qed.
