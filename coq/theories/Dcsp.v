(* C11: the bottom-up (divide-and-conquer) part of the ancilla-tree preparations.  Model of tree_walk.bottom_up on an angle
   tree whose nodes carry their qubit, semantics of ry / rz / cswap, and the denotation F t of the circuit of a subtree:
   run from |0..0>, the circuit yields  F t  on the qubits of t (frame lemma [bottom_up_frame]). *)
From Coq Require Import Reals Lra List Bool Arith Lia NArith FunctionalExtensionality Permutation.
From Coquelicot Require Import Complex.
From QV Require Import Sem Mat2 Toff2 Chain Vchain Cvoqram SumQ.
Import ListNotations.
Open Scope nat_scope.

Inductive atree := ALeaf | ANode (q : nat) (ay az : R) (l r : atree).
Fixpoint qubits (t : atree) : list nat := match t with ALeaf => [] | ANode q _ _ l r => q :: qubits l ++ qubits r end.
Fixpoint chain (t : atree) : list nat := match t with ALeaf => [] | ANode q _ _ l _ => q :: chain l end.
Fixpoint rest (t : atree) : list nat := match t with ALeaf => [] | ANode _ _ _ l r => rest l ++ qubits r end.
Fixpoint balanced (d : nat) (t : atree) : Prop :=
  match d, t with
  | O, ALeaf => True
  | S d', ANode _ _ _ l r => balanced d' l /\ balanced d' r
  | _, _ => False
  end.

Inductive dgate := DRY (th : R) (q : nat) | DRZ (th : R) (q : nat) | DCSWAP (c a b : nat).
Definition cswapq (c a b : nat) (x : asg) : asg := if get x c then swapq a b x else x.
Definition dapp (g : dgate) (psi : state) : state :=
  match g with
  | DRY th q => app1 (RYm th) q psi
  | DRZ th q => app1 (RZm th) q psi
  | DCSWAP c a b => fun x => psi (cswapq c a b x)
  end.
Definition drun (c : list dgate) (psi : state) : state := fold_left (fun s g => dapp g s) c psi.
Lemma drun_app c1 c2 psi : drun (c1 ++ c2) psi = drun c2 (drun c1 psi).
Proof. unfold drun. now rewrite fold_left_app. Qed.

Definition rz0 (x : R) : bool := if Req_EM_T x 0 then true else false.
Definition pairs (l r : atree) : list (nat * nat) := combine (chain l) (chain r).
Definition cswaps (q : nat) (l r : atree) : list dgate := map (fun p => DCSWAP q (fst p) (snd p)) (pairs l r).
Fixpoint bottom_up (t : atree) : list dgate :=
  match t with
  | ALeaf => []
  | ANode q ay az l r =>
      (if rz0 ay then [] else [DRY ay q]) ++ (if rz0 az then [] else [DRZ az q])
      ++ bottom_up l ++ bottom_up r ++ (if rz0 ay then [] else cswaps q l r)
  end.

(* ---------- denotation ---------- *)
Definition phi (ay az : R) (v : bool) : C := mget (mmul (RZm az) (RYm ay)) v false.
Definition swapall (ps : list (nat * nat)) (x : asg) : asg := fold_right (fun p acc => swapq (fst p) (snd p) acc) x ps.
Definition sig (q : nat) (ay : R) (l r : atree) (x : asg) : asg :=
  if rz0 ay then x else if get x q then swapall (pairs l r) x else x.
Fixpoint F (t : atree) (x : asg) : C :=
  match t with
  | ALeaf => RtoC 1
  | ANode q ay az l r => (phi ay az (get (sig q ay l r x) q) * F l (sig q ay l r x) * F r (sig q ay l r x))%C
  end.

(* ---------- bit-level facts about the swaps ---------- *)
Lemma swapq_same a x : swapq a a x = x.
Proof. unfold swapq. rewrite upd_upd. apply upd_get. Qed.
Lemma get_swapq_other a c x p : p <> a -> p <> c -> get (swapq a c x) p = get x p.
Proof. intros Ha Hc. unfold swapq. now rewrite !get_upd_other by auto. Qed.
Lemma get_swapall_other ps x p : (forall pr, In pr ps -> p <> fst pr /\ p <> snd pr) -> get (swapall ps x) p = get x p.
Proof.
  induction ps as [|[a c] ps IH]; intros H; simpl; auto.
  destruct (H (a, c) (or_introl eq_refl)) as [Ha Hc]. simpl in Ha, Hc.
  rewrite get_swapq_other by auto. apply IH. intros pr Hpr. apply H. now right.
Qed.

Lemma in_pairs_fst l r pr : In pr (pairs l r) -> In (fst pr) (chain l).
Proof. destruct pr as [a c]. intros H. now apply in_combine_l in H. Qed.
Lemma in_pairs_snd l r pr : In pr (pairs l r) -> In (snd pr) (chain r).
Proof. destruct pr as [a c]. intros H. now apply in_combine_r in H. Qed.
Lemma chain_sub t p : In p (chain t) -> In p (qubits t).
Proof.
  induction t as [|q ay az l IHl r IHr]; simpl; auto. intros [H|H]; auto. right. apply in_or_app. left. auto.
Qed.

Lemma get_sig_other q ay l r x p : ~ In p (chain l) -> ~ In p (chain r) -> get (sig q ay l r x) p = get x p.
Proof.
  intros Hl Hr. unfold sig. destruct (rz0 ay); auto. destruct (get x q); auto.
  apply get_swapall_other. intros pr Hpr. split; intros ->.
  - apply Hl. eapply in_pairs_fst; eauto.
  - apply Hr. eapply in_pairs_snd; eauto.
Qed.

Lemma swapall_upd_other ps x p v : (forall pr, In pr ps -> p <> fst pr /\ p <> snd pr) ->
  swapall ps (upd x p v) = upd (swapall ps x) p v.
Proof.
  induction ps as [|[a c] ps IH]; intros H; simpl; auto.
  destruct (H (a, c) (or_introl eq_refl)) as [Ha Hc]. simpl in Ha, Hc.
  rewrite IH by (intros pr Hpr; apply H; now right). now apply swapq_upd_other.
Qed.
Lemma sig_upd_other q ay l r x p v : p <> q -> ~ In p (chain l) -> ~ In p (chain r) ->
  sig q ay l r (upd x p v) = upd (sig q ay l r x) p v.
Proof.
  intros Hq Hl Hr. unfold sig. destruct (rz0 ay); auto. rewrite get_upd_other by auto.
  destruct (get x q); auto. apply swapall_upd_other. intros pr Hpr. split; intros ->.
  - apply Hl. eapply in_pairs_fst; eauto.
  - apply Hr. eapply in_pairs_snd; eauto.
Qed.

(* F t only reads the qubits of t *)
Lemma F_indep t : forall p, ~ In p (qubits t) -> indepq p (F t).
Proof.
  induction t as [|q ay az l IHl r IHr]; intros p Hp b v. reflexivity.
  cbn [qubits] in Hp. cbn [F].
  assert (Hq : p <> q) by (intro E; apply Hp; left; auto).
  assert (Hl : ~ In p (qubits l)) by (intro I; apply Hp; right; apply in_or_app; now left).
  assert (Hr : ~ In p (qubits r)) by (intro I; apply Hp; right; apply in_or_app; now right).
  rewrite sig_upd_other by (auto; intro I; first [apply Hl; now apply chain_sub | apply Hr; now apply chain_sub]).
  rewrite get_upd_other by auto. rewrite (IHl p Hl), (IHr p Hr). reflexivity.
Qed.

(* a function that ignores the qubits of qs takes the same value on assignments that agree elsewhere *)
Lemma indeps_agree {A} qs (beta : asg -> A) : indeps qs beta ->
  forall x y, (forall p, ~ In p qs -> get y p = get x p) -> beta y = beta x.
Proof.
  induction qs as [|a r IH]; intros Hb x y H.
  - f_equal. apply asg_ext. intros p. apply H. auto.
  - assert (Hr : indeps r beta) by (intros p Hp; apply Hb; now right).
    rewrite <- (Hb a (or_introl eq_refl) x (get y a)).
    apply (IH Hr). intros p Hp. destruct (Nat.eq_dec p a) as [->|Hpa].
    + now rewrite get_upd_same.
    + rewrite get_upd_other by auto. apply H. intros [E|I]; [congruence|auto].
Qed.

(* ---------- zero indicators ---------- *)
Definition Zq (qs : list nat) (x : asg) : C := if forallb (fun q => negb (get x q)) qs then RtoC 1 else RtoC 0.
Lemma Zq_nil x : Zq [] x = RtoC 1. Proof. reflexivity. Qed.
Lemma Zq_cons q qs x : Zq (q :: qs) x = (Zq [q] x * Zq qs x)%C.
Proof. unfold Zq. simpl. destruct (get x q); simpl; [|destruct (forallb _ qs)]; ring. Qed.
Lemma Zq_app l1 l2 x : Zq (l1 ++ l2) x = (Zq l1 x * Zq l2 x)%C.
Proof.
  unfold Zq. rewrite forallb_app. destruct (forallb _ l1); destruct (forallb _ l2); simpl; ring.
Qed.
Lemma Zq_indep qs p : ~ In p qs -> indepq p (Zq qs).
Proof.
  intros Hp b v. unfold Zq.
  assert (E : forallb (fun q => negb (get (upd b p v) q)) qs = forallb (fun q => negb (get b q)) qs).
  { induction qs as [|a r IH]; auto. simpl. rewrite get_upd_other by (intro E; apply Hp; left; auto).
    f_equal. apply IH. intro I. apply Hp. now right. }
  now rewrite E.
Qed.

(* ---------- rotations on a fresh qubit ---------- *)
Lemma app1_fresh M q (gam : state) : indepq q gam ->
  app1 M q (fun b => (Zq [q] b * gam b)%C) = fun b => (mget M (get b q) false * gam b)%C.
Proof.
  intros Hg. apply functional_extensionality; intros b. unfold app1, Zq. simpl.
  rewrite !get_upd_same, !Hg. simpl. ring.
Qed.
Lemma app1_col M N q (gam : state) : indepq q gam ->
  app1 M q (fun b => (mget N (get b q) false * gam b)%C) = fun b => (mget (mmul M N) (get b q) false * gam b)%C.
Proof.
  intros Hg. apply functional_extensionality; intros b. unfold app1. rewrite !get_upd_same, !Hg.
  destruct (get b q); simpl; ring.
Qed.
Lemma Zq1_col q b : Zq [q] b = mget I2 (get b q) false.
Proof. unfold Zq. simpl. destruct (get b q); reflexivity. Qed.

Lemma rz0_true x : rz0 x = true -> x = 0%R.
Proof. unfold rz0. destruct (Req_EM_T x 0); auto. discriminate. Qed.

Lemma rot_prep q ay az (gam : state) : indepq q gam ->
  drun ((if rz0 ay then [] else [DRY ay q]) ++ (if rz0 az then [] else [DRZ az q])) (fun b => (Zq [q] b * gam b)%C)
  = fun b => (phi ay az (get b q) * gam b)%C.
Proof.
  intros Hg. unfold phi. rewrite drun_app.
  assert (A : drun (if rz0 ay then [] else [DRY ay q]) (fun b => (Zq [q] b * gam b)%C)
              = fun b => (mget (RYm ay) (get b q) false * gam b)%C).
  { destruct (rz0 ay) eqn:E.
    - apply rz0_true in E. subst. rewrite (Rm_0 RotY : RYm 0 = I2). simpl.
      apply functional_extensionality; intros b. now rewrite Zq1_col.
    - simpl. now apply app1_fresh. }
  rewrite A. destruct (rz0 az) eqn:E.
  - apply rz0_true in E. subst. rewrite (Rm_0 RotZ : RZm 0 = I2), mmul_I2_l. reflexivity.
  - simpl. now apply app1_col.
Qed.

(* ---------- controlled swaps ---------- *)
Lemma drun_cswaps q ps psi :
  drun (map (fun p => DCSWAP q (fst p) (snd p)) ps) psi
  = fun x => psi (fold_right (fun p acc => cswapq q (fst p) (snd p) acc) x ps).
Proof.
  revert psi. induction ps as [|[a c] ps IH]; intros psi. reflexivity.
  cbn [map drun fold_left]. change (fold_left (fun s g => dapp g s) ?l ?s) with (drun l s).
  rewrite IH. reflexivity.
Qed.
Lemma csw_fold q ps x : (forall pr, In pr ps -> q <> fst pr /\ q <> snd pr) ->
  fold_right (fun p acc => cswapq q (fst p) (snd p) acc) x ps = if get x q then swapall ps x else x.
Proof.
  induction ps as [|[a c] ps IH]; intros H; simpl. now destruct (get x q).
  destruct (H (a, c) (or_introl eq_refl)) as [Ha Hc]. simpl in Ha, Hc.
  rewrite IH by (intros pr Hpr; apply H; now right). unfold cswapq.
  destruct (get x q) eqn:E.
  - rewrite get_swapall_other, E; auto. intros pr Hpr. apply H. now right.
  - now rewrite E.
Qed.

Lemma nd_app_l {A} (l m : list A) : NoDup (l ++ m) -> NoDup l.
Proof. induction l as [|a l IH]; simpl; intros H. constructor. inversion H; subst. constructor; auto. intro I. apply H2. apply in_or_app. now left. Qed.
Lemma nd_app_r {A} (l m : list A) : NoDup (l ++ m) -> NoDup m.
Proof. induction l as [|a l IH]; simpl; intros H; auto. inversion H; auto. Qed.
Lemma nd_app_disj {A} (l m : list A) x : NoDup (l ++ m) -> In x l -> In x m -> False.
Proof.
  induction l as [|a l IH]; simpl; intros H Hl Hm. destruct Hl. inversion H; subst.
  destruct Hl as [->|Hl]. apply H2. apply in_or_app. now right. eauto.
Qed.

(* ---------- frame lemma: the circuit of t, run on |0> of its qubits times anything else, yields F t times that ---------- *)
Theorem bottom_up_frame : forall t (beta : state), NoDup (qubits t) -> indeps (qubits t) beta ->
  drun (bottom_up t) (fun b => (Zq (qubits t) b * beta b)%C) = fun b => (F t b * beta b)%C.
Proof.
  induction t as [|q ay az l IHl r IHr]; intros beta Hn Hb.
  - simpl. apply functional_extensionality; intros b. rewrite Zq_nil. reflexivity.
  - cbn [qubits] in Hn, Hb. cbn [bottom_up qubits].
    inversion Hn as [|? ? Hq Hlr]; subst.
    assert (Nl : NoDup (qubits l)) by (eapply nd_app_l; eauto).
    assert (Nr : NoDup (qubits r)) by (eapply nd_app_r; eauto).
    assert (Hql : ~ In q (qubits l)) by (intro I; apply Hq; apply in_or_app; now left).
    assert (Hqr : ~ In q (qubits r)) by (intro I; apply Hq; apply in_or_app; now right).
    assert (Dlr : forall p, In p (qubits l) -> In p (qubits r) -> False) by (intros p; apply nd_app_disj; auto).
    assert (Bq : indepq q beta) by (apply Hb; now left).
    assert (Bl : indeps (qubits l) beta) by (intros p Hp; apply Hb; right; apply in_or_app; now left).
    assert (Br : indeps (qubits r) beta) by (intros p Hp; apply Hb; right; apply in_or_app; now right).
    rewrite app_assoc, drun_app.
    (* rotations *)
    assert (S0 : (fun b => (Zq (q :: qubits l ++ qubits r) b * beta b)%C)
                 = (fun b => (Zq [q] b * (Zq (qubits l) b * Zq (qubits r) b * beta b))%C)).
    { apply functional_extensionality; intros b. rewrite Zq_cons, Zq_app. ring. }
    rewrite S0, rot_prep.
    2:{ intros b v. rewrite (Zq_indep (qubits l) q Hql), (Zq_indep (qubits r) q Hqr), Bq. reflexivity. }
    (* left subtree *)
    rewrite drun_app.
    assert (S1 : (fun b => (phi ay az (get b q) * (Zq (qubits l) b * Zq (qubits r) b * beta b))%C)
                 = (fun b => (Zq (qubits l) b * (phi ay az (get b q) * Zq (qubits r) b * beta b))%C)).
    { apply functional_extensionality; intros b. ring. }
    rewrite S1, (IHl _ Nl).
    2:{ intros p Hp b v. rewrite get_upd_other by (intro E; subst; auto).
        rewrite (Zq_indep (qubits r) p) by (intro I; eapply Dlr; eauto). now rewrite (Bl p Hp). }
    (* right subtree *)
    rewrite drun_app.
    assert (S2 : (fun b => (F l b * (phi ay az (get b q) * Zq (qubits r) b * beta b))%C)
                 = (fun b => (Zq (qubits r) b * (phi ay az (get b q) * F l b * beta b))%C)).
    { apply functional_extensionality; intros b. ring. }
    rewrite S2, (IHr _ Nr).
    2:{ intros p Hp b v. rewrite get_upd_other by (intro E; subst; auto).
        rewrite (F_indep l p) by (intro I; eapply Dlr; eauto). now rewrite (Br p Hp). }
    (* controlled swaps *)
    apply functional_extensionality; intros x. cbn [F].
    assert (Hsig : forall p, ~ In p (q :: qubits l ++ qubits r) -> get (sig q ay l r x) p = get x p).
    { intros p Hp. apply get_sig_other; intro I; apply Hp; right; apply in_or_app; [left|right]; now apply chain_sub. }
    assert (Hbeta : beta (sig q ay l r x) = beta x) by (apply (indeps_agree _ beta Hb); exact Hsig).
    unfold sig in *. destruct (rz0 ay) eqn:E.
    + simpl. ring.
    + unfold cswaps. rewrite drun_cswaps, csw_fold.
      2:{ intros pr Hpr. split; intros ->; [apply Hql | apply Hqr]; apply chain_sub;
          [eapply in_pairs_fst | eapply in_pairs_snd]; eauto. }
      destruct (get x q) eqn:G.
      * rewrite Hbeta. ring.
      * rewrite G. ring.
Qed.
