(* C11: the bottom-up (divide-and-conquer) part of the ancilla-tree preparations.  Model of tree_walk.bottom_up on an angle
   tree whose nodes carry their qubit, semantics of ry / rz / cswap, and the denotation F t of the circuit of a subtree:
   run from |0..0>, the circuit yields  F t  on the qubits of t (frame lemma [bottom_up_frame]). *)
From Coq Require Import Reals Lra List Bool Arith Lia NArith FunctionalExtensionality Permutation.
From Coquelicot Require Import Complex.
From QV Require Import Sem Mat2 Toff2 Chain Vchain Cvoqram SumQ.
Import ListNotations.
Open Scope nat_scope.

Inductive dgate := DRY (th : R) (q : nat) | DRZ (th : R) (q : nat) | DCSWAP (c a b : nat) | DEnt (e : ent) (c t : nat).
(* ASub qs c : a sub-register qs prepared from |0..0> by the circuit c (the top-down sub-circuits of the bidirectional variant) *)
Inductive atree := ALeaf | ANode (q : nat) (ay az : R) (l r : atree) | ASub (qs : list nat) (c : list dgate).
Fixpoint qubits (t : atree) : list nat := match t with ALeaf => [] | ANode q _ _ l r => q :: qubits l ++ qubits r | ASub qs _ => qs end.
Fixpoint chain (t : atree) : list nat := match t with ALeaf => [] | ANode q _ _ l _ => q :: chain l | ASub qs _ => qs end.
Fixpoint rest (t : atree) : list nat := match t with ALeaf => [] | ANode _ _ _ l r => rest l ++ qubits r | ASub _ _ => [] end.
Fixpoint balanced (d : nat) (t : atree) {struct t} : Prop :=
  match t with
  | ALeaf => d = 0
  | ANode _ _ _ l r => match d with O => False | S d' => balanced d' l /\ balanced d' r end
  | ASub qs _ => length qs = d
  end.

Definition cswapq (c a b : nat) (x : asg) : asg := if get x c then swapq a b x else x.
Definition dapp (g : dgate) (psi : state) : state :=
  match g with
  | DRY th q => app1 (RYm th) q psi
  | DRZ th q => app1 (RZm th) q psi
  | DCSWAP c a b => fun x => psi (cswapq c a b x)
  | DEnt e c t => fun b => if get b c then app1 (Em e) t psi b else psi b
  end.
Definition drun (c : list dgate) (psi : state) : state := fold_left (fun s g => dapp g s) c psi.
Lemma drun_app c1 c2 psi : drun (c1 ++ c2) psi = drun c2 (drun c1 psi).
Proof. unfold drun. now rewrite fold_left_app. Qed.

Definition rz0 (x : R) : bool := if Req_EM_T x 0 then true else false.
Definition pairs (l r : atree) : list (nat * nat) := combine (chain l) (chain r).
Definition cswaps (q : nat) (l r : atree) : list dgate := map (fun p => DCSWAP q (fst p) (snd p)) (pairs l r).
Fixpoint bottom_up (t : atree) : list dgate :=
  match t with
  | ANode q ay az l r =>
      (if rz0 ay then [] else [DRY ay q]) ++ (if rz0 az then [] else [DRZ az q])
      ++ bottom_up l ++ bottom_up r ++ (if rz0 ay then [] else cswaps q l r)
  | _ => []
  end.
(* the sub-circuits, in tree order (tree_walk.top_down emits them first) *)
Fixpoint subs (t : atree) : list dgate :=
  match t with ALeaf => [] | ANode _ _ _ l r => subs l ++ subs r | ASub _ c => c end.
Definition bdsp_gates (t : atree) : list dgate := subs t ++ bottom_up t.

(* ---------- zero indicators ---------- *)
Definition Zq (qs : list nat) (x : asg) : C := if forallb (fun q => negb (get x q)) qs then RtoC 1 else RtoC 0.
Lemma Zq_nil x : Zq [] x = RtoC 1. Proof. reflexivity. Qed.
Lemma Zq_cons q qs x : Zq (q :: qs) x = (Zq [q] x * Zq qs x)%C.
Proof. unfold Zq. simpl. destruct (get x q); simpl; [|destruct (forallb _ qs)]; ring. Qed.
Lemma Zq_app l1 l2 x : Zq (l1 ++ l2) x = (Zq l1 x * Zq l2 x)%C.
Proof.
  unfold Zq. rewrite forallb_app. destruct (forallb _ l1); destruct (forallb _ l2); simpl; ring.
Qed.
Lemma Zq_indep qs p : ~ In p qs -> indepq p (Zq qs).
Proof.
  intros Hp b v. unfold Zq.
  assert (E : forallb (fun q => negb (get (upd b p v) q)) qs = forallb (fun q => negb (get b q)) qs).
  { induction qs as [|a r IH]; auto. simpl. rewrite get_upd_other by (intro E; apply Hp; left; auto).
    f_equal. apply IH. intro I. apply Hp. now right. }
  now rewrite E.
Qed.

(* ---------- denotation ---------- *)
Definition phi (ay az : R) (v : bool) : C := mget (mmul (RZm az) (RYm ay)) v false.
Definition swapall (ps : list (nat * nat)) (x : asg) : asg := fold_right (fun p acc => swapq (fst p) (snd p) acc) x ps.
Definition sig (q : nat) (ay : R) (l r : atree) (x : asg) : asg :=
  if rz0 ay then x else if get x q then swapall (pairs l r) x else x.
Fixpoint F (t : atree) (x : asg) : C :=
  match t with
  | ALeaf => RtoC 1
  | ANode q ay az l r => (phi ay az (get (sig q ay l r x) q) * F l (sig q ay l r x) * F r (sig q ay l r x))%C
  | ASub qs c => drun c (Zq qs) x
  end.

(* ---------- local circuits ---------- *)
Definition gq (g : dgate) : list nat :=
  match g with DRY _ q | DRZ _ q => [q] | DCSWAP c a b => [c; a; b] | DEnt _ c t => [c; t] end.
Definition glocal (qs : list nat) (g : dgate) : Prop := forall p, In p (gq g) -> In p qs.
Fixpoint wfsub (t : atree) : Prop :=
  match t with ALeaf => True | ANode _ _ _ l r => wfsub l /\ wfsub r | ASub qs c => Forall (glocal qs) c end.

(* ---------- bit-level facts about the swaps ---------- *)
Lemma swapq_same a x : swapq a a x = x.
Proof. unfold swapq. rewrite upd_upd. apply upd_get. Qed.
Lemma get_swapq_other a c x p : p <> a -> p <> c -> get (swapq a c x) p = get x p.
Proof. intros Ha Hc. unfold swapq. now rewrite !get_upd_other by auto. Qed.
Lemma get_swapall_other ps x p : (forall pr, In pr ps -> p <> fst pr /\ p <> snd pr) -> get (swapall ps x) p = get x p.
Proof.
  induction ps as [|[a c] ps IH]; intros H; simpl; auto.
  destruct (H (a, c) (or_introl eq_refl)) as [Ha Hc]. simpl in Ha, Hc.
  rewrite get_swapq_other by auto. apply IH. intros pr Hpr. apply H. now right.
Qed.

Lemma in_pairs_fst l r pr : In pr (pairs l r) -> In (fst pr) (chain l).
Proof. destruct pr as [a c]. intros H. now apply in_combine_l in H. Qed.
Lemma in_pairs_snd l r pr : In pr (pairs l r) -> In (snd pr) (chain r).
Proof. destruct pr as [a c]. intros H. now apply in_combine_r in H. Qed.
Lemma chain_sub t p : In p (chain t) -> In p (qubits t).
Proof.
  induction t as [|q ay az l IHl r IHr|qs c]; simpl; auto. intros [H|H]; auto. right. apply in_or_app. left. auto.
Qed.

Lemma get_sig_other q ay l r x p : ~ In p (chain l) -> ~ In p (chain r) -> get (sig q ay l r x) p = get x p.
Proof.
  intros Hl Hr. unfold sig. destruct (rz0 ay); auto. destruct (get x q); auto.
  apply get_swapall_other. intros pr Hpr. split; intros ->.
  - apply Hl. eapply in_pairs_fst; eauto.
  - apply Hr. eapply in_pairs_snd; eauto.
Qed.

Lemma swapall_upd_other ps x p v : (forall pr, In pr ps -> p <> fst pr /\ p <> snd pr) ->
  swapall ps (upd x p v) = upd (swapall ps x) p v.
Proof.
  induction ps as [|[a c] ps IH]; intros H; simpl; auto.
  destruct (H (a, c) (or_introl eq_refl)) as [Ha Hc]. simpl in Ha, Hc.
  rewrite IH by (intros pr Hpr; apply H; now right). now apply swapq_upd_other.
Qed.
Lemma sig_upd_other q ay l r x p v : p <> q -> ~ In p (chain l) -> ~ In p (chain r) ->
  sig q ay l r (upd x p v) = upd (sig q ay l r x) p v.
Proof.
  intros Hq Hl Hr. unfold sig. destruct (rz0 ay); auto. rewrite get_upd_other by auto.
  destruct (get x q); auto. apply swapall_upd_other. intros pr Hpr. split; intros ->.
  - apply Hl. eapply in_pairs_fst; eauto.
  - apply Hr. eapply in_pairs_snd; eauto.
Qed.

(* local gates leave alone what does not depend on their qubits *)
Lemma cswapq_get_other c a b x p : p <> a -> p <> b -> get (cswapq c a b x) p = get x p.
Proof. intros Ha Hb. unfold cswapq. destruct (get x c); auto. now apply get_swapq_other. Qed.
Lemma cswapq_upd_other c a b x p v : p <> c -> p <> a -> p <> b -> cswapq c a b (upd x p v) = upd (cswapq c a b x) p v.
Proof.
  intros Hc Ha Hb. unfold cswapq. rewrite get_upd_other by auto. destruct (get x c); auto. now apply swapq_upd_other.
Qed.
Lemma dapp_indep g (al : state) p : ~ In p (gq g) -> indepq p al -> indepq p (dapp g al).
Proof.
  intros Hp Ha b v. destruct g as [th q|th q|c a b'|e c t]; cbn [gq dapp] in *.
  - assert (q <> p) by (intro E; apply Hp; subst; simpl; auto).
    unfold app1. rewrite get_upd_other by auto. rewrite !(upd_comm b p v q) by auto. now rewrite !Ha.
  - assert (q <> p) by (intro E; apply Hp; subst; simpl; auto).
    unfold app1. rewrite get_upd_other by auto. rewrite !(upd_comm b p v q) by auto. now rewrite !Ha.
  - assert (p <> c) by (intro E; apply Hp; subst; simpl; auto).
    assert (p <> a) by (intro E; apply Hp; subst; simpl; auto).
    assert (p <> b') by (intro E; apply Hp; subst; simpl; auto).
    rewrite cswapq_upd_other by auto. apply Ha.
  - assert (c <> p) by (intro E; apply Hp; subst; simpl; auto).
    assert (t <> p) by (intro E; apply Hp; subst; simpl; auto).
    rewrite get_upd_other by auto.
    unfold app1. rewrite get_upd_other by auto. rewrite !(upd_comm b p v t) by auto. now rewrite !Ha.
Qed.
Lemma drun_indep c (al : state) p : (forall g, In g c -> ~ In p (gq g)) -> indepq p al -> indepq p (drun c al).
Proof.
  revert al. induction c as [|g c IH]; intros al H Ha. exact Ha.
  cbn [drun fold_left]. change (fold_left (fun s g => dapp g s) ?l ?s) with (drun l s).
  apply IH. intros g' Hg'. apply H. now right. apply dapp_indep; auto. apply H. now left.
Qed.

(* F t only reads the qubits of t *)
Lemma F_indep t : wfsub t -> forall p, ~ In p (qubits t) -> indepq p (F t).
Proof.
  induction t as [|q ay az l IHl r IHr|qs c]; intros W p Hp b v. reflexivity.
  - destruct W as [Wl Wr]. cbn [qubits] in Hp. cbn [F].
    assert (Hq : p <> q) by (intro E; apply Hp; left; auto).
    assert (Hl : ~ In p (qubits l)) by (intro I; apply Hp; right; apply in_or_app; now left).
    assert (Hr : ~ In p (qubits r)) by (intro I; apply Hp; right; apply in_or_app; now right).
    rewrite sig_upd_other by (auto; intro I; first [apply Hl; now apply chain_sub | apply Hr; now apply chain_sub]).
    rewrite get_upd_other by auto. rewrite (IHl Wl p Hl), (IHr Wr p Hr). reflexivity.
  - cbn [F qubits] in *. apply drun_indep.
    + intros g Hg I. apply Hp. simpl in W. rewrite Forall_forall in W. now apply (W g Hg).
    + now apply Zq_indep.
Qed.

(* a function that ignores the qubits of qs takes the same value on assignments that agree elsewhere *)
Lemma indeps_agree {A} qs (beta : asg -> A) : indeps qs beta ->
  forall x y, (forall p, ~ In p qs -> get y p = get x p) -> beta y = beta x.
Proof.
  induction qs as [|a r IH]; intros Hb x y H.
  - f_equal. apply asg_ext. intros p. apply H. auto.
  - assert (Hr : indeps r beta) by (intros p Hp; apply Hb; now right).
    rewrite <- (Hb a (or_introl eq_refl) x (get y a)).
    apply (IH Hr). intros p Hp. destruct (Nat.eq_dec p a) as [->|Hpa].
    + now rewrite get_upd_same.
    + rewrite get_upd_other by auto. apply H. intros [E|I]; [congruence|auto].
Qed.

(* ---------- rotations on a fresh qubit ---------- *)
Lemma app1_fresh M q (gam : state) : indepq q gam ->
  app1 M q (fun b => (Zq [q] b * gam b)%C) = fun b => (mget M (get b q) false * gam b)%C.
Proof.
  intros Hg. apply functional_extensionality; intros b. unfold app1, Zq. simpl.
  rewrite !get_upd_same, !Hg. simpl. ring.
Qed.
Lemma app1_col M N q (gam : state) : indepq q gam ->
  app1 M q (fun b => (mget N (get b q) false * gam b)%C) = fun b => (mget (mmul M N) (get b q) false * gam b)%C.
Proof.
  intros Hg. apply functional_extensionality; intros b. unfold app1. rewrite !get_upd_same, !Hg.
  destruct (get b q); simpl; ring.
Qed.
Lemma Zq1_col q b : Zq [q] b = mget I2 (get b q) false.
Proof. unfold Zq. simpl. destruct (get b q); reflexivity. Qed.

Lemma rz0_true x : rz0 x = true -> x = 0%R.
Proof. unfold rz0. destruct (Req_EM_T x 0); auto. discriminate. Qed.

Lemma rot_prep q ay az (gam : state) : indepq q gam ->
  drun ((if rz0 ay then [] else [DRY ay q]) ++ (if rz0 az then [] else [DRZ az q])) (fun b => (Zq [q] b * gam b)%C)
  = fun b => (phi ay az (get b q) * gam b)%C.
Proof.
  intros Hg. unfold phi. rewrite drun_app.
  assert (A : drun (if rz0 ay then [] else [DRY ay q]) (fun b => (Zq [q] b * gam b)%C)
              = fun b => (mget (RYm ay) (get b q) false * gam b)%C).
  { destruct (rz0 ay) eqn:E.
    - apply rz0_true in E. subst. rewrite (Rm_0 RotY : RYm 0 = I2). simpl.
      apply functional_extensionality; intros b. now rewrite Zq1_col.
    - simpl. now apply app1_fresh. }
  rewrite A. destruct (rz0 az) eqn:E.
  - apply rz0_true in E. subst. rewrite (Rm_0 RotZ : RZm 0 = I2), mmul_I2_l. reflexivity.
  - simpl. now apply app1_col.
Qed.

(* ---------- controlled swaps ---------- *)
Lemma drun_cswaps q ps psi :
  drun (map (fun p => DCSWAP q (fst p) (snd p)) ps) psi
  = fun x => psi (fold_right (fun p acc => cswapq q (fst p) (snd p) acc) x ps).
Proof.
  revert psi. induction ps as [|[a c] ps IH]; intros psi. reflexivity.
  cbn [map drun fold_left]. change (fold_left (fun s g => dapp g s) ?l ?s) with (drun l s).
  rewrite IH. reflexivity.
Qed.
Lemma csw_fold q ps x : (forall pr, In pr ps -> q <> fst pr /\ q <> snd pr) ->
  fold_right (fun p acc => cswapq q (fst p) (snd p) acc) x ps = if get x q then swapall ps x else x.
Proof.
  induction ps as [|[a c] ps IH]; intros H; simpl. now destruct (get x q).
  destruct (H (a, c) (or_introl eq_refl)) as [Ha Hc]. simpl in Ha, Hc.
  rewrite IH by (intros pr Hpr; apply H; now right). unfold cswapq.
  destruct (get x q) eqn:E.
  - rewrite get_swapall_other, E; auto. intros pr Hpr. apply H. now right.
  - now rewrite E.
Qed.

Lemma nd_app_l {A} (l m : list A) : NoDup (l ++ m) -> NoDup l.
Proof. induction l as [|a l IH]; simpl; intros H. constructor. inversion H; subst. constructor; auto. intro I. apply H2. apply in_or_app. now left. Qed.
Lemma nd_app_r {A} (l m : list A) : NoDup (l ++ m) -> NoDup m.
Proof. induction l as [|a l IH]; simpl; intros H; auto. inversion H; auto. Qed.
Lemma nd_app_disj {A} (l m : list A) x : NoDup (l ++ m) -> In x l -> In x m -> False.
Proof.
  induction l as [|a l IH]; simpl; intros H Hl Hm. destruct Hl. inversion H; subst.
  destruct Hl as [->|Hl]. apply H2. apply in_or_app. now right. eauto.
Qed.

(* ---------- local circuits act on their factor only ---------- *)
Lemma cswapq_agree (beta : state) qs c a b x : In a qs -> In b qs -> indeps qs beta -> beta (cswapq c a b x) = beta x.
Proof.
  intros Ha Hb Hi. apply (indeps_agree qs beta Hi). intros p Hp.
  apply cswapq_get_other; intros ->; auto.
Qed.
Lemma dapp_frame g qs (al beta : state) : glocal qs g -> indeps qs beta ->
  dapp g (fun b => (al b * beta b)%C) = fun b => (dapp g al b * beta b)%C.
Proof.
  intros Hl Hb. apply functional_extensionality; intros x.
  destruct g as [th q|th q|c a b'|e c t]; cbn [dapp].
  - assert (Bq : indepq q beta) by (apply Hb, Hl; simpl; auto). unfold app1. rewrite !Bq. ring.
  - assert (Bq : indepq q beta) by (apply Hb, Hl; simpl; auto). unfold app1. rewrite !Bq. ring.
  - rewrite (cswapq_agree beta qs); auto; apply Hl; simpl; auto.
  - assert (Bt : indepq t beta) by (apply Hb, Hl; simpl; auto). destruct (get x c); auto. unfold app1. rewrite !Bt. ring.
Qed.
Lemma drun_frame c qs : Forall (glocal qs) c -> forall (al beta : state), indeps qs beta ->
  drun c (fun b => (al b * beta b)%C) = fun b => (drun c al b * beta b)%C.
Proof.
  induction c as [|g c IH]; intros W al beta Hb. reflexivity.
  inversion W; subst. cbn [drun fold_left]. change (fold_left (fun s g => dapp g s) ?l ?s) with (drun l s).
  rewrite (dapp_frame g qs) by auto. now apply IH.
Qed.

(* ---------- the state after the sub-circuits, before the bottom-up part ---------- *)
Fixpoint pre (t : atree) (x : asg) : C :=
  match t with
  | ALeaf => RtoC 1
  | ANode q _ _ l r => (Zq [q] x * pre l x * pre r x)%C
  | ASub qs c => drun c (Zq qs) x
  end.
Lemma pre_indep t : wfsub t -> forall p, ~ In p (qubits t) -> indepq p (pre t).
Proof.
  induction t as [|q ay az l IHl r IHr|qs c]; intros W p Hp b v. reflexivity.
  - destruct W as [Wl Wr]. cbn [qubits] in Hp. cbn [pre].
    rewrite (Zq_indep [q] p) by (intros [E|[]]; apply Hp; left; auto).
    rewrite (IHl Wl p), (IHr Wr p); auto; intro I; apply Hp; right; apply in_or_app; [now right | now left].
  - exact (F_indep (ASub qs c) W p Hp b v).
Qed.

Theorem subs_frame : forall t (beta : state), wfsub t -> NoDup (qubits t) -> indeps (qubits t) beta ->
  drun (subs t) (fun b => (Zq (qubits t) b * beta b)%C) = fun b => (pre t b * beta b)%C.
Proof.
  induction t as [|q ay az l IHl r IHr|qs c]; intros beta W Hn Hb.
  - simpl. apply functional_extensionality; intros b. rewrite Zq_nil. reflexivity.
  - destruct W as [Wl Wr]. cbn [qubits] in Hn, Hb. cbn [subs qubits pre].
    inversion Hn as [|? ? Hq Hlr]; subst.
    assert (Nl : NoDup (qubits l)) by (eapply nd_app_l; eauto).
    assert (Nr : NoDup (qubits r)) by (eapply nd_app_r; eauto).
    assert (Hql : ~ In q (qubits l)) by (intro I; apply Hq; apply in_or_app; now left).
    assert (Hqr : ~ In q (qubits r)) by (intro I; apply Hq; apply in_or_app; now right).
    assert (Dlr : forall p, In p (qubits l) -> In p (qubits r) -> False) by (intros p; apply nd_app_disj; auto).
    assert (Bl : indeps (qubits l) beta) by (intros p Hp; apply Hb; right; apply in_or_app; now left).
    assert (Br : indeps (qubits r) beta) by (intros p Hp; apply Hb; right; apply in_or_app; now right).
    rewrite drun_app.
    assert (S1 : (fun b => (Zq (q :: qubits l ++ qubits r) b * beta b)%C)
                 = (fun b => (Zq (qubits l) b * (Zq [q] b * Zq (qubits r) b * beta b))%C)).
    { apply functional_extensionality; intros b. rewrite Zq_cons, Zq_app. ring. }
    rewrite S1, (IHl _ Wl Nl).
    2:{ intros p Hp b v. rewrite (Zq_indep [q] p) by (intros [E|[]]; subst; auto).
        rewrite (Zq_indep (qubits r) p) by (intro I; eapply Dlr; eauto). now rewrite (Bl p Hp). }
    assert (S2 : (fun b => (pre l b * (Zq [q] b * Zq (qubits r) b * beta b))%C)
                 = (fun b => (Zq (qubits r) b * (Zq [q] b * pre l b * beta b))%C)).
    { apply functional_extensionality; intros b. ring. }
    rewrite S2, (IHr _ Wr Nr).
    2:{ intros p Hp b v. rewrite (Zq_indep [q] p) by (intros [E|[]]; subst; auto).
        rewrite (pre_indep l Wl p) by (intro I; eapply Dlr; eauto). now rewrite (Br p Hp). }
    apply functional_extensionality; intros b. ring.
  - cbn [subs qubits pre] in *. now apply (drun_frame c qs).
Qed.

(* ---------- frame lemma for the bottom-up part ---------- *)
Theorem bottom_up_frame : forall t (beta : state), wfsub t -> NoDup (qubits t) -> indeps (qubits t) beta ->
  drun (bottom_up t) (fun b => (pre t b * beta b)%C) = fun b => (F t b * beta b)%C.
Proof.
  induction t as [|q ay az l IHl r IHr|qs c]; intros beta W Hn Hb.
  - reflexivity.
  - destruct W as [Wl Wr]. cbn [qubits] in Hn, Hb. cbn [bottom_up qubits pre].
    inversion Hn as [|? ? Hq Hlr]; subst.
    assert (Nl : NoDup (qubits l)) by (eapply nd_app_l; eauto).
    assert (Nr : NoDup (qubits r)) by (eapply nd_app_r; eauto).
    assert (Hql : ~ In q (qubits l)) by (intro I; apply Hq; apply in_or_app; now left).
    assert (Hqr : ~ In q (qubits r)) by (intro I; apply Hq; apply in_or_app; now right).
    assert (Dlr : forall p, In p (qubits l) -> In p (qubits r) -> False) by (intros p; apply nd_app_disj; auto).
    assert (Bq : indepq q beta) by (apply Hb; now left).
    assert (Bl : indeps (qubits l) beta) by (intros p Hp; apply Hb; right; apply in_or_app; now left).
    assert (Br : indeps (qubits r) beta) by (intros p Hp; apply Hb; right; apply in_or_app; now right).
    rewrite app_assoc, drun_app.
    (* rotations *)
    assert (S0 : (fun b => (Zq [q] b * pre l b * pre r b * beta b)%C)
                 = (fun b => (Zq [q] b * (pre l b * pre r b * beta b))%C)).
    { apply functional_extensionality; intros b. ring. }
    rewrite S0, rot_prep.
    2:{ intros b v. rewrite (pre_indep l Wl q Hql), (pre_indep r Wr q Hqr), Bq. reflexivity. }
    (* left subtree *)
    rewrite drun_app.
    assert (S1 : (fun b => (phi ay az (get b q) * (pre l b * pre r b * beta b))%C)
                 = (fun b => (pre l b * (phi ay az (get b q) * pre r b * beta b))%C)).
    { apply functional_extensionality; intros b. ring. }
    rewrite S1, (IHl _ Wl Nl).
    2:{ intros p Hp b v. rewrite get_upd_other by (intro E; subst; auto).
        rewrite (pre_indep r Wr p) by (intro I; eapply Dlr; eauto). now rewrite (Bl p Hp). }
    (* right subtree *)
    rewrite drun_app.
    assert (S2 : (fun b => (F l b * (phi ay az (get b q) * pre r b * beta b))%C)
                 = (fun b => (pre r b * (phi ay az (get b q) * F l b * beta b))%C)).
    { apply functional_extensionality; intros b. ring. }
    rewrite S2, (IHr _ Wr Nr).
    2:{ intros p Hp b v. rewrite get_upd_other by (intro E; subst; auto).
        rewrite (F_indep l Wl p) by (intro I; eapply Dlr; eauto). now rewrite (Br p Hp). }
    (* controlled swaps *)
    apply functional_extensionality; intros x. cbn [F].
    assert (Hsig : forall p, ~ In p (q :: qubits l ++ qubits r) -> get (sig q ay l r x) p = get x p).
    { intros p Hp. apply get_sig_other; intro I; apply Hp; right; apply in_or_app; [left|right]; now apply chain_sub. }
    assert (Hbeta : beta (sig q ay l r x) = beta x) by (apply (indeps_agree _ beta Hb); exact Hsig).
    unfold sig in *. destruct (rz0 ay) eqn:E.
    + simpl. ring.
    + unfold cswaps. rewrite drun_cswaps, csw_fold.
      2:{ intros pr Hpr. split; intros ->; [apply Hql | apply Hqr]; apply chain_sub;
          [eapply in_pairs_fst | eapply in_pairs_snd]; eauto. }
      destruct (get x q) eqn:G.
      * rewrite Hbeta. ring.
      * rewrite G. ring.
  - reflexivity.
Qed.

Theorem bdsp_frame t (beta : state) : wfsub t -> NoDup (qubits t) -> indeps (qubits t) beta ->
  drun (bdsp_gates t) (fun b => (Zq (qubits t) b * beta b)%C) = fun b => (F t b * beta b)%C.
Proof.
  intros W Hn Hb. unfold bdsp_gates. rewrite drun_app, subs_frame by auto. now apply bottom_up_frame.
Qed.
