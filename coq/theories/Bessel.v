(* C07, optimality clause: finite-dimensional complex inner products over nat-indexed vectors - Cauchy-Schwarz and Bessel. *)
From Coq Require Import Reals Lra Lia Arith Bool.
From Coquelicot Require Import Complex.
From QV Require Import TopK.
Open Scope R_scope.

Definition Cn2 (z : C) : R := fst z * fst z + snd z * snd z.
Lemma Cn2_pos z : 0 <= Cn2 z. Proof. unfold Cn2. nra. Qed.
Lemma Cn2_mult (a b : C) : Cn2 (a * b)%C = Cn2 a * Cn2 b. Proof. unfold Cn2. simpl. ring. Qed.
Lemma Cn2_conj z : Cn2 (Cconj z) = Cn2 z. Proof. unfold Cn2, Cconj. simpl. ring. Qed.
Lemma Cn2_RtoC x : Cn2 (RtoC x) = x * x. Proof. unfold Cn2. simpl. ring. Qed.
Lemma Cn2_zero z : Cn2 z = 0 -> z = RtoC 0.
Proof. unfold Cn2. intros H. destruct z as [a b]. simpl in *. assert (a = 0) by nra. assert (b = 0) by nra. subst. reflexivity. Qed.
Lemma conj_mul_self z : (Cconj z * z)%C = RtoC (Cn2 z).
Proof. unfold Cn2, Cconj, RtoC. destruct z as [a b]. unfold Cmult. simpl. f_equal; ring. Qed.

Fixpoint csum (f : nat -> C) (n : nat) : C := match n with O => RtoC 0 | S m => (csum f m + f m)%C end.
Lemma csum_ext f g n : (forall i, (i < n)%nat -> f i = g i) -> csum f n = csum g n.
Proof. induction n as [|n IH]; intros H; simpl; auto. rewrite IH, H by (auto; intros; apply H; lia). reflexivity. Qed.
Lemma csum_plus f g n : csum (fun i => (f i + g i)%C) n = (csum f n + csum g n)%C.
Proof. induction n as [|n IH]; simpl. now rewrite Cplus_0_l. rewrite IH. ring. Qed.
Lemma csum_scal c f n : csum (fun i => (c * f i)%C) n = (c * csum f n)%C.
Proof. induction n as [|n IH]; simpl. now rewrite Cmult_0_r. rewrite IH. ring. Qed.
Lemma csum_scal_r c f n : csum (fun i => (f i * c)%C) n = (csum f n * c)%C.
Proof. induction n as [|n IH]; simpl. now rewrite Cmult_0_l. rewrite IH. ring. Qed.
Lemma csum_zero n : csum (fun _ => RtoC 0) n = RtoC 0.
Proof. induction n as [|n IH]; simpl; auto. rewrite IH. now rewrite Cplus_0_l. Qed.
Lemma csum_swap (f : nat -> nat -> C) n m :
  csum (fun i => csum (fun j => f i j) m) n = csum (fun j => csum (fun i => f i j) n) m.
Proof.
  induction n as [|n IH]; simpl. now rewrite csum_zero.
  rewrite IH. now rewrite <- csum_plus.
Qed.
Lemma csum_conj f n : Cconj (csum f n) = csum (fun i => Cconj (f i)) n.
Proof.
  induction n as [|n IH]; simpl. unfold Cconj, RtoC. simpl. f_equal. ring.
  rewrite <- IH. unfold Cconj, Cplus. simpl. f_equal. ring.
Qed.
Lemma csum_fst f n : fst (csum f n) = rsum (fun i => fst (f i)) n.
Proof. induction n as [|n IH]; simpl; auto. now rewrite IH. Qed.
Lemma csum_delta f j n : (j < n)%nat -> csum (fun l => (f l * (if Nat.eqb j l then RtoC 1 else RtoC 0))%C) n = f j.
Proof.
  induction n as [|n IH]; intros H. lia. simpl.
  destruct (Nat.eq_dec j n) as [->|Hn].
  - rewrite Nat.eqb_refl. rewrite (csum_ext _ (fun _ => RtoC 0)).
    + rewrite csum_zero. ring.
    + intros i Hi. rewrite (proj2 (Nat.eqb_neq n i)) by lia. ring.
  - rewrite IH by lia. rewrite (proj2 (Nat.eqb_neq j n)) by auto. ring.
Qed.

Definition inner (d : nat) (x y : nat -> C) : C := csum (fun i => (Cconj (x i) * y i)%C) d.
Definition nrm2 (d : nat) (x : nat -> C) : R := rsum (fun i => Cn2 (x i)) d.
Lemma nrm2_pos d x : 0 <= nrm2 d x.
Proof. unfold nrm2. induction d as [|d IH]; simpl. lra. pose proof (Cn2_pos (x d)). lra. Qed.
Lemma inner_self d x : inner d x x = RtoC (nrm2 d x).
Proof.
  unfold inner, nrm2. induction d as [|d IH]; simpl. reflexivity.
  rewrite IH, conj_mul_self. unfold RtoC, Cplus. simpl. f_equal. ring.
Qed.
Lemma inner_conj d x y : Cconj (inner d x y) = inner d y x.
Proof.
  unfold inner. rewrite csum_conj. apply csum_ext. intros i _.
  unfold Cconj, Cmult. destruct (x i), (y i). simpl. f_equal; ring.
Qed.

(* |y - c x|^2 *)
Lemma nrm2_sub d x y c :
  nrm2 d (fun i => (y i - c * x i)%C) = nrm2 d y - 2 * fst (Cconj c * inner d x y)%C + Cn2 c * nrm2 d x.
Proof.
  unfold nrm2, inner. induction d as [|d IH]; simpl. ring.
  rewrite IH. unfold Cn2, Cconj, Cmult, Cminus, Cplus, Copp. destruct (x d) as [a b], (y d) as [p q], c as [cr ci]. simpl. ring.
Qed.

Lemma quad_bound T S q : 0 <= T -> 0 <= S -> 0 <= q -> (forall lam, 0 <= T - 2 * lam * q + lam * lam * q * S) -> q <= T * S.
Proof.
  intros HT HS Hq H. destruct (Rle_lt_or_eq_dec 0 q Hq) as [Hpos|<-]; [|nra].
  destruct (Rle_lt_or_eq_dec 0 S HS) as [Spos|<-].
  - specialize (H (/ S)). assert (E : / S * S = 1) by (apply Rinv_l; lra).
    assert (0 < / S) by (apply Rinv_0_lt_compat; lra).
    assert (H2 : 0 <= T - q * / S) by (replace (T - q * / S) with (T - 2 * / S * q + / S * / S * q * S); [exact H|]; field_simplify; try lra; field; lra).
    assert (q * / S <= T) by lra.
    replace q with ((q * / S) * S) by (field; lra). nra.
  - exfalso. specialize (H ((T + 1) / (2 * q))).
    assert (E : 2 * ((T + 1) / (2 * q)) * q = T + 1) by (field; lra). nra.
Qed.

Theorem cauchy_schwarz d x y : Cn2 (inner d x y) <= nrm2 d x * nrm2 d y.
Proof.
  rewrite Rmult_comm. apply quad_bound; try apply nrm2_pos; try apply Cn2_pos.
  intros lam. set (U := inner d x y).
  pose proof (nrm2_pos d (fun i => (y i - (RtoC lam * U) * x i)%C)) as H.
  rewrite nrm2_sub in H. fold U in H.
  assert (E1 : fst (Cconj (RtoC lam * U) * U)%C = lam * Cn2 U).
  { unfold Cn2, Cconj, Cmult, RtoC. destruct U as [a b]. simpl. ring. }
  assert (E2 : Cn2 (RtoC lam * U)%C = lam * lam * Cn2 U) by (rewrite Cn2_mult, Cn2_RtoC; ring).
  rewrite E1, E2 in H. lra.
Qed.

(* ---------- Bessel ---------- *)
Section Bessel.
Variables (d k : nat) (a : nat -> nat -> C).        (* a j : the j-th vector, j < k, of dimension d *)
Hypothesis orth : forall j l, (j < k)%nat -> (l < k)%nat -> inner d (a j) (a l) = if Nat.eqb j l then RtoC 1 else RtoC 0.

Lemma inner_sum_r x (c : nat -> C) :
  inner d x (fun i => csum (fun j => (c j * a j i)%C) k) = csum (fun j => (c j * inner d x (a j))%C) k.
Proof.
  unfold inner. rewrite (csum_ext _ (fun i => csum (fun j => (c j * (Cconj (x i) * a j i))%C) k)).
  - rewrite csum_swap. apply csum_ext. intros j _. now rewrite csum_scal.
  - intros i _. rewrite <- csum_scal. apply csum_ext. intros j _. ring.
Qed.
Lemma inner_sum_l y (c : nat -> C) :
  inner d (fun i => csum (fun j => (c j * a j i)%C) k) y = csum (fun j => (Cconj (c j) * inner d (a j) y)%C) k.
Proof.
  rewrite <- inner_conj, inner_sum_r, csum_conj. apply csum_ext. intros j _.
  rewrite <- (inner_conj d (a j) y). unfold Cconj, Cmult. destruct (c j), (inner d (a j) y). simpl. f_equal; ring.
Qed.

Theorem bessel u : rsum (fun j => Cn2 (inner d (a j) u)) k <= nrm2 d u.
Proof.
  set (c := fun j => inner d (a j) u).
  set (p := fun i => csum (fun j => (c j * a j i)%C) k).
  pose proof (nrm2_pos d (fun i => (u i - RtoC 1 * p i)%C)) as H.
  rewrite nrm2_sub in H.
  assert (Epu : inner d p u = RtoC (rsum (fun j => Cn2 (c j)) k)).
  { unfold p. rewrite inner_sum_l. fold c.
    rewrite (csum_ext _ (fun j => RtoC (Cn2 (c j)))) by (intros; apply conj_mul_self).
    clear. induction k as [|n IH]; simpl. reflexivity. rewrite IH. unfold RtoC, Cplus. simpl. f_equal. ring. }
  assert (Epp : nrm2 d p = rsum (fun j => Cn2 (c j)) k).
  { assert (E : inner d p p = RtoC (rsum (fun j => Cn2 (c j)) k)).
    { unfold p at 2. rewrite inner_sum_r.
      rewrite (csum_ext _ (fun l => (c l * Cconj (c l))%C)).
      - rewrite (csum_ext _ (fun j => RtoC (Cn2 (c j)))).
        + clear. induction k as [|n IH]; simpl. reflexivity. rewrite IH. unfold RtoC, Cplus. simpl. f_equal. ring.
        + intros j _. rewrite Cmult_comm. apply conj_mul_self.
      - intros l Hl. f_equal. unfold p. rewrite inner_sum_l.
        rewrite (csum_ext _ (fun j => (Cconj (c j) * (if Nat.eqb l j then RtoC 1 else RtoC 0))%C)).
        + now rewrite csum_delta.
        + intros j Hj. rewrite orth by auto. rewrite Nat.eqb_sym. reflexivity. }
    rewrite inner_self in E. now injection E. }
  rewrite Epu, Epp in H.
  replace (fst (Cconj (RtoC 1) * RtoC (rsum (fun j => Cn2 (c j)) k))%C) with (rsum (fun j => Cn2 (c j)) k) in H
    by (unfold Cconj, Cmult, RtoC; simpl; ring).
  rewrite Cn2_RtoC in H. change (rsum (fun j => Cn2 (c j)) k <= nrm2 d u). lra.
Qed.
End Bessel.
