(* Property C10: CNOT-cost estimates equal the counts of the synthesis recursion.
   The estimate functions are TRANSLATED FROM /repo/qclib/unitary.py on every run (Gen_unitary_counts). *)
From Coq Require Import ZArith List Bool.
From QV Require Import GenLib Counts Gen_unitary_counts CountsGen Gen_isometry_counts CcdGen UcrModel UcrCount.
Open Scope Z_scope.

(* skeleton of the synthesis: c(2) = 3, c(n) = 2*(2*c(n-1) + 2^(n-1)) + (2^(n-1) - 1) *)
Theorem C10_skeleton_closed : forall k : nat, let n := Z.of_nat k + 2 in
  48 * cx_build k = 26 * 4 ^ n - 72 * 2 ^ n + 16.
Proof. exact cx_build_closed. Qed.
Print Assumptions C10_skeleton_closed.

Theorem C10_qsd_a2_estimate : forall k : nat, (0 < k)%nat ->
  _cnot_count_estimate (Z.of_nat k + 2) 0 0 true = cx_build_a2 k.
Proof. exact qsd_a2_estimate_eq. Qed.
Print Assumptions C10_qsd_a2_estimate.

Theorem C10_qsd_noa2_estimate : forall k : nat, (0 < k)%nat ->
  _cnot_count_estimate (Z.of_nat k + 2) 0 0 false = cx_build k.
Proof. exact qsd_noa2_estimate_eq. Qed.
Print Assumptions C10_qsd_noa2_estimate.

Theorem C10_iso0_consistent : forall (k : nat) (a2 : bool), (0 < k)%nat ->
  _cnot_count_iso (Z.to_nat (2 * (Z.of_nat k + 2) + 2)) (Z.of_nat k + 2) 0 a2 + (if a2 then 1 else 0)
  = _cnot_count_estimate (Z.of_nat k + 2) 0 0 a2.
Proof. exact iso0_estimate_consistent. Qed.
Print Assumptions C10_iso0_consistent.

Theorem C10_csd_closed : forall n iso a2, 3 <= n -> _cnot_count_estimate n 1 iso a2 = 4 ^ n - 2 * 2 ^ n - 1.
Proof. exact csd_estimate_closed. Qed.
Print Assumptions C10_csd_closed.

(* column-by-column scheme on a state vector (m = 0): one uniformly controlled gate up to a diagonal per target qubit,
   2^(n-1-i) - 1 CNOTs each - estimate translated from qclib/isometry.py *)
Theorem C10_ccd_state_estimate : forall n : nat, _cnot_count_estimate_ccd (Z.of_nat n) 0 = 2 ^ Z.of_nat n - 1 - Z.of_nat n.
Proof. exact ccd_state_estimate. Qed.
Print Assumptions C10_ccd_state_estimate.

Example ex_values : _cnot_count_estimate 3 0 0 true = 20 /\ _cnot_count_estimate 4 0 0 true = 100
                    /\ _cnot_count_estimate 5 0 0 true = 444 /\ cx_build_a2 3 = 444.
Proof. vm_compute. auto. Qed.

(* the building block of the estimates: the model of qclib.gates.ucr.ucr (C13, compared with the code on every run) emits
   2^k - 1 entanglers on k >= 1 controls, one more with the trailing entangler, whatever the angles *)
Theorem C10_ucr_entangler_count : forall (A : Type) (o : UcrModel.aops A) r e (k : nat) (a : nat -> A) (last : bool), (1 <= k)%nat ->
  UcrCount.count_ent (UcrModel.ucr_g o r e k a last) = if last then (2 ^ k)%nat else (2 ^ k - 1)%nat.
Proof. intros A o r e k a last H. now apply UcrCount.ucr_count. Qed.
Print Assumptions C10_ucr_entangler_count.
