(* Property C14 (part 2): tracing the auxiliary register out of the purification sum_i s_i |psi_i>|i>, with
   s_i conj(s_i) = p_i, leaves sum_i p_i |psi_i><psi_i| - for any ensemble size k (not only powers of two), any data
   dimension d, over any field with an involutive ring morphism conj. *)
From mathcomp Require Import all_ssreflect all_algebra.
From QV Require Import Mixed MixedCircuit MixedTrace.
Set Implicit Arguments. Unset Strict Implicit. Unset Printing Implicit Defensive.
Import GRing.Theory.
Local Open Scope ring_scope.

Theorem C14_partial_trace_purification :
  forall (F : fieldType) (conj : {rmorphism F -> F}) (d k : nat) (psi : 'I_k -> 'cV[F]_d) (s p : 'I_k -> F),
  (forall i, s i * conj (s i) = p i) ->
  Psi psi s *m adj conj (Psi psi s) = rho_ens conj psi p.
Proof. exact: partial_trace_purification. Qed.
Print Assumptions C14_partial_trace_purification.

(* in-circuit purification: auxiliary register in sum_a s_a|a>, then every preparation W_i controlled on aux = i (any order
   of distinct indices would do; the code uses 0..k-1): the joint state is Psi[a, x] = s_a (W_a e_0)[x], i.e. the purification
   of the ensemble psi_i = W_i|0..0> - MODULAR in the inner initializer (C01) and Qiskit's .control(ctrl_state) *)
Theorem C14_in_circuit_purification : forall (F : fieldType) (k d : nat) (W : 'I_k -> 'M[F]_d) (s : 'I_k -> F) (z : 'I_d),
  foldr (cstep W) (Psi0 s z) (enum 'I_k) = target W s z.
Proof. move=> F k d W s z. exact: in_circuit_purification. Qed.
Print Assumptions C14_in_circuit_purification.

(* the reduced state is a density matrix of trace one: for normalised pure states and probabilities summing to one
   (MixedInitialize validates the latter: C14_probs_accept) *)
Theorem C14_reduced_state_trace_one :
  forall (F : fieldType) (conj : {rmorphism F -> F}) (d k : nat) (psi : 'I_k -> 'cV[F]_d) (p : 'I_k -> F),
  (forall i, adj conj (psi i) *m psi i = 1%:M) -> \sum_i p i = 1 -> \tr (rho_ens conj psi p) = 1.
Proof. exact: rho_ens_trace_one. Qed.
Print Assumptions C14_reduced_state_trace_one.

(* and Hermitian when the probabilities are fixed by conj (real numbers) *)
Theorem C14_reduced_state_hermitian :
  forall (F : fieldType) (conj : {rmorphism F -> F}) (d k : nat) (psi : 'I_k -> 'cV[F]_d) (p : 'I_k -> F),
  (forall x, conj (conj x) = x) -> (forall i, conj (p i) = p i) ->
  adj conj (rho_ens conj psi p) = rho_ens conj psi p.
Proof. exact: rho_ens_hermitian. Qed.
Print Assumptions C14_reduced_state_hermitian.

(* positive semi-definite, in the form valid over any field: <x|rho|x> = sum_i p_i conj(<psi_i|x>) <psi_i|x>, a sum of
   p_i |<psi_i|x>|^2 - non-negative over the complex numbers whenever the p_i are (C14_probs_accept) *)
Theorem C14_reduced_state_quadratic_form :
  forall (F : fieldType) (conj : {rmorphism F -> F}) (d k : nat) (psi : 'I_k -> 'cV[F]_d) (p : 'I_k -> F) (x : 'cV[F]_d),
  (forall y, conj (conj y) = y) ->
  (adj conj x *m rho_ens conj psi p *m x) 0 0
  = \sum_i p i * (conj ((adj conj (psi i) *m x) 0 0) * (adj conj (psi i) *m x) 0 0).
Proof. exact: rho_ens_quadratic_form. Qed.
Print Assumptions C14_reduced_state_quadratic_form.

(* the purification vector handed to the inner initializer has squared norm one (so it passes the validation of C16) *)
Theorem C14_purification_normalised :
  forall (F : fieldType) (conj : {rmorphism F -> F}) (d k : nat) (psi : 'I_k -> 'cV[F]_d) (s p : 'I_k -> F),
  (forall i, s i * conj (s i) = p i) -> (forall i, adj conj (psi i) *m psi i = 1%:M) -> \sum_i p i = 1 ->
  \tr (Psi psi s *m adj conj (Psi psi s)) = 1.
Proof. exact: purification_normalised. Qed.
Print Assumptions C14_purification_normalised.
