(* Row-by-row versus column-by-column: a grid of operators op j k (row j, column k) in which operators of different columns
   commute denotes the same thing when listed row after row or column after column. *)
From Coq Require Import List Arith Lia.
Import ListNotations.

Section Transpose.
Variables S K : Type.
Definition comp (l : list (S -> S)) (s : S) : S := fold_left (fun x F => F x) l s.
Lemma comp_app l1 l2 s : comp (l1 ++ l2) s = comp l2 (comp l1 s).
Proof. unfold comp. now rewrite fold_left_app. Qed.
Lemma comp_cons F l s : comp (F :: l) s = comp l (F s).
Proof. reflexivity. Qed.

Lemma comm_one x R : (forall r, In r R -> forall s, x (r s) = r (x s)) -> forall s, x (comp R s) = comp R (x s).
Proof.
  induction R as [|r R IH]; intros H s. reflexivity.
  rewrite !comp_cons. rewrite IH by (intros; apply H; now right). f_equal. apply H. now left.
Qed.
Lemma comm_blocks X R : (forall x r, In x X -> In r R -> forall s, x (r s) = r (x s)) ->
  forall s, comp X (comp R s) = comp R (comp X s).
Proof.
  induction X as [|x X IH]; intros H s. reflexivity.
  rewrite !comp_cons. rewrite <- IH by (intros; apply H; auto; now right). f_equal.
  apply comm_one. intros r Hr. apply H; auto. now left.
Qed.

Variable op : nat -> K -> S -> S.
Variable L : list K.
Hypothesis comm : forall j j' k k' s, In k L -> In k' L -> k <> k' -> op j k (op j' k' s) = op j' k' (op j k s).

Lemma flat_nil (rows : list nat) : flat_map (fun j : nat => map (op j) []) rows = [].
Proof. induction rows; simpl; auto. Qed.

Lemma peel rows k L' : In k L -> (forall k', In k' L' -> In k' L /\ k' <> k) -> forall s,
  comp (flat_map (fun j => op j k :: map (op j) L') rows) s
  = comp (flat_map (fun j => map (op j) L') rows) (comp (map (fun j => op j k) rows) s).
Proof.
  intros Hk HL'. induction rows as [|j rs IH]; intros s. reflexivity.
  cbn [flat_map map]. rewrite !comp_app, IH. rewrite !comp_cons. f_equal.
  apply comm_blocks.
  intros x r Hx Hr s'. apply in_map_iff in Hx as [j1 [<- _]]. apply in_map_iff in Hr as [k' [<- Hk']].
  destruct (HL' k' Hk') as [I N]. apply comm; auto.
Qed.

Theorem transpose rows : NoDup L -> (forall k, In k L -> In k L) -> forall L0, incl L0 L -> NoDup L0 -> forall s,
  comp (flat_map (fun j => map (op j) L0) rows) s = comp (flat_map (fun k => map (fun j => op j k) rows) L0) s.
Proof.
  intros _ _. induction L0 as [|k L' IH]; intros Hi Hn s.
  - rewrite flat_nil. reflexivity.
  - inversion Hn; subst. cbn [flat_map map]. rewrite comp_app.
    change (fun j : nat => op j k :: map (op j) L') with (fun j : nat => op j k :: map (op j) L').
    rewrite peel.
    + rewrite IH; auto. intros x Hx. apply Hi. now right.
    + apply Hi. now left.
    + intros k' Hk'. split. apply Hi. now right. intro E. subst. contradiction.
Qed.
End Transpose.
