(* Placing a circuit on arbitrary qubits.  A circuit c over the qubits 0..w-1, re-labelled through an injective map f,
   acts on a global basis state b as c acts on the local basis state read off b through f, everything else kept:
     srun (map (relabelf f) c) Psi b = srun c (fun x => Psi (push b x)) (pull b).
   push b x writes the w local bits of x onto the qubits f 0 .. f (w-1) of b; pull b reads them back. *)
From Coq Require Import Reals Lra List Bool Arith Lia NArith FunctionalExtensionality.
From Coquelicot Require Import Complex.
From QV Require Import Sem Mat2 Toff2 Chain Vchain Cvoqram McxModel McxMulti.
Import ListNotations.
Open Scope nat_scope.

Definition relabelf (f : nat -> nat) (g : sgate) : sgate :=
  match g with SX q => SX (f q) | SU n t => SU n (f t) | SCX c t => SCX (f c) (f t) | SMCX cs t => SMCX (map f cs) (f t) end.
Lemma relabel_relabelf l g : relabel l g = relabelf (fun q => nth q l 0) g.
Proof. now destruct g. Qed.

Section Place.
Variable f : nat -> nat.
Variable w : nat.
Hypothesis f_inj : forall i j, i < w -> j < w -> f i = f j -> i = j.

Fixpoint push (m : nat) (b x : asg) : asg := match m with O => b | S m' => upd (push m' b x) (f m') (get x m') end.
Fixpoint pull (m : nat) (b : asg) : asg := match m with O => 0%N | S m' => upd (pull m' b) m' (get b (f m')) end.

Lemma get_push_in m b x i : m <= w -> i < m -> get (push m b x) (f i) = get x i.
Proof.
  induction m as [|m IH]; intros Hm Hi. lia. cbn [push].
  destruct (Nat.eq_dec i m) as [->|Hne]. apply get_upd_same.
  rewrite get_upd_other. apply IH; lia. intro E. apply Hne. apply f_inj; auto; lia.
Qed.
Lemma get_push_out m b x q : (forall i, i < m -> q <> f i) -> get (push m b x) q = get b q.
Proof.
  induction m as [|m IH]; intros H. reflexivity. cbn [push].
  rewrite get_upd_other by (apply H; lia). apply IH. intros i Hi. apply H. lia.
Qed.
Lemma f_img_dec m q : {i | i < m /\ q = f i} + {forall i, i < m -> q <> f i}.
Proof.
  induction m as [|m [[i [Hi E]]|H]].
  - right. intros i Hi. lia.
  - left. exists i. split; auto.
  - destruct (Nat.eq_dec q (f m)) as [E|N].
    + left. exists m. split; auto.
    + right. intros i Hi. destruct (Nat.eq_dec i m) as [->|]; auto. apply H. lia.
Qed.
Lemma get_pull_in m b i : i < m -> get (pull m b) i = get b (f i).
Proof.
  induction m as [|m IH]; intros Hi. lia. cbn [pull].
  destruct (Nat.eq_dec i m) as [->|Hne]. apply get_upd_same. rewrite get_upd_other by auto. apply IH. lia.
Qed.
Lemma get_0 q : get 0%N q = false.
Proof. Transparent get. unfold get. apply N.bits_0. Opaque get. Qed.
Lemma get_pull_out m b i : m <= i -> get (pull m b) i = false.
Proof.
  induction m as [|m IH]; intros Hi. apply get_0. cbn [pull]. rewrite get_upd_other by lia. apply IH. lia.
Qed.

Lemma push_pull b : push w b (pull w b) = b.
Proof.
  apply asg_ext. intros q. destruct (f_img_dec w q) as [[i [Hi ->]]|H].
  - rewrite get_push_in by auto. now apply get_pull_in.
  - now apply get_push_out.
Qed.
Lemma push_upd b x t v : t < w -> push w b (upd x t v) = upd (push w b x) (f t) v.
Proof.
  intros Ht. apply asg_ext. intros q. destruct (f_img_dec w q) as [[i [Hi ->]]|H].
  - rewrite get_push_in by auto. destruct (Nat.eq_dec i t) as [->|Hne].
    + now rewrite !get_upd_same.
    + rewrite (get_upd_other x t v i) by auto.
      rewrite (get_upd_other (push w b x) (f t) v (f i)) by (intro E; apply Hne; now apply f_inj).
      now rewrite get_push_in by auto.
  - rewrite get_push_out by auto. rewrite get_upd_other by (apply H; auto). now rewrite get_push_out by auto.
Qed.

Definition bndw (g : sgate) : Prop := forall p, In p (sq g) -> p < w.

Lemma allq_push cs b x : (forall c, In c cs -> c < w) -> allq (map f cs) (push w b x) = allq cs x.
Proof.
  intros H. unfold allq. induction cs as [|c cs IH]; auto. simpl.
  rewrite get_push_in by (auto; apply H; now left). f_equal. apply IH. intros c' Hc'. apply H. now right.
Qed.

Lemma sapp_placed g Psi b x : bndw g ->
  sapp (relabelf f g) Psi (push w b x) = sapp g (fun y => Psi (push w b y)) x.
Proof.
  intros B. unfold bndw in B.
  destruct g as [q|n t|c t|cs t]; cbn [relabelf sapp sq] in *; unfold appf, app1.
  - assert (q < w) by (apply B; now left). rewrite get_push_in, !push_upd by auto. reflexivity.
  - assert (t < w) by (apply B; now left). rewrite get_push_in, !push_upd by auto. reflexivity.
  - assert (c < w) by (apply B; now left). assert (t < w) by (apply B; right; now left).
    rewrite !get_push_in, !push_upd by auto. reflexivity.
  - assert (t < w) by (apply B; now left).
    rewrite get_push_in, !push_upd, allq_push by (auto; intros c Hc; apply B; now right). reflexivity.
Qed.

Theorem srun_placed_gen c : Forall bndw c -> forall Psi b x,
  srun (map (relabelf f) c) Psi (push w b x) = srun c (fun y => Psi (push w b y)) x.
Proof.
  induction c as [|g c IH]; intros W Psi b x. reflexivity.
  inversion W; subst. cbn [map]. rewrite !srun_cons. rewrite IH by auto. f_equal.
  apply functional_extensionality; intros y. now apply sapp_placed.
Qed.
Theorem srun_placed c : Forall bndw c -> forall Psi b,
  srun (map (relabelf f) c) Psi b = srun c (fun y => Psi (push w b y)) (pull w b).
Proof. intros W Psi b. rewrite <- (push_pull b) at 1. now apply srun_placed_gen. Qed.
End Place.

(* ---------- consequences used by the placed multi-controlled gates ---------- *)
Section PlaceMore.
Variable f : nat -> nat.
Variable w : nat.
Hypothesis f_inj : forall i j, i < w -> j < w -> f i = f j -> i = j.

Lemma push_flipq b x t : t < w -> push f w b (flipq t x) = flipq (f t) (push f w b x).
Proof.
  intros Ht. unfold flipq. rewrite (push_upd f w f_inj) by auto. now rewrite (get_push_in f w f_inj) by auto.
Qed.
Lemma push_flips b ts : (forall t, In t ts -> t < w) -> forall x, push f w b (flips ts x) = flips (map f ts) (push f w b x).
Proof.
  induction ts as [|t ts IH]; intros H x. reflexivity.
  cbn [flips map]. rewrite IH by (intros; apply H; now right). f_equal. apply push_flipq. apply H. now left.
Qed.
Lemma forallb_pull (F : nat -> bool -> bool) l b : (forall i, In i l -> i < w) ->
  forallb (fun i => F i (get (pull f w b) i)) l = forallb (fun i => F i (get b (f i))) l.
Proof.
  intros H. induction l as [|i l IH]; auto. simpl. rewrite get_pull_in by (apply H; now left).
  f_equal. apply IH. intros j Hj. apply H. now right.
Qed.
End PlaceMore.
