(* Property C08: bounded approximation.  PARTIAL: for EVERY candidate oracle the search tree built under the two guards of
   _build_approximation_tree contains only nodes within the loss budget that save CNOTs, and the plan chosen by _search_best
   is one of the leaves (so it inherits every property all leaves have); the selection rule itself is replayed bit-exactly
   on the leaves logged from the implementation.  Exactness at zero loss, faithfulness to the plan, true loss for n <= 3 and the
   CNOT comparison are evaluated. *)
From Coq Require Import List Bool Arith ZArith QArith.
From QV Require Import BaaModel.
Import ListNotations.

Theorem C08_build_inv : forall (state : Type) (budget : Q) (comb : Q -> Q -> Q)
  (oracle : state -> list (state * Q * Z)) (is_leaf : state -> bool) (greedy : bool)
  (pick : list (state * Q * Z) -> list (state * Q * Z)),
  (forall l x, In x (pick l) -> In x l) ->
  forall fuel st tl ts tl' ts',
  node_in state (build state budget comb oracle is_leaf greedy pick fuel st tl ts) tl' ts' ->
  Qle_bool tl' budget = true /\ (0 < ts')%Z.
Proof. intros. eapply build_inv; eauto. Qed.
Print Assumptions C08_build_inv.

Theorem C08_search_best_in : forall ls i x, search_best ls = Some (i, x) -> nth_error ls i = Some x.
Proof. exact search_best_in. Qed.
Print Assumptions C08_search_best_in.

Theorem C08_search_best_preserves : forall (P : leaf -> Prop) ls i x,
  Forall P ls -> search_best ls = Some (i, x) -> P x.
Proof. exact search_best_preserves. Qed.
Print Assumptions C08_search_best_preserves.

Example ex_best : option_map fst (search_best [ {| saved := 3; depth := 2; loss := 1#10 |}; {| saved := 5; depth := 3; loss := 2#10 |};
                                   {| saved := 5; depth := 2; loss := 3#10 |}; {| saved := 5; depth := 2; loss := 1#10 |};
                                   {| saved := 5; depth := 2; loss := 1#10 |} ]) = Some 3%nat.
Proof. vm_compute. reflexivity. Qed.
