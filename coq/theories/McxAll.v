(* C05 / C04: McxVchainDirty(k, 1 target, exact mode, any control pattern) placed on ANY list of pairwise distinct
   qubits is the exact multi-controlled X, for EVERY k >= 1 (branches: cx, ccx, c3x, general V-chain). *)
From Coq Require Import Reals Lra List Bool Arith Lia NArith FunctionalExtensionality.
From Coquelicot Require Import Complex.
From QV Require Import Sem Mat2 Toff2 Chain Vchain RelPhase McxModel McxPlaced LinearMcx.
Import ListNotations.
Open Scope nat_scope.

(* ---------- X conjugation on a placement f ---------- *)
Section PlacedPattern.
Variable f : nat -> nat.
Variable k : nat.
Hypothesis f_inj : forall i j, i < k -> j < k -> f i = f j -> i = j.

Definition xs_p (pat : list bool) : list sgate :=
  flat_map (fun i => if nth i pat true then [] else [SX (f i)]) (seq 0 k).
Fixpoint xflip_p (pat : list bool) (m : nat) (b : asg) : asg :=
  match m with O => b | S m' => let b' := xflip_p pat m' b in if xbit pat m' then flipq (f m') b' else b' end.

Lemma xflip_p_get_out pat : forall m b q, (forall i, i < m -> q <> f i) -> get (xflip_p pat m b) q = get b q.
Proof.
  induction m as [|m IH]; intros b q H. reflexivity.
  cbn [xflip_p]. destruct (xbit pat m).
  - rewrite flipq_get_other by (apply H; lia). apply IH. intros; apply H; lia.
  - apply IH. intros; apply H; lia.
Qed.
Lemma xflip_p_get_in pat : forall m b i, m <= k -> i < m -> get (xflip_p pat m b) (f i) = xorb (get b (f i)) (xbit pat i).
Proof.
  induction m as [|m IH]; intros b i Hm Hi. lia.
  cbn [xflip_p]. destruct (Nat.eq_dec i m) as [->|Hne].
  - destruct (xbit pat m) eqn:E.
    + rewrite flipq_get_same, xflip_p_get_out.
      * now destruct (get b (f m)).
      * intros j Hj Ef. apply f_inj in Ef; lia.
    + rewrite xflip_p_get_out. now rewrite xorb_false_r.
      intros j Hj Ef. apply f_inj in Ef; lia.
  - assert (Hf : f i <> f m) by (intro Ef; apply f_inj in Ef; lia).
    destruct (xbit pat m); [rewrite flipq_get_other by auto|]; apply IH; lia.
Qed.

Lemma f_dec m q : {i | i < m /\ q = f i} + {forall i, i < m -> q <> f i}.
Proof.
  induction m as [|m IH].
  - right; intros; lia.
  - destruct IH as [[i [Hi E]]|H]; [left; exists i; split; auto|].
    destruct (Nat.eq_dec q (f m)) as [E|E]; [left; exists m; auto|right].
    intros i Hi. destruct (Nat.eq_dec i m); subst; auto. apply H; lia.
Qed.

Lemma xflip_p_flipq_gen pat m q b : m <= k -> (forall i, i < m -> q <> f i) ->
  xflip_p pat m (flipq q b) = flipq q (xflip_p pat m b).
Proof.
  intros Hm H. apply asg_ext. intros x. destruct (Nat.eq_dec x q) as [->|Hx].
  - rewrite flipq_get_same, !xflip_p_get_out by auto. now rewrite flipq_get_same.
  - rewrite flipq_get_other by auto. destruct (f_dec m x) as [[i [Hi ->]]|Ho].
    + rewrite !xflip_p_get_in by lia. now rewrite flipq_get_other by auto.
    + rewrite !xflip_p_get_out by auto. now rewrite flipq_get_other by auto.
Qed.
Lemma xflip_p_invol pat b : xflip_p pat k (xflip_p pat k b) = b.
Proof.
  apply asg_ext. intros q. destruct (f_dec k q) as [[i [Hi ->]]|H].
  - rewrite !xflip_p_get_in by lia. now destruct (get b (f i)), (xbit pat i).
  - now rewrite !xflip_p_get_out by auto.
Qed.
Lemma xflip_p_flipq pat q b : (forall i, i < k -> q <> f i) -> xflip_p pat k (flipq q b) = flipq q (xflip_p pat k b).
Proof. intros H. apply xflip_p_flipq_gen; auto. Qed.

Lemma xs_p_sem_gen pat : forall m, m <= k -> forall psi b,
  srun (flat_map (fun i => if nth i pat true then [] else [SX (f i)]) (seq 0 m)) psi b = psi (xflip_p pat m b).
Proof.
  induction m as [|m IH]; intros Hm psi b. reflexivity.
  rewrite seq_S, flat_map_app, srun_app. cbn [flat_map Nat.add xflip_p]. unfold xbit.
  destruct (nth m pat true); cbn [negb app].
  - cbn [srun fold_left]. apply IH. lia.
  - rewrite srun_cons. cbn [srun fold_left sapp]. unfold appf. rewrite app1_X, IH by lia.
    f_equal. apply xflip_p_flipq_gen. lia. intros i Hi E. apply f_inj in E; lia.
Qed.
Lemma xs_p_sem pat psi b : srun (xs_p pat) psi b = psi (xflip_p pat k b).
Proof. apply xs_p_sem_gen. lia. Qed.

Definition pmatch_p (pat : list bool) (b : asg) : bool :=
  forallb (fun i => Bool.eqb (get b (f i)) (nth i pat true)) (seq 0 k).
Lemma pmatch_p_xflip pat b : forallb (fun i => get (xflip_p pat k b) (f i)) (seq 0 k) = pmatch_p pat b.
Proof.
  unfold pmatch_p.
  assert (E : forall l, (forall i, In i l -> i < k) ->
              forallb (fun i => get (xflip_p pat k b) (f i)) l = forallb (fun i => Bool.eqb (get b (f i)) (nth i pat true)) l).
  { induction l as [|i l IH]; intros H; simpl; auto. rewrite IH by (intros; apply H; now right).
    rewrite xflip_p_get_in by (try lia; apply H; now left). unfold xbit. f_equal.
    now destruct (get b (f i)), (nth i pat true). }
  apply E. intros i I. apply in_seq in I. lia.
Qed.

Theorem ctrl_state_conj_p pat tq (c : list sgate) : (forall i, i < k -> tq <> f i) ->
  (forall psi b, srun c psi b = psi (if forallb (fun i => get b (f i)) (seq 0 k) then flipq tq b else b)) ->
  forall psi b, srun (xs_p pat ++ c ++ xs_p pat) psi b = psi (if pmatch_p pat b then flipq tq b else b).
Proof.
  intros Ht Hc psi b. rewrite !srun_app, xs_p_sem, Hc, xs_p_sem, pmatch_p_xflip.
  destruct (pmatch_p pat b).
  - now rewrite <- xflip_p_flipq, xflip_p_invol by auto.
  - now rewrite xflip_p_invol.
Qed.
End PlacedPattern.

(* ---------- McxVchainDirty(k, one target, exact) on a placement list, every k >= 1 ---------- *)
Definition tpos (k : nat) : nat := k + (if k <=? 2 then 0 else k - 2).

Lemma relabel_xs l pat k : map (relabel l) (xs pat k) = xs_p (fun i => nth i l 0) k pat.
Proof.
  unfold xs, xs_p. rewrite flat_map_concat_map, concat_map, map_map, <- flat_map_concat_map.
  apply flat_map_ext. intros i. destruct (nth i pat true); reflexivity.
Qed.

Lemma sapp_smcx cs t psi b : ~ In t cs ->
  sapp (SMCX cs t) psi b = psi (if forallb (fun c => get b c) cs then flipq t b else b).
Proof.
  intros _. cbn [sapp]. unfold appf, allq. destruct (forallb (fun c => get b c) cs); cbn [Xpow].
  apply app1_X. apply app1_I2.
Qed.
Lemma sapp_scx c t psi b : sapp (SCX c t) psi b = psi (if get b c then flipq t b else b).
Proof. cbn [sapp]. unfold appf. destruct (get b c); cbn [Xpow]. apply app1_X. apply app1_I2. Qed.

Lemma nodup_nth_inj (l : list nat) i j : NoDup l -> i < length l -> j < length l -> nth i l 0 = nth j l 0 -> i = j.
Proof. intros N Hi Hj E. apply (proj1 (NoDup_nth l 0) N); auto. Qed.

Lemma list_split3 (l : list nat) a b : length l = a + b + 1 ->
  map (fun i => nth i l 0) (seq 0 a) ++ map (fun i => nth (a + i) l 0) (seq 0 b) ++ [nth (a + b) l 0] = l.
Proof.
  intros H.
  assert (E2 : map (fun i => nth (a + i) l 0) (seq 0 b) = map (fun i => nth i l 0) (seq a b)).
  { rewrite (seq_add a b), map_map. reflexivity. }
  rewrite E2, !map_nth_seq by lia. cbn [skipn].
  rewrite <- (firstn_skipn a l) at 4. f_equal.
  rewrite <- (firstn_skipn b (skipn a l)) at 2. f_equal.
  assert (L : length (skipn b (skipn a l)) = 1) by (rewrite !skipn_length; lia).
  destruct (skipn b (skipn a l)) as [|x [|y r]] eqn:E; simpl in L; try lia.
  f_equal. rewrite <- (firstn_skipn a l) at 1. rewrite app_nth2 by (rewrite firstn_length; lia).
  rewrite firstn_length, Nat.min_l by lia. replace (a + b - a) with b by lia.
  rewrite <- (firstn_skipn b (skipn a l)). rewrite app_nth2 by (rewrite firstn_length, skipn_length; lia).
  rewrite firstn_length, skipn_length, Nat.min_l by lia. rewrite Nat.sub_diag, E. reflexivity.
Qed.

Lemma forallb_map' {A B} (g : B -> bool) (h : A -> B) l : forallb g (map h l) = forallb (fun x => g (h x)) l.
Proof. induction l; simpl; auto. now rewrite IHl. Qed.

Theorem vchain_exact_placed (k : nat) (pat : list bool) (l : list nat) : 1 <= k ->
  NoDup l -> length l = tpos k + 1 ->
  forall psi b,
  srun (map (relabel l) (vchain k 1 pat false false)) psi b
  = psi (if pmatch_p (fun i => nth i l 0) k pat b then flipq (nth (tpos k) l 0) b else b).
Proof.
  intros Hk N L psi b. set (f := fun i => nth i l 0).
  assert (Finj : forall i j, i < k -> j < k -> f i = f j -> i = j).
  { intros i j Hi Hj E. unfold f in E. apply (nodup_nth_inj l); auto; unfold tpos in L; destruct (k <=? 2); lia. }
  assert (Tne : forall i, i < k -> nth (tpos k) l 0 <> f i).
  { intros i Hi E. unfold f in E. apply (nodup_nth_inj l) in E; auto; unfold tpos in *; destruct (k <=? 2); lia. }
  unfold vchain. rewrite !map_app, !relabel_xs. fold f.
  apply (ctrl_state_conj_p f k Finj pat (nth (tpos k) l 0)); auto.
  clear psi b. intros psi b.
  destruct k as [|[|[|[|j]]]]; try lia.
  - (* one control: cx *)
    cbn [seq map smcx relabel forallb]. unfold f. rewrite srun_cons. cbn [srun fold_left]. rewrite sapp_scx.
    cbn [tpos Nat.leb Nat.add]. now rewrite andb_true_r.
  - (* two controls: ccx *)
    unfold toffoli_mt, fan_l, fan_r. cbn [seq map length Nat.sub app nth relabel].
    rewrite srun_cons. cbn [srun fold_left]. rewrite sapp_smcx.
    + cbn [forallb tpos Nat.leb Nat.add seq]. unfold f. reflexivity.
    + intros [E|[E|[]]]; [apply (Tne 0) | apply (Tne 1)]; cbn [tpos Nat.leb Nat.add]; unfold f; auto; lia.
  - (* three controls: c3x (one unused ancilla) *)
    cbn [negb andb Nat.eqb Nat.ltb Nat.leb seq map relabel].
    rewrite srun_cons. cbn [srun fold_left]. rewrite sapp_smcx.
    + cbn [forallb tpos Nat.leb Nat.add Nat.sub seq]. unfold f. reflexivity.
    + intros [E|[E|[E|[]]]]; [apply (Tne 0) | apply (Tne 1) | apply (Tne 2)]; cbn [tpos Nat.leb Nat.add Nat.sub]; unfold f; auto; lia.
  - (* k = j + 4 >= 4: the general V-chain *)
    cbn [negb andb Nat.eqb].
    replace (S (S (S (S j)))) with (S j + 3) in * by lia.
    assert (TP : tpos (S j + 3) = S j + 3 + (S j + 1)).
    { unfold tpos. replace (S j + 3 <=? 2) with false by (symmetry; apply Nat.leb_gt; lia). lia. }
    rewrite TP in *.
    replace (general (S j) 1 false false) with (general (S j) 1 false false) by reflexivity.
    rewrite relabel_general1.
    rewrite (general1_exact (fun i => nth i l 0) (fun i => nth (S j + 3 + i) l 0) (nth (S j + 3 + (S j + 1)) l 0) (S j)).
    + f_equal. unfold all_c, used_c. rewrite forallb_map'. reflexivity.
    + unfold used_c, used_a. rewrite list_split3; auto.
Qed.
