(* Property C08 (also used by C14 / C11 for their sub-circuits): assembling the plan.  Operators acting locally on pairwise
   disjoint qubit groups, each preparing its factor from the zeros of its group, prepare together the product of the factors
   on top of whatever factor the remaining qubits carry.  "Locally" is the frame property; circuits of rotations, controlled
   swaps and entanglers whose gates stay inside the group have it (C08_local_circuits).  The harness checks on every plan that
   the definition of BaaLowRankInitialize is one block per plan factor, placed on the plan's qubit group, groups disjoint. *)
From Coq Require Import Reals List Bool Arith.
From Coquelicot Require Import Complex.
From QV Require Import Sem SumQ Dcsp ProductAsm.
Import ListNotations.

Theorem C08_product_assembly : forall (Bs : list block) (done rest : state),
  Forall block_ok Bs -> disjoint_groups Bs ->
  (forall B, In B Bs -> indeps (bq B) done) -> (forall B, In B Bs -> indeps (bq B) rest) ->
  run_blocks Bs (pw (pw done (zeros Bs)) rest) = pw (pw done (prod Bs)) rest.
Proof. exact product_assembly. Qed.
Print Assumptions C08_product_assembly.

Theorem C08_product_from_zeros : forall Bs, Forall block_ok Bs -> disjoint_groups Bs -> run_blocks Bs (zeros Bs) = prod Bs.
Proof. exact product_from_zeros. Qed.
Print Assumptions C08_product_from_zeros.

Theorem C08_local_circuits : forall (c : list dgate) (qs : list nat), Forall (glocal qs) c -> localop qs (drun c).
Proof. exact drun_local. Qed.
Print Assumptions C08_local_circuits.
