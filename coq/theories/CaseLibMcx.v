(* comparison helpers for the C05 / C04 correspondence case files *)
From Coq Require Import List Bool Arith.
From QV Require Import McxModel CaseLib.
Import ListNotations.
Definition sgate_eqb (g h : sgate) : bool :=
  match g, h with
  | SX q, SX q' => Nat.eqb q q'
  | SU n t, SU n' t' => Bool.eqb n n' && Nat.eqb t t'
  | SCX c t, SCX c' t' => Nat.eqb c c' && Nat.eqb t t'
  | SMCX cs t, SMCX cs' t' => list_eqb Nat.eqb cs cs' && Nat.eqb t t'
  | _, _ => false
  end.
