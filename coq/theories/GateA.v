From Coq Require Import Reals Lra Psatz.
Open Scope R_scope.
(* Ldmcsu._compute_gate_a, branch x <> 0 (hence zr + 1 > 0), as real algebra on "same-axis quaternions"
   Q(a; b, c) = [[a - i c, b], [-b, a + i c]]   with   Q^2 = Q(a^2 - b^2 - c^2; 2ab, 2ac).
   U = Q(zr; x, zi),  A^dagger = Q(alpha_r; beta, alpha_i),  X A X = A^dagger, so (A^dag X A X)^2 = (A^dag)^4. *)
Definition sq3 (q : R * R * R) : R * R * R :=
  let '(a, b, c) := q in (a * a - b * b - c * c, 2 * a * b, 2 * a * c).

Section GateA.
Variables zr zi x : R.
Hypothesis unit : zr * zr + zi * zi + x * x = 1.
Hypothesis zr1 : 0 < zr + 1.

Definition c1 := sqrt ((zr + 1) / 2).
Definition alpha_r := sqrt ((c1 + 1) / 2).
Definition den := 2 * sqrt ((zr + 1) * (c1 + 1)).
Definition alpha_i := zi / den.
Definition beta := x / den.

Lemma c1_pos : 0 < c1. Proof. unfold c1. apply sqrt_lt_R0. lra. Qed.
Lemma c1_sq : c1 * c1 = (zr + 1) / 2. Proof. unfold c1. apply sqrt_sqrt. lra. Qed.
Lemma ar_pos : 0 < alpha_r. Proof. unfold alpha_r. apply sqrt_lt_R0. pose proof c1_pos. lra. Qed.
Lemma ar_sq : alpha_r * alpha_r = (c1 + 1) / 2.
Proof. unfold alpha_r. apply sqrt_sqrt. pose proof c1_pos. lra. Qed.
Lemma den_eq : den = 4 * c1 * alpha_r.
Proof.
  unfold den. pose proof c1_pos. pose proof ar_pos.
  assert (E : sqrt ((zr + 1) * (c1 + 1)) = 2 * c1 * alpha_r).
  { apply sqrt_lem_1; try nra.
    replace (2 * c1 * alpha_r * (2 * c1 * alpha_r)) with (4 * (c1 * c1) * (alpha_r * alpha_r)) by ring.
    rewrite c1_sq, ar_sq. field. }
  rewrite E. ring.
Qed.

Theorem gate_a_fourth_root :
  sq3 (sq3 (alpha_r, beta, alpha_i)) = (zr, x, zi).
Proof.
  pose proof c1_pos as Hc. pose proof ar_pos as Ha. pose proof c1_sq as C. pose proof ar_sq as A.
  unfold beta, alpha_i. rewrite den_eq.
  assert (Zr : zr = 2 * (c1 * c1) - 1) by lra.
  assert (Hx : x * x + zi * zi = 4 * (c1 * c1) * (1 - c1 * c1)) by (rewrite Zr in unit; nra).
  unfold sq3.
  assert (S1a : alpha_r * alpha_r - x / (4 * c1 * alpha_r) * (x / (4 * c1 * alpha_r))
                - zi / (4 * c1 * alpha_r) * (zi / (4 * c1 * alpha_r)) = c1).
  { transitivity (alpha_r * alpha_r - (x * x + zi * zi) / (16 * (c1 * c1) * (alpha_r * alpha_r))).
    { field; lra. }
    rewrite Hx, A. field. lra. }
  assert (S1b : 2 * alpha_r * (x / (4 * c1 * alpha_r)) = x / (2 * c1)) by (field; lra).
  assert (S1c : 2 * alpha_r * (zi / (4 * c1 * alpha_r)) = zi / (2 * c1)) by (field; lra).
  rewrite S1a, S1b, S1c.
  f_equal; [f_equal|].
  - transitivity (c1 * c1 - (x * x + zi * zi) / (4 * (c1 * c1))). { field; lra. }
    rewrite Hx, Zr. field. lra.
  - field; lra.
  - field; lra.
Qed.
End GateA.
Print Assumptions gate_a_fourth_root.
