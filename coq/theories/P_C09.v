(* Property C09: Schmidt decomposition / composition: reshaping to the bipartition matrix and back is the identity. *)
From Coq Require Import List Bool Arith NArith.
From QV Require Import Sep SepModel.
Import ListNotations.

Theorem C09_undo_sep : forall (A : Type) (mask : list bool) (digits : list A),
  length digits = length mask -> undo mask (sep mask digits) = digits.
Proof. intros A. exact (@undo_sep A). Qed.
Print Assumptions C09_undo_sep.

Theorem C09_sep_undo : forall (A : Type) (mask : list bool) (rows cols : list A),
  length rows = length (filter negb mask) -> length cols = length (filter (fun b => b) mask) ->
  sep mask (merge mask rows cols) = (rows, cols).
Proof. intros A. exact (@sep_undo A). Qed.
Print Assumptions C09_sep_undo.

(* on amplitude indices, for every n, every list of axes in any order (the code sorts it), every index *)
Theorem C09_index_roundtrip : forall n partition k, (k < 2 ^ N.of_nat n)%N ->
  let rc := sep (mask_of n partition) (digits n k) in undo_digits n partition (fst rc) (snd rc) = k.
Proof. exact undo_sep_index. Qed.
Print Assumptions C09_index_roundtrip.

Example ex_sep : sep_index 3 [0] 5%N = (1%N, 1%N) /\ sep_index 3 [2; 0] 6%N = (1%N, 2%N).
Proof. vm_compute. auto. Qed.
