(* Property C09: Schmidt decomposition / composition: reshaping to the bipartition matrix and back is the identity. *)
From Coq Require Import List Bool Arith NArith.
From QV Require Import Sep SepModel SepInj.
Import ListNotations.

Theorem C09_undo_sep : forall (A : Type) (mask : list bool) (digits : list A),
  length digits = length mask -> undo mask (sep mask digits) = digits.
Proof. intros A. exact (@undo_sep A). Qed.
Print Assumptions C09_undo_sep.

Theorem C09_sep_undo : forall (A : Type) (mask : list bool) (rows cols : list A),
  length rows = length (filter negb mask) -> length cols = length (filter (fun b => b) mask) ->
  sep mask (merge mask rows cols) = (rows, cols).
Proof. intros A. exact (@sep_undo A). Qed.
Print Assumptions C09_sep_undo.

(* on amplitude indices, for every n, every list of axes in any order (the code sorts it), every index *)
Theorem C09_index_roundtrip : forall n partition k, (k < 2 ^ N.of_nat n)%N ->
  let rc := sep (mask_of n partition) (digits n k) in undo_digits n partition (fst rc) (snd rc) = k.
Proof. exact undo_sep_index. Qed.
Print Assumptions C09_index_roundtrip.

(* the reshaped matrix has the declared shape: rows indexed by the complement axes, columns by the partition axes *)
Theorem C09_index_range : forall n partition k,
  let m := mask_of n partition in
  (fst (sep_index n partition k) < 2 ^ N.of_nat (length (filter (fun b => b) (map negb m))))%N /\
  (snd (sep_index n partition k) < 2 ^ N.of_nat (length (filter (fun b => b) m)))%N.
Proof. exact sep_index_range. Qed.
Print Assumptions C09_index_range.

(* no two amplitudes share a cell of the bipartition matrix: the reshape is a rearrangement *)
Theorem C09_index_injective : forall n partition k k', (k < 2 ^ N.of_nat n)%N -> (k' < 2 ^ N.of_nat n)%N ->
  sep_index n partition k = sep_index n partition k' -> k = k'.
Proof. exact sep_index_inj. Qed.
Print Assumptions C09_index_injective.

(* the other direction on amplitude indices: composing (row, column) digits into an index and separating it again
   gives the same (row, column), for every n and every list of axes *)
Theorem C09_index_sep_undo : forall n partition (rows cols : list bool),
  let m := mask_of n partition in
  length rows = length (filter negb m) -> length cols = length (filter (fun b => b) m) ->
  sep_index n partition (undo_digits n partition rows cols) = (undigits rows, undigits cols).
Proof. exact sep_undo_index. Qed.
Print Assumptions C09_index_sep_undo.

Example ex_sep_undo : sep_index 3 [2; 0] (undo_digits 3 [2; 0] [true] [false; true]) = (1%N, 1%N).
Proof. vm_compute. reflexivity. Qed.

Example ex_sep : sep_index 3 [0] 5%N = (1%N, 1%N) /\ sep_index 3 [2; 0] 6%N = (1%N, 2%N).
Proof. vm_compute. auto. Qed.
