(* C15: composition properties on the circuit IR of the multi-controlled-X models (sgate):
   - inverse: the reversed list of per-gate inverses undoes the circuit, in either order;
   - spectators: a circuit commutes with fixing the value of any qubit it does not mention, so it acts as the identity
     on every other qubit, whatever state that qubit is in. *)
From Coq Require Import Reals Lra List Bool Arith Lia NArith FunctionalExtensionality.
From Coquelicot Require Import Complex.
From QV Require Import Sem Mat2 Toff2 Chain UcrLocal UcrSpec Vchain McxModel.
Import ListNotations.

Definition swf (g : sgate) : Prop :=
  match g with SX _ | SU _ _ => True | SCX c t => c <> t | SMCX cs t => ~ In t cs end.
Definition sinv (g : sgate) : sgate := match g with SU neg t => SU (negb neg) t | _ => g end.
Definition sinv_list (c : list sgate) : list sgate := rev (map sinv c).
Definition squbits (g : sgate) : list nat :=
  match g with SX q => [q] | SU _ t => [t] | SCX c t => [c; t] | SMCX cs t => t :: cs end.

Lemma swf_sinv g : swf g -> swf (sinv g).
Proof. destruct g; simpl; auto. Qed.
Lemma sinv_invol g : sinv (sinv g) = g.
Proof. destruct g; simpl; auto. now rewrite negb_involutive. Qed.

Lemma allq_indep cs t : ~ In t cs -> indep t (allq cs).
Proof.
  intros H b v. unfold allq. induction cs as [|c cs IH]; simpl; auto.
  rewrite get_upd_other by (intro E; apply H; left; auto). f_equal. apply IH. intro E; apply H; right; auto.
Qed.

Lemma Xpow_sq u : mmul (Xpow u) (Xpow u) = I2.
Proof. destruct u; simpl. apply XX. apply mmul_I2_l. Qed.

Lemma sapp_inv g psi : swf g -> sapp (sinv g) (sapp g psi) = psi.
Proof.
  destruct g as [q|neg t|c t|cs t]; simpl; intros W.
  - rewrite appf_appf by (intros b v; reflexivity). rewrite XX. apply UcrSpec.appf_I2.
  - rewrite appf_appf by (intros b v; reflexivity).
    replace (mmul (RYm (if negb neg then - th else th)) (RYm (if neg then - th else th))) with I2.
    apply UcrSpec.appf_I2.
    destruct neg; simpl; rewrite RY_add; [replace (th + - th)%R with 0%R by ring | replace (- th + th)%R with 0%R by ring];
    now rewrite RY_0.
  - rewrite appf_appf by (intros b v; now rewrite get_upd_other by auto).
    replace (fun b => mmul (Xpow (get b c)) (Xpow (get b c))) with (fun _ : asg => I2).
    apply UcrSpec.appf_I2. apply functional_extensionality; intros b. now rewrite Xpow_sq.
  - rewrite appf_appf by (intros b v; now rewrite (allq_indep cs t W)).
    replace (fun b => mmul (Xpow (allq cs b)) (Xpow (allq cs b))) with (fun _ : asg => I2).
    apply UcrSpec.appf_I2. apply functional_extensionality; intros b. now rewrite Xpow_sq.
Qed.

Theorem inverse_right c : Forall swf c -> forall psi, srun (c ++ sinv_list c) psi = psi.
Proof.
  induction 1 as [|g c Hg Hc IH]; intros psi. reflexivity.
  unfold sinv_list. cbn [map rev]. rewrite <- app_comm_cons, srun_cons, app_assoc, srun_app.
  fold (sinv_list c). rewrite IH. cbn [srun fold_left]. now apply sapp_inv.
Qed.
Theorem inverse_left c : Forall swf c -> forall psi, srun (sinv_list c ++ c) psi = psi.
Proof.
  intros H psi.
  assert (E : c = sinv_list (sinv_list c)).
  { unfold sinv_list. rewrite map_rev, rev_involutive, map_map. rewrite <- (map_id c) at 1.
    apply map_ext. intros g. now rewrite sinv_invol. }
  rewrite E at 2. apply inverse_right. unfold sinv_list. apply Forall_rev.
  apply Forall_forall. intros g Hg. apply in_map_iff in Hg as [g' [<- Hin]]. apply swf_sinv.
  rewrite Forall_forall in H. auto.
Qed.

(* ---------- spectators ---------- *)
Definition setq (q : nat) (v : bool) (psi : state) : state := fun b => psi (upd b q v).

Lemma appf_setq f t q v psi : q <> t -> indep q f ->
  appf f t (setq q v psi) = setq q v (appf f t psi).
Proof.
  intros Hq Hf. apply functional_extensionality; intros b. unfold appf, setq, app1.
  rewrite Hf, (get_upd_other b q v t) by auto.
  rewrite !(upd_comm b q v t) by auto. reflexivity.
Qed.

Lemma sapp_setq g q v psi : ~ In q (squbits g) -> sapp g (setq q v psi) = setq q v (sapp g psi).
Proof.
  destruct g as [a|neg t|c t|cs t]; simpl; intros H; apply appf_setq.
  - intro E; apply H; auto.
  - intros b w; reflexivity.
  - intro E; apply H; auto.
  - intros b w; reflexivity.
  - intro E; apply H; auto.
  - intros b w. rewrite get_upd_other; auto.
  - intro E; apply H; auto.
  - intros b w. f_equal. apply allq_indep. intro E. apply H. right; auto.
Qed.

Theorem spectator c q v : (forall g, In g c -> ~ In q (squbits g)) ->
  forall psi, srun c (setq q v psi) = setq q v (srun c psi).
Proof.
  induction c as [|g c IH]; intros H psi. reflexivity.
  rewrite !srun_cons, sapp_setq by (apply H; now left). apply IH. intros g' Hg. apply H. now right.
Qed.
