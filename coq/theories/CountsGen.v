(* C10: the CNOT estimates of qclib.unitary (translated from the source: Gen_unitary_counts) equal the
   skeleton counts that mirror the synthesis recursion (Counts.cx_build: two multiplexers of two (n-1)-qubit
   syntheses plus a 2^(n-1)-CX UCRZ each, plus a multiplexed RY with 2^(n-1)-1 CZ; leaves cost 3, or 2 under
   A.2 for all two-qubit blocks but one). *)
From Coq Require Import ZArith Lia List Bool.
From QV Require Import GenLib Counts Gen_unitary_counts.
Open Scope Z_scope.

Lemma pow4 n : 0 <= n -> 2 ^ (2 * n) = 4 ^ n.
Proof. intros H. rewrite Z.pow_mul_r by lia. reflexivity. Qed.

Lemma ceil_div_exact c d : 0 < d -> ceil_div (d * c) d = c.
Proof.
  intros H. unfold ceil_div. symmetry. apply (Z.div_unique _ _ _ (d - 1)); lia.
Qed.

(* QSD with A.1 and A.2 on a full unitary, n = k + 2 >= 3 qubits *)
Theorem qsd_a2_estimate_eq (k : nat) : (0 < k)%nat ->
  _cnot_count_estimate (Z.of_nat k + 2) 0 0 true = cx_build_a2 k.
Proof.
  intros Hk. unfold _cnot_count_estimate.
  set (n := Z.of_nat k + 2).
  assert (Hn : 3 <= n) by (unfold n; lia).
  replace (n =? 1) with false by (symmetry; apply Z.eqb_neq; lia).
  replace (n =? 2) with false by (symmetry; apply Z.eqb_neq; lia).
  cbn [Z.eqb negb]. 
  pose proof (cx_build_a2_closed k) as C. cbv zeta in C. fold n in C.
  rewrite pow4 by lia.
  set (p4 := 4 ^ n) in *. set (p2 := 2 ^ n) in *.
  replace ((23 * 1 * p4 * (1 * 2 * 1) - 3 * 1 * p2 * (1 * 48 * 1)) * (1 * 3) + 4 * 1 * (1 * 48 * 1 * (1 * 2 * 1)))
    with (1 * 48 * 1 * (1 * 2 * 1) * (1 * 3) * cx_build_a2 k) by lia.
  apply ceil_div_exact. lia.
Qed.

(* QSD with A.1 only *)
Theorem qsd_noa2_estimate_eq (k : nat) : (0 < k)%nat ->
  _cnot_count_estimate (Z.of_nat k + 2) 0 0 false = cx_build k.
Proof.
  intros Hk. unfold _cnot_count_estimate.
  set (n := Z.of_nat k + 2).
  assert (Hn : 3 <= n) by (unfold n; lia).
  replace (n =? 1) with false by (symmetry; apply Z.eqb_neq; lia).
  replace (n =? 2) with false by (symmetry; apply Z.eqb_neq; lia).
  cbn [Z.eqb negb].
  pose proof (cx_build_a2_closed k) as C. cbv zeta in C. fold n in C.
  rewrite pow4 by lia.
  set (p4 := 4 ^ n) in *. set (p2 := 2 ^ n) in *.
  replace ((23 * 1 * p4 * (1 * 2 * 1) - 3 * 1 * p2 * (1 * 48 * 1)) * (1 * 3) + 4 * 1 * (1 * 48 * 1 * (1 * 2 * 1)))
    with (1 * 48 * 1 * (1 * 2 * 1) * (1 * 3) * cx_build_a2 k) by lia.
  rewrite ceil_div_exact by lia.
  unfold cx_build_a2, blocks. replace (n - 2) with (Z.of_nat k) by (unfold n; lia). lia.
Qed.

(* the recursive count used in isometry mode, at iso = 0, is the same skeleton: the source's two
   formulas for one circuit agree *)
Lemma iso_rec_eq (a2 : bool) : forall (k : nat) (fuel : nat), (2 * k + 1 <= fuel)%nat ->
  _cnot_count_iso fuel (Z.of_nat k + 2) 0 a2 = cx_build k - (if a2 then 4 ^ Z.of_nat k else 0).
Proof.
  induction k as [|k IH]; intros fuel Hf.
  - destruct fuel as [|fuel]; [lia|]. cbn [_cnot_count_iso]. cbn [Z.of_nat Z.add Z.gtb Z.compare Pos.compare Pos.compare_cont].
    destruct a2; reflexivity.
  - destruct fuel as [|fuel]; [lia|]. destruct fuel as [|fuel]; [lia|].
    cbn [_cnot_count_iso _cnot_count_iso_qsd].
    replace (Z.of_nat (S k) + 2 >? 2) with true by (symmetry; apply Z.gtb_lt; lia).
    cbn [Z.eqb negb].
    replace (Z.of_nat (S k) + 2 - 1) with (Z.of_nat k + 2) by lia.
    rewrite !IH by lia. cbn [cx_build]. cbv zeta.
    replace (Z.of_nat (S k) + 2 - 1) with (Z.of_nat k + 2) by lia.
    replace (Z.of_nat (S k)) with (Z.succ (Z.of_nat k)) by lia.
    destruct a2; [rewrite Z.pow_succ_r by lia|]; ring.
Qed.

Theorem iso0_estimate_consistent (k : nat) (a2 : bool) : (0 < k)%nat ->
  _cnot_count_iso (Z.to_nat (2 * (Z.of_nat k + 2) + 2)) (Z.of_nat k + 2) 0 a2 + (if a2 then 1 else 0)
  = _cnot_count_estimate (Z.of_nat k + 2) 0 0 a2.
Proof.
  intros Hk. rewrite iso_rec_eq by lia. destruct a2.
  - rewrite qsd_a2_estimate_eq by lia. unfold cx_build_a2, blocks. lia.
  - rewrite qsd_noa2_estimate_eq by lia. lia.
Qed.

(* CSD closed form as written in the source *)
Theorem csd_estimate_closed n iso a2 : 3 <= n ->
  _cnot_count_estimate n 1 iso a2 = 4 ^ n - 2 * 2 ^ n - 1.
Proof.
  intros Hn. unfold _cnot_count_estimate.
  replace (n =? 1) with false by (symmetry; apply Z.eqb_neq; lia).
  replace (n =? 2) with false by (symmetry; apply Z.eqb_neq; lia).
  cbn [Z.eqb Pos.eqb]. unfold ceil_div. replace (1 * (1 * 1)) with 1 by reflexivity. rewrite Z.div_1_r. ring.
Qed.
