(* C19: the two-dimensional recurrence behind BlackBoxInitialize.
   Coordinates (x, y) of x|good> + y|bad>, |s> = U|0> = (sin t, cos t).
   One round of the circuit is  Q = (I - 2|s><s|) (I - 2 P_good)  [U I_s U^dagger after I_t], which is MINUS the usual
   Grover iterate; the circuit compensates with a global phase pi for an odd number of rounds. *)
From Coq Require Import Reals Lra.
Open Scope R_scope.

Definition It (v : R * R) : R * R := (- fst v, snd v).
Definition Ss (t : R) (v : R * R) : R * R :=
  let d := sin t * fst v + cos t * snd v in (fst v - 2 * d * sin t, snd v - 2 * d * cos t).
Definition Q (t : R) (v : R * R) : R * R := Ss t (It v).
Fixpoint iter (t : R) (j : nat) (v : R * R) : R * R := match j with O => v | S j' => Q t (iter t j' v) end.
Definition sgn (j : nat) : R := (-1) ^ j.

Lemma Q_step t p : Q t (sin p, cos p) = (- sin (p + 2 * t), - cos (p + 2 * t)).
Proof.
  unfold Q, Ss, It. simpl.
  replace (p + 2 * t) with ((p + t) + t) by ring.
  rewrite (sin_plus (p + t) t), (cos_plus (p + t) t).
  assert (Hs : sin p = sin (p + t) * cos t - cos (p + t) * sin t).
  { replace p with ((p + t) - t) at 1 by ring. apply sin_minus. }
  assert (Hc : cos p = cos (p + t) * cos t + sin (p + t) * sin t).
  { replace p with ((p + t) - t) at 1 by ring. apply cos_minus. }
  assert (Hd : sin t * - sin p + cos t * cos p = cos (p + t)).
  { rewrite cos_plus. ring. }
  rewrite Hd. f_equal.
  - rewrite Hs. pose proof (sin2_cos2 t) as P. unfold Rsqr in P. nra.
  - rewrite Hc. pose proof (sin2_cos2 t) as P. unfold Rsqr in P. nra.
Qed.

Lemma Q_linear t c v : Q t (c * fst v, c * snd v) = (c * fst (Q t v), c * snd (Q t v)).
Proof. unfold Q, Ss, It. simpl. f_equal; ring. Qed.

Theorem grover_rec t j :
  iter t j (sin t, cos t) = (sgn j * sin ((2 * INR j + 1) * t), sgn j * cos ((2 * INR j + 1) * t)).
Proof.
  induction j as [|j IH].
  - simpl. unfold sgn. simpl. replace ((2 * 0 + 1) * t) with t by ring. f_equal; ring.
  - cbn [iter]. rewrite IH.
    change (sgn j * sin ((2 * INR j + 1) * t), sgn j * cos ((2 * INR j + 1) * t))
      with (sgn j * fst (sin ((2 * INR j + 1) * t), cos ((2 * INR j + 1) * t)),
            sgn j * snd (sin ((2 * INR j + 1) * t), cos ((2 * INR j + 1) * t))).
    rewrite Q_linear, Q_step. simpl fst. simpl snd.
    replace ((2 * INR j + 1) * t + 2 * t) with ((2 * INR (S j) + 1) * t) by (rewrite S_INR; ring).
    unfold sgn. simpl pow. f_equal; ring.
Qed.

(* flag-qubit amplitudes produced by the oracle for one basis state k:  RZ(-2 phi) RY(2 acos m) |0>
   = (m e^{i phi}, sqrt(1 - m^2) e^{-i phi})   for 0 <= m <= 1  (m = |a_k|, phi = arg a_k) *)
Theorem oracle_flag m : 0 <= m <= 1 ->
  cos (2 * acos m / 2) = m /\ sin (2 * acos m / 2) = sqrt (1 - m * m).
Proof.
  intros H. replace (2 * acos m / 2) with (acos m) by field. split.
  - apply cos_acos; lra.
  - rewrite sin_acos by lra. reflexivity.
Qed.
