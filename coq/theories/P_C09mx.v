(* Property C09 (matrix part): composing Schmidt terms sum_i s_i u_i (x) v_i gives U diag(s) Vh on the bipartition matrix, so
   decomposition followed by composition returns the matrix whenever the factors satisfy the SVD contract M = U diag(s) Vh
   (numpy svd contract - modelled, not verified; the resulting round trip is evaluated on every input).  Any commutative ring,
   any dimensions, any rank. *)
From mathcomp Require Import all_ssreflect all_algebra.
From QV Require Import SchmidtCompose.
Set Implicit Arguments. Unset Strict Implicit. Unset Printing Implicit Defensive.
Import GRing.Theory.
Local Open Scope ring_scope.

Theorem C09_schmidt_compose : forall (R : comRingType) (m n r : nat) (U : 'M[R]_(m, r)) (s : 'rV[R]_r) (Vh : 'M[R]_(r, n)),
  \sum_i s 0 i *: (col i U *m row i Vh) = U *m diag_mx s *m Vh.
Proof. exact: schmidt_compose. Qed.
Print Assumptions C09_schmidt_compose.

Theorem C09_schmidt_roundtrip : forall (R : comRingType) (m n r : nat) (M : 'M[R]_(m, n))
  (U : 'M[R]_(m, r)) (s : 'rV[R]_r) (Vh : 'M[R]_(r, n)),
  M = U *m diag_mx s *m Vh -> \sum_i s 0 i *: (col i U *m row i Vh) = M.
Proof. exact: schmidt_roundtrip. Qed.
Print Assumptions C09_schmidt_roundtrip.
