(* C06: the whole CVO-QRAM loop.  For a list of patterns (each given by the set of memory qubits that are 1), processed
   in an order in which no later pattern's control set is contained in an earlier pattern (which non-decreasing Hamming
   weight plus distinctness guarantees), the sequence  flip-flop ; multi-controlled U_j ; flip-flop  turns
   delta_{flag} into  sum_j x_j delta_{pattern_j} + g_m delta_{flag}  with  x_j = U_j[0,1] g_j,  g_(j+1) = U_j[1,1] g_j. *)
From Coq Require Import Reals Lra List Bool Arith Lia NArith FunctionalExtensionality.
From Coquelicot Require Import Complex.
From QV Require Import Sem Mat2 Toff2 Chain Cvoqram.
Import ListNotations.
Open Scope R_scope.

Section Loop.
Variable u : nat.
Variable U : nat -> mat2.

Definition wfp (ctl : list nat) : Prop := ~ In u ctl /\ NoDup ctl.
(* pattern p' is "above" p when p' has a control qubit that is 0 in p: p' does not fire on p *)
Definition not_fired (p' p : list nat) : Prop := allset p' (Pat p) = false.

Fixpoint run_pats (j : nat) (pats : list (list nat)) (psi : state) : state :=
  match pats with [] => psi | p :: rest => run_pats (S j) rest (step u p (U j) psi) end.

Fixpoint loaded (j : nat) (pats : list (list nat)) (g : C) (b : asg) : C :=
  match pats with
  | [] => 0
  | p :: rest => (mget (U j) false true * g) * delta b (Pat p) + loaded (S j) rest (mget (U j) true true * g) b
  end%C.
Fixpoint remaining (j : nat) (pats : list (list nat)) (g : C) : C :=
  match pats with [] => g | p :: rest => remaining (S j) rest (mget (U j) true true * g)%C end.

Lemma delta_Pat_u p b : ~ In u p -> get b u = true -> delta b (Pat p) = 0.
Proof.
  intros Hu Hb. apply delta_neq. intros ->. rewrite (Pat_u u p Hu) in Hb. discriminate.
Qed.

Theorem loop_spec : forall pats j (L : state) (g : C),
  Forall wfp pats ->
  (forall b, get b u = true -> L b = 0) ->
  (forall p, In p pats -> forall b, allset p b = true -> L b = 0) ->
  (* no later pattern fires on an earlier one *)
  (forall i i' p p', (i < i')%nat -> nth_error pats i = Some p -> nth_error pats i' = Some p' -> not_fired p' p) ->
  forall b, run_pats j pats (fun b => L b + g * delta b (eu u))%C b
            = (L b + loaded j pats g b + remaining j pats g * delta b (eu u))%C.
Proof.
  induction pats as [|p rest IH]; intros j L g W Lu La NF b.
  - cbn [run_pats loaded remaining]. ring.
  - cbn [run_pats loaded remaining].
    inversion W as [|? ? [Wu Wn] Wr]; subst.
    set (x := (mget (U j) false true * g)%C). set (g' := (mget (U j) true true * g)%C).
    assert (S1 : step u p (U j) (fun b => L b + g * delta b (eu u))%C
                 = (fun b => (fun b0 => L b0 + x * delta b0 (Pat p)) b + g' * delta b (eu u))%C).
    { apply functional_extensionality; intros b0.
      rewrite (cvo_step u p Wu Wn (U j) L g Lu (La p (or_introl eq_refl))). unfold x, g'. ring. }
    rewrite S1. rewrite (IH (S j) (fun b0 => L b0 + x * delta b0 (Pat p))%C g' Wr).
    + ring.
    + intros b0 Hb0. rewrite Lu by auto. rewrite delta_Pat_u by auto. ring.
    + intros p' Hp' b0 Hb0. rewrite (La p' (or_intror Hp')) by auto.
      apply In_nth_error in Hp' as [i' Hi'].
      assert (NFp : not_fired p' p) by (apply (NF 0%nat (S i') p p'); [lia | reflexivity | exact Hi']).
      rewrite delta_neq. ring. intros ->. unfold not_fired in NFp. congruence.
    + intros i i' q q' Hlt Hq Hq'. apply (NF (S i) (S i') q q'); auto. lia.
Qed.

(* the circuit omits the closing flip-flop of the last pattern: the remaining amplitude g_m (zero for a normalised
   dictionary) sits on |last pattern>|flag = 1> instead of |0..0>|flag = 1> *)
Definition FFp (p : list nat) (psi : state) : state := fun b => psi (sigma u p b).
Lemma step_FF p Um psi : ~ In u p -> NoDup p -> FFp p (step u p Um psi) = MCU u p Um (FF u p psi).
Proof.
  intros Hu Hn. unfold FFp, step, FF. apply functional_extensionality; intros b.
  now rewrite (sigma_invol u p Hu Hn).
Qed.
End Loop.
