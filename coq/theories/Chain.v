From Coq Require Import Reals Lra List Bool Arith Lia NArith FunctionalExtensionality.
From Coquelicot Require Import Complex.
From QV Require Import Sem Mat2 Toff2.
Import ListNotations.
Open Scope R_scope.

(* ---------- generic operator layer ---------- *)
Definition appf (f : asg -> mat2) (t : nat) (psi : state) : state := fun b => app1 (f b) t psi b.
Definition indep {A} (t : nat) (f : asg -> A) := forall b v, f (upd b t v) = f b.
Definition mono (p : asg -> asg) (s : asg -> C) (psi : state) : state := fun b => (s b * psi (p b))%C.

Lemma appf_appf f g t psi : indep t g ->
  appf f t (appf g t psi) = appf (fun b => mmul (f b) (g b)) t psi.
Proof.
  intros Hg. apply functional_extensionality; intros b. unfold appf, app1.
  rewrite !Hg, !get_upd_same, !upd_upd. destruct (get b t); simpl; ring.
Qed.

Lemma sandwich fL fR t p s psi :
  indep t fR -> indep t s -> (forall b v, p (upd b t v) = upd (p b) t v) ->
  forall b, appf fL t (mono p s (appf fR t psi)) b =
            (s b * app1 (mmul (fL b) (fR (p b))) t psi (p b))%C.
Proof.
  intros HfR Hs Hp b. unfold appf, mono, app1.
  rewrite !Hs, !Hp, !HfR, !get_upd_same, !upd_upd.
  assert (Hg : get (p b) t = get b t).
  { rewrite <- (upd_get b t) at 1. rewrite Hp. apply get_upd_same. }
  rewrite Hg. destruct (get b t); simpl; ring.
Qed.

(* ---------- gates ---------- *)
Inductive tgate := TRy (x : R) (t : nat) | TCx (c t : nat).
Definition tapp (g : tgate) (psi : state) : state :=
  match g with
  | TRy x t => appf (fun _ => RYm x) t psi
  | TCx c t => appf (fun b => Xpow (get b c)) t psi
  end.
Definition trun (c : list tgate) (psi : state) : state := fold_left (fun s g => tapp g s) c psi.
Lemma trun_app c1 c2 psi : trun (c1 ++ c2) psi = trun c2 (trun c1 psi).
Proof. unfold trun. now rewrite fold_left_app. Qed.

Definition T_R (c u t : nat) := [TRy (- th) t; TCx c t; TRy (- th) t; TCx u t].
Definition T_L (c u t : nat) := [TCx u t; TRy th t; TCx c t; TRy th t].

Definition fR (c u : nat) (b : asg) : mat2 := mmul (Xpow (get b u)) (Amat (get b c)).
Definition fL (c u : nat) (b : asg) : mat2 := mmul (Ainv (get b c)) (Xpow (get b u)).

Lemma indep_get t c : c <> t -> indep t (fun b => get b c).
Proof. intros H b v. now apply get_upd_other. Qed.

Ltac solve_indep := intros ?b ?v; simpl; rewrite ?get_upd_other by assumption; reflexivity.

Lemma T_R_sem c u t psi : c <> t -> u <> t -> trun (T_R c u t) psi = appf (fR c u) t psi.
Proof.
  intros Hc Hu. unfold T_R, trun; simpl.
  rewrite !appf_appf by solve_indep.
  f_equal. apply functional_extensionality; intros b. unfold fR, Amat.
  now rewrite !mmul_assoc.
Qed.
Lemma T_L_sem c u t psi : c <> t -> u <> t -> trun (T_L c u t) psi = appf (fL c u) t psi.
Proof.
  intros Hc Hu. unfold T_L, trun; simpl.
  rewrite !appf_appf by solve_indep.
  f_equal. apply functional_extensionality; intros b. unfold fL, Ainv.
  now rewrite !mmul_assoc.
Qed.

Definition T_full (c0 c1 t : nat) :=
  [TRy (- th) t; TCx c0 t; TRy (- th) t; TCx c1 t; TRy th t; TCx c0 t; TRy th t].
Lemma T_full_sem c0 c1 t psi : c0 <> t -> c1 <> t ->
  trun (T_full c0 c1 t) psi =
  appf (fun b => mmul (Ainv (get b c0)) (mmul (Xpow (get b c1)) (Amat (get b c0)))) t psi.
Proof.
  intros H0 H1. unfold T_full, trun; simpl.
  rewrite !appf_appf by solve_indep.
  f_equal. apply functional_extensionality; intros b. unfold Ainv, Amat.
  now rewrite !mmul_assoc.
Qed.

(* ---------- the chain ---------- *)
Section Chain.
Variables cq aq : nat -> nat.
Hypothesis cq_aq : forall i j, cq i <> aq j.
Hypothesis aq_inj : forall i j, aq i = aq j -> i = j.

Fixpoint chain (j : nat) : list tgate :=
  match j with
  | O => T_full (cq 0) (cq 1) (aq 0)
  | S j' => T_R (cq (S (S j'))) (aq j') (aq (S j')) ++ chain j' ++ T_L (cq (S (S j'))) (aq j') (aq (S j'))
  end.

(* all controls c_0..c_m set *)
Fixpoint allc (m : nat) (b : asg) : bool :=
  match m with O => get b (cq 0) | S m' => allc m' b && get b (cq (S m')) end.
Definition isX (i : nat) (b : asg) : bool := allc (S i) b.
Definition isZ (i : nat) (b : asg) : bool :=
  match i with O => negb (get b (cq 0)) && get b (cq 1) | S i' => allc i b && negb (get b (cq (S i))) end.
Definition flipq (q : nat) (b : asg) : asg := upd b q (negb (get b q)).
Fixpoint cperm (j : nat) (b : asg) : asg :=
  match j with
  | O => if isX 0 b then flipq (aq 0) b else b
  | S j' => let b' := cperm j' b in if isX (S j') b then flipq (aq (S j')) b' else b'
  end.
Definition sgn (v : bool) : C := if v then 1 else (-1)%R.
Fixpoint csign (j : nat) (b : asg) : C :=
  match j with
  | O => if isZ 0 b then sgn (get b (aq 0)) else 1
  | S j' => (csign j' b * (if isZ (S j') b then sgn (get b (aq (S j'))) else 1))%C
  end.

Lemma allc_upd_a m b i v : allc m (upd b (aq i) v) = allc m b.
Proof. induction m; simpl; rewrite ?IHm, get_upd_other; auto. Qed.
Lemma isX_upd_a i b k v : isX i (upd b (aq k) v) = isX i b.
Proof. apply allc_upd_a. Qed.
Lemma isZ_upd_a i b k v : isZ i (upd b (aq k) v) = isZ i b.
Proof. destruct i; simpl; rewrite ?allc_upd_a, !get_upd_other; auto. Qed.


Lemma flipq_upd q t b v : q <> t -> flipq q (upd b t v) = upd (flipq q b) t v.
Proof. intros H. unfold flipq. rewrite get_upd_other by auto. apply upd_comm. auto. Qed.

Lemma cperm_get j b q : (forall i, (i <= j)%nat -> q <> aq i) -> get (cperm j b) q = get b q.
Proof.
  induction j; intros H; simpl.
  - destruct (isX 0 b); auto. unfold flipq. apply get_upd_other. apply H; lia.
  - destruct (isX (S j) b).
    + unfold flipq. rewrite get_upd_other by (apply H; lia). apply IHj. intros; apply H; lia.
    + apply IHj. intros; apply H; lia.
Qed.
(* t is a qubit that isX does not read: an ancilla beyond j *)
Lemma cperm_upd j b k v : (j < k)%nat ->
  cperm j (upd b (aq k) v) = upd (cperm j b) (aq k) v.
Proof.
  intros H. induction j; simpl.
  - rewrite isX_upd_a. destruct (isX 0 b); auto. apply flipq_upd. intros E; apply aq_inj in E; lia.
  - rewrite isX_upd_a, IHj by lia. destruct (isX (S j) b); auto.
    apply flipq_upd. intros E; apply aq_inj in E; lia.
Qed.
Lemma csign_upd j b k v : (j < k)%nat -> csign j (upd b (aq k) v) = csign j b.
Proof.
  intros H. induction j; cbn [csign].
  - rewrite isZ_upd_a, get_upd_other; auto. intros E; apply aq_inj in E; lia.
  - rewrite IHj by lia. rewrite isZ_upd_a, get_upd_other; auto. intros E; apply aq_inj in E; lia.
Qed.

Lemma app1_I2 t psi b : app1 I2 t psi b = psi b.
Proof.
  unfold app1, I2. generalize (upd_get b t). destruct (get b t); intros H; simpl; rewrite H; ring.
Qed.
Lemma app1_X t psi b : app1 Xm t psi b = psi (flipq t b).
Proof. unfold app1, Xm, flipq. destruct (get b t); simpl; ring. Qed.
Lemma app1_mZ t psi b : app1 mZ t psi b = (sgn (get b t) * psi b)%C.
Proof.
  unfold app1, mZ, sgn. generalize (upd_get b t). destruct (get b t); intros H; simpl; rewrite H; ring.
Qed.

Lemma Xpow_Xpow u q : mmul (Xpow u) (Xpow (xorb u q)) = Xpow q.
Proof. destruct u, q; simpl; rewrite ?XX, ?mmul_I2_l, ?mmul_I2_r; reflexivity. Qed.

Lemma allc_cperm m j b : allc m (cperm j b) = allc m b.
Proof. induction m; simpl; rewrite ?IHm, cperm_get; auto; intros; apply cq_aq. Qed.


Lemma cperm_get_top j b : get (cperm j b) (aq j) = xorb (get b (aq j)) (isX j b).
Proof.
  destruct j; cbn [cperm].
  - destruct (isX 0 b). unfold flipq. rewrite get_upd_same. now destruct (get b (aq 0)).
    now rewrite xorb_false_r.
  - destruct (isX (S j) b).
    + unfold flipq. rewrite get_upd_same. rewrite cperm_get.
      now destruct (get b (aq (S j))). intros i Hi E; apply aq_inj in E; lia.
    + rewrite xorb_false_r. apply cperm_get. intros i Hi E; apply aq_inj in E; lia.
Qed.

Lemma isX_S j b : isX (S j) b = isX j b && get b (cq (S (S j))).
Proof. reflexivity. Qed.
Lemma isZ_S j b : isZ (S j) b = isX j b && negb (get b (cq (S (S j)))).
Proof. reflexivity. Qed.

Theorem chain_mono j : forall psi, trun (chain j) psi = mono (cperm j) (csign j) psi.
Proof.
  induction j as [|j IH]; intros psi.
  - cbn [chain]. rewrite T_full_sem by apply cq_aq.
    apply functional_extensionality; intros b. unfold appf, mono. rewrite AinvXA.
    cbn [cperm csign]. unfold isX, isZ. cbn [allc].
    destruct (get b (cq 0)), (get b (cq 1)); cbn [andb negb];
      rewrite ?app1_I2, ?app1_X, ?app1_mZ; ring.
  - cbn [chain]. rewrite !trun_app, T_R_sem, IH, T_L_sem
      by (try apply cq_aq; intros E; apply aq_inj in E; lia).
    apply functional_extensionality; intros b.
    rewrite sandwich.
    + unfold fL, fR, mono.
      rewrite (cperm_get j b (cq (S (S j)))) by (intros; apply cq_aq).
      rewrite cperm_get_top.
      rewrite <- mmul_assoc, (mmul_assoc (Xpow _) (Xpow _)), Xpow_Xpow, AinvXA.
      cbn [cperm csign]. rewrite isX_S, isZ_S.
      assert (Ht : get (cperm j b) (aq (S j)) = get b (aq (S j))).
      { apply cperm_get. intros i Hi E; apply aq_inj in E; lia. }
      destruct (isX j b), (get b (cq (S (S j)))); cbn [andb negb];
        rewrite ?app1_I2, ?app1_X, ?app1_mZ, ?Ht; ring.
    + unfold fR. intros b0 v. rewrite !get_upd_other; auto.
      intros E; apply aq_inj in E; lia.
    + intros b0 v. apply csign_upd. lia.
    + intros b0 v. apply cperm_upd. lia.
Qed.
End Chain.
Print Assumptions chain_mono.
