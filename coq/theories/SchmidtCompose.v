(* C09: Schmidt composition on the bipartition matrix.  sum_i s_i u_i (x) v_i, with u_i the columns of U and v_i the rows
   of Vh, is the product U diag(s) Vh - for any commutative ring, any dimensions, any number of terms. *)
From mathcomp Require Import all_ssreflect all_algebra.
Set Implicit Arguments. Unset Strict Implicit. Unset Printing Implicit Defensive.
Import GRing.Theory.
Local Open Scope ring_scope.
Section SchmidtCompose.
Variable (R : comRingType) (m n r : nat).
(* Schmidt composition: sum_i s_i u_i (x) v_i, written on the bipartition matrix, is U diag(s) Vh *)
Theorem schmidt_compose (U : 'M[R]_(m, r)) (s : 'rV[R]_r) (Vh : 'M[R]_(r, n)) :
  \sum_i s 0 i *: (col i U *m row i Vh) = U *m diag_mx s *m Vh.
Proof.
  rewrite mul_mx_diag. apply/matrixP => a b. rewrite summxE [RHS]mxE. apply: eq_bigr => i _.
  rewrite !mxE big_ord1 !mxE. by rewrite mulrA [s 0 i * _]mulrC.
Qed.
(* hence decomposition followed by composition gives the matrix back whenever the factors satisfy the SVD contract *)
Corollary schmidt_roundtrip (M : 'M[R]_(m, n)) (U : 'M[R]_(m, r)) (s : 'rV[R]_r) (Vh : 'M[R]_(r, n)) :
  M = U *m diag_mx s *m Vh -> \sum_i s 0 i *: (col i U *m row i Vh) = M.
Proof. move=> ->. exact: schmidt_compose. Qed.
End SchmidtCompose.
