(* helpers for generated case files (correspondence check): boolean comparison of gate lists *)
From Coq Require Import List Bool Arith QArith ZArith.
From QV Require Import Sem UcrModel.
Import ListNotations.

Definition rot_eqb (a b : rot) := match a, b with RotY, RotY | RotZ, RotZ => true | _, _ => false end.
Definition ent_eqb (a b : ent) := match a, b with EntCX, EntCX | EntCZ, EntCZ => true | _, _ => false end.
Definition pgate_eqb (g h : pgate Q) : bool :=
  match g, h with
  | PRot r x q, PRot r' x' q' => rot_eqb r r' && Qeq_bool x x' && Nat.eqb q q'
  | PEnt e c t, PEnt e' c' t' => ent_eqb e e' && Nat.eqb c c' && Nat.eqb t t'
  | _, _ => false
  end.
Fixpoint list_eqb {A} (eqb : A -> A -> bool) (l m : list A) : bool :=
  match l, m with
  | [], [] => true
  | x :: l', y :: m' => eqb x y && list_eqb eqb l' m'
  | _, _ => false
  end.
(* indices of the cases whose boolean is false *)
Fixpoint failing_from (i : nat) (l : list bool) : list nat :=
  match l with [] => [] | b :: l' => (if b then [] else [i]) ++ failing_from (S i) l' end.
Definition failing := failing_from 0.
(* first index at which two lists differ (for the replay file) *)
Fixpoint first_diff {A} (eqb : A -> A -> bool) (i : nat) (l m : list A) : option nat :=
  match l, m with
  | [], [] => None
  | x :: l', y :: m' => if eqb x y then first_diff eqb (S i) l' m' else Some i
  | _, _ => Some i
  end.

(* approximate comparison for float-derived angles: |x - y| <= eps *)
Definition qclose (eps x y : Q) : bool := Qle_bool (Qabs.Qabs (x - y)) eps.
Definition pgate_close (eps : Q) (g h : pgate Q) : bool :=
  match g, h with
  | PRot r x q, PRot r' x' q' => rot_eqb r r' && qclose eps x x' && Nat.eqb q q'
  | PEnt e c t, PEnt e' c' t' => ent_eqb e e' && Nat.eqb c c' && Nat.eqb t t'
  | _, _ => false
  end.

(* per-gate inverse / relabelling on the rotation IR (mirrors IrPropsRot.ginv, TopDownModel.relabel_p) *)
Definition pinv (g : pgate Q) : pgate Q := match g with PRot r x q => PRot r (- x) q | PEnt e c t => PEnt e c t end.
Definition pinv_list (c : list (pgate Q)) : list (pgate Q) := rev (map pinv c).
Definition pwfb (g : pgate Q) : bool := match g with PRot _ _ _ => true | PEnt _ c t => negb (Nat.eqb c t) end.
Definition pmentions (q : nat) (g : pgate Q) : bool :=
  match g with PRot _ _ t => Nat.eqb q t | PEnt _ c t => Nat.eqb q c || Nat.eqb q t end.
Definition prelabel (l : list nat) (g : pgate Q) : pgate Q :=
  match g with PRot r x q => PRot r x (nth q l 0%nat) | PEnt e c t => PEnt e (nth c l 0%nat) (nth t l 0%nat) end.
