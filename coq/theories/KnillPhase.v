(* C03, Knill scheme: the phase step  x on every qubit ; mcp(theta) on the last qubit controlled by all others ; x on every
   qubit  multiplies the basis state |0..0> by e^{i theta} and leaves every other basis state alone. *)
From Coq Require Import Reals Lra List Bool Arith Lia NArith FunctionalExtensionality.
From Coquelicot Require Import Complex.
From QV Require Import Sem Mat2 Toff2 Chain Vchain Cvoqram.
Import ListNotations.
Open Scope nat_scope.

Definition cisK (x : R) : C := (cos x, sin x).
Inductive kgate := KX (q : nat) | KMCP (theta : R) (cs : list nat) (t : nat).
Definition kapp (g : kgate) (psi : state) : state :=
  match g with
  | KX q => app1 Xm q psi
  | KMCP th cs t => fun b => if forallb (get b) cs && get b t then (cisK th * psi b)%C else psi b
  end.
Definition krun (c : list kgate) (psi : state) : state := fold_left (fun s g => kapp g s) c psi.
Lemma krun_app c1 c2 psi : krun (c1 ++ c2) psi = krun c2 (krun c1 psi).
Proof. unfold krun. now rewrite fold_left_app. Qed.

Lemma flipq_swap q x b : flipq q (flipq x b) = flipq x (flipq q b).
Proof.
  destruct (Nat.eq_dec q x) as [->|H]. reflexivity.
  apply asg_ext. intros y.
  destruct (Nat.eq_dec y q) as [Eq|Hq]; destruct (Nat.eq_dec y x) as [Ex|Hx]; subst; try congruence;
    repeat first [rewrite flq_same | rewrite flq_other by auto]; reflexivity.
Qed.
Lemma flipq_flips_any l : forall q b, flipq q (flips l b) = flips l (flipq q b).
Proof.
  induction l as [|x l IH]; intros q b; simpl. reflexivity.
  rewrite IH. f_equal. apply flipq_swap.
Qed.
Lemma xlayer qs psi : krun (map KX qs) psi = fun b => psi (flips qs b).
Proof.
  revert psi. induction qs as [|q qs IH]; intros psi. reflexivity.
  cbn [map krun fold_left]. change (fold_left (fun s g => kapp g s) ?l ?s) with (krun l s). rewrite IH.
  apply functional_extensionality; intros b. cbn [kapp flips]. rewrite app1_X.
  f_equal. apply flipq_flips_any.
Qed.

Definition allzero (qs : list nat) (b : asg) : bool := forallb (fun q => negb (get b q)) qs.

Theorem knill_phase (cs : list nat) (t : nat) (theta : R) psi : NoDup (cs ++ [t]) ->
  krun (map KX (cs ++ [t]) ++ [KMCP theta cs t] ++ map KX (cs ++ [t])) psi
  = fun b => if allzero (cs ++ [t]) b then (cisK theta * psi b)%C else psi b.
Proof.
  intros Hn. rewrite !krun_app, !xlayer. apply functional_extensionality; intros b.
  cbn [krun fold_left kapp].
  assert (Inv : flips (cs ++ [t]) (flips (cs ++ [t]) b) = b).
  { apply asg_ext. intros x. destruct (in_dec Nat.eq_dec x (cs ++ [t])) as [I|I].
    - rewrite !flips_get_in by auto. apply negb_involutive.
    - now rewrite !flips_get_out by auto. }
  assert (E : forallb (get (flips (cs ++ [t]) b)) cs && get (flips (cs ++ [t]) b) t = allzero (cs ++ [t]) b).
  { unfold allzero. rewrite forallb_app. cbn [forallb]. rewrite andb_true_r.
    rewrite flips_get_in by (auto; apply in_or_app; right; now left). f_equal.
    assert (G : forall l, (forall q, In q l -> In q (cs ++ [t])) ->
                forallb (get (flips (cs ++ [t]) b)) l = forallb (fun q => negb (get b q)) l).
    { induction l as [|q l IH]; intros H; simpl; auto.
      rewrite flips_get_in by (auto; apply H; now left). f_equal. apply IH. intros; apply H; now right. }
    apply G. intros q Hq. apply in_or_app. now left. }
  rewrite E. rewrite Inv. reflexivity.
Qed.
