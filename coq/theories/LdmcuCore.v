(* C04, Ldmcu (linear-depth multi-controlled U, da Silva & Park / Saeedi & Pedram): the four sweeps of controlled roots.
   Gates are controlled powers  E t z  of a per-target one-parameter group (E t (a + b) = E t a * E t b): on a control qubit t
   the unit is RX(pi / 2^(t-1)), on the real target it is U^(1 / 2^(t-1)).  This file: the grouped form of the sweeps
   (all gates of one target merged), proved to be the cascade "flip qubit j iff all lower qubits are 1" and its inverse. *)
From Coq Require Import Reals Lra List Bool Arith Lia NArith ZArith FunctionalExtensionality.
From Coquelicot Require Import Complex.
From QV Require Import Sem Mat2 Toff2 Chain Vchain Cvoqram.
Import ListNotations.
Open Scope nat_scope.

Record lg := LG { gc : nat; gt : nat; gz : Z }.

Section Core.
Variable E : nat -> Z -> mat2.
Hypothesis E_add : forall t a b, E t (a + b)%Z = mmul (E t a) (E t b).
Hypothesis E_0 : forall t, E t 0%Z = I2.

Definition lf (g : lg) (b : asg) : mat2 := if get b (gc g) then E (gt g) (gz g) else I2.
Definition lapp (g : lg) (psi : state) : state := appf (lf g) (gt g) psi.
Definition lrun (l : list lg) (psi : state) : state := fold_left (fun s g => lapp g s) l psi.
Lemma lrun_app l1 l2 psi : lrun (l1 ++ l2) psi = lrun l2 (lrun l1 psi).
Proof. unfold lrun. now rewrite fold_left_app. Qed.
Lemma lrun_cons g l psi : lrun (g :: l) psi = lrun l (lapp g psi).
Proof. reflexivity. Qed.

(* a gate on target t whose exponent is a function of the other qubits *)
Definition WG (t : nat) (w : asg -> Z) (psi : state) : state := appf (fun b => E t (w b)) t psi.
Lemma WG_WG t w1 w2 psi : indep t w2 -> WG t w1 (WG t w2 psi) = WG t (fun b => (w1 b + w2 b)%Z) psi.
Proof.
  intros H. unfold WG. rewrite appf_appf.
  - f_equal. apply functional_extensionality; intros b. now rewrite E_add.
  - intros b v. now rewrite H.
Qed.
Lemma WG_0 t w psi : (forall b, w b = 0%Z) -> WG t w psi = psi.
Proof.
  intros H. apply functional_extensionality; intros b. unfold WG, appf. rewrite H, E_0. apply app1_I2.
Qed.
Lemma WG_ext t w w' psi : (forall b, w b = w' b) -> WG t w psi = WG t w' psi.
Proof. intros H. unfold WG. f_equal. apply functional_extensionality; intros b. now rewrite H. Qed.
Definition wbit (c : nat) (z : Z) (b : asg) : Z := if get b c then z else 0%Z.
Lemma lapp_WG g psi : lapp g psi = WG (gt g) (wbit (gc g) (gz g)) psi.
Proof.
  unfold lapp, WG. f_equal. apply functional_extensionality; intros b. unfold lf, wbit.
  destruct (get b (gc g)); auto.
Qed.

(* all the gates of one target merged *)
Fixpoint wsum (z : nat -> Z) (cs : list nat) (b : asg) : Z :=
  match cs with [] => 0%Z | c :: cs' => (wbit c (z c) b + wsum z cs' b)%Z end.
Lemma wsum_indep z cs t : ~ In t cs -> indep t (wsum z cs).
Proof.
  induction cs as [|c cs IH]; intros H b v; simpl; auto.
  unfold wbit. rewrite get_upd_other by (intro; apply H; now left). f_equal. apply IH. intro; apply H; now right.
Qed.
Lemma wsum_app z l1 l2 b : wsum z (l1 ++ l2) b = (wsum z l1 b + wsum z l2 b)%Z.
Proof. induction l1 as [|c l1 IH]; simpl; auto. rewrite IH. ring. Qed.
Lemma group_sem z t cs psi : ~ In t cs -> lrun (map (fun c => LG c t (z c)) cs) psi = WG t (wsum z cs) psi.
Proof.
  revert psi. induction cs as [|c cs IH]; intros psi H.
  - simpl. symmetry. now apply WG_0.
  - cbn [map]. rewrite lrun_cons, IH by (intro; apply H; now right). rewrite lapp_WG. cbn [gt gc gz].
    rewrite WG_WG.
    + apply WG_ext. intros b. simpl. ring.
    + intros b v. unfold wbit. now rewrite get_upd_other by (intro; apply H; now left).
Qed.

(* inverse of a gate list of this alphabet: reversed order, negated exponents *)
Definition linv (g : lg) : lg := LG (gc g) (gt g) (- gz g)%Z.
Definition linv_list (l : list lg) : list lg := rev (map linv l).
Lemma lapp_linv g psi : gc g <> gt g -> lapp (linv g) (lapp g psi) = psi.
Proof.
  intros W. rewrite !lapp_WG. cbn [linv gt gc gz]. rewrite WG_WG.
  - apply WG_0. intros b. unfold wbit. destruct (get b (gc g)); ring.
  - intros b v. unfold wbit. now rewrite get_upd_other by auto.
Qed.
Theorem linverse_right l : Forall (fun g => gc g <> gt g) l -> forall psi, lrun (l ++ linv_list l) psi = psi.
Proof.
  induction 1 as [|g l Hg Hl IH]; intros psi. reflexivity.
  unfold linv_list. cbn [map rev]. rewrite <- app_comm_cons, lrun_cons, app_assoc, lrun_app.
  fold (linv_list l). rewrite IH. cbn [lrun fold_left]. now apply lapp_linv.
Qed.

(* ---------- the cascade ---------- *)
Definition ones (j : nat) (b : asg) : bool := forallb (fun i => get b i) (seq 0 j).
Lemma ones_S j b : ones (S j) b = ones j b && get b j.
Proof. unfold ones. rewrite seq_S, forallb_app. simpl. now rewrite andb_true_r. Qed.
Lemma ones_upd j b q v : j <= q -> ones j (upd b q v) = ones j b.
Proof.
  intros H. unfold ones. induction j as [|j IH]. reflexivity.
  rewrite seq_S, !forallb_app. simpl. rewrite get_upd_other by lia. rewrite IH by lia. reflexivity.
Qed.

Lemma ones_flipq j b q : j <= q -> ones j (flipq q b) = ones j b.
Proof. intros H. unfold flipq. now apply ones_upd. Qed.

Variable T : nat.                                   (* the real target; qubits 1 .. T-1 are the controls that get rotated *)
Definition NX : mat2 := M2 (RtoC 0) (0, -1)%R (0, -1)%R (RtoC 0).
Definition PX : mat2 := M2 (RtoC 0) (0, 1)%R (0, 1)%R (RtoC 0).
Hypothesis E_full : forall j, 1 <= j -> j < T -> E j (2 ^ Z.of_nat (j - 1))%Z = NX.

Lemma E_neg_full j : 1 <= j -> j < T -> E j (- 2 ^ Z.of_nat (j - 1))%Z = PX.
Proof.
  intros H1 H2.
  assert (I : mmul (E j (- 2 ^ Z.of_nat (j - 1))%Z) NX = I2).
  { rewrite <- (E_full j H1 H2), <- E_add. replace (- 2 ^ Z.of_nat (j - 1) + 2 ^ Z.of_nat (j - 1))%Z with 0%Z by ring. apply E_0. }
  assert (NP : mmul NX PX = I2) by (unfold NX, PX, I2; crush_m2).
  rewrite <- (mmul_I2_r (E j _)), <- NP, mmul_assoc, I. apply mmul_I2_l.
Qed.

Definition full (j : nat) (sg : bool) (b : asg) : Z :=
  if ones j b then (if sg then - 2 ^ Z.of_nat (j - 1) else 2 ^ Z.of_nat (j - 1))%Z else 0%Z.
Definition Mop (sg : bool) (j : nat) (psi : state) : state := WG j (full j sg) psi.
Definition sigma (j : nat) (b : asg) : asg := if ones j b then flipq j b else b.
Definition sph (sg : bool) (j : nat) (b : asg) : C := if ones j b then (if sg then (0, 1)%R else (0, -1)%R) else RtoC 1.

Lemma Mop_mono sg j psi : 1 <= j -> j < T -> Mop sg j psi = fun b => (sph sg j b * psi (sigma j b))%C.
Proof.
  intros H1 H2. apply functional_extensionality; intros b. unfold Mop, WG, appf, full, sph, sigma.
  destruct (ones j b).
  - destruct sg; [rewrite E_neg_full by auto | rewrite E_full by auto]; unfold app1, flipq;
      destruct (get b j); simpl; ring.
  - rewrite E_0, app1_I2. ring.
Qed.

Lemma sigma_sigma j b : sigma j (sigma j b) = b.
Proof.
  unfold sigma. destruct (ones j b) eqn:O.
  - rewrite ones_flipq by lia. rewrite O. apply flipq_flipq.
  - now rewrite O.
Qed.
Lemma sigma_upd j b t v : j < t -> sigma j (upd b t v) = upd (sigma j b) t v.
Proof.
  intros H. unfold sigma. rewrite ones_upd by lia. destruct (ones j b); auto.
  unfold flipq. rewrite get_upd_other by lia. apply upd_comm. lia.
Qed.
Lemma get_sigma_other j b q : q <> j -> get (sigma j b) q = get b q.
Proof. intros H. unfold sigma. destruct (ones j b); auto. now apply flq_other. Qed.
Lemma get_sigma_same j b : get (sigma j b) j = xorb (get b j) (ones j b).
Proof.
  unfold sigma. destruct (ones j b). rewrite flq_same. now destruct (get b j). now rewrite xorb_false_r.
Qed.

(* a gate on a higher target passes through one cascade step *)
Lemma push_Mop sg j t w psi : 1 <= j -> j < T -> j < t ->
  WG t w (Mop sg j psi) = Mop sg j (WG t (fun b => w (sigma j b)) psi).
Proof.
  intros H1 H2 Ht. rewrite !Mop_mono by auto. apply functional_extensionality; intros b.
  unfold WG, appf, app1. rewrite !sigma_upd by auto. rewrite sigma_sigma.
  rewrite get_sigma_other by lia.
  assert (P : forall v, sph sg j (upd b t v) = sph sg j b) by (intros v; unfold sph; now rewrite ones_upd by lia).
  rewrite !P. ring.
Qed.

(* Pi m = M_1 after ... after M_m  (M_m first);  Pi' m = M'_m after ... after M'_1 *)
Fixpoint Pi (m : nat) (psi : state) : state := match m with O => psi | S m' => Pi m' (Mop false (S m') psi) end.
Fixpoint Pi' (m : nat) (psi : state) : state := match m with O => psi | S m' => Mop true (S m') (Pi' m' psi) end.
Fixpoint tau (m : nat) (b : asg) : asg := match m with O => b | S m' => tau m' (sigma (S m') b) end.

Lemma push_Pi m : m < T -> forall t w psi, m < t -> WG t w (Pi m psi) = Pi m (WG t (fun b => w (tau m b)) psi).
Proof.
  induction m as [|m IH]; intros Hm t w psi Ht. reflexivity.
  cbn [Pi tau]. rewrite IH by lia. f_equal. rewrite push_Mop by lia. reflexivity.
Qed.
Lemma pull_Mop sg j t w psi : 1 <= j -> j < T -> j < t ->
  Mop sg j (WG t w psi) = WG t (fun b => w (sigma j b)) (Mop sg j psi).
Proof.
  intros H1 H2 Ht. rewrite push_Mop by auto. f_equal. apply WG_ext. intros b. now rewrite sigma_sigma.
Qed.
Lemma pull_Pi' m : m < T -> forall t w psi, m < t -> Pi' m (WG t w psi) = WG t (fun b => w (tau m b)) (Pi' m psi).
Proof.
  induction m as [|m IH]; intros Hm t w psi Ht. reflexivity.
  cbn [Pi' tau]. rewrite IH by lia. rewrite pull_Mop by lia. reflexivity.
Qed.

Lemma get_tau m b c : get (tau m b) c = if (1 <=? c) && (c <=? m) then xorb (get b c) (ones c b) else get b c.
Proof.
  revert b. induction m as [|m IH]; intros b.
  - cbn [tau]. destruct (Nat.leb_spec 1 c), (Nat.leb_spec c 0); simpl; auto; lia.
  - cbn [tau]. rewrite IH.
    assert (OS : forall x, x <= S m -> ones x (sigma (S m) b) = ones x b).
    { intros x Hx. unfold sigma. destruct (ones (S m) b); auto. now apply ones_flipq. }
    destruct (Nat.eq_dec c (S m)) as [->|Hc].
    + rewrite get_sigma_same, OS by lia.
      destruct (Nat.leb_spec 1 (S m)), (Nat.leb_spec (S m) m), (Nat.leb_spec (S m) (S m)); simpl; auto; lia.
    + rewrite get_sigma_other by auto.
      destruct (Nat.leb_spec 1 c), (Nat.leb_spec c m), (Nat.leb_spec c (S m)); simpl; auto; try lia.
      now rewrite OS by lia.
Qed.

Lemma Pi'_Pi m psi : m < T -> Pi' m (Pi m psi) = psi.
Proof.
  revert psi. induction m as [|m IH]; intros psi Hm. reflexivity.
  cbn [Pi Pi']. rewrite IH by lia. unfold Mop. rewrite WG_WG.
  - apply WG_0. intros b. unfold full. destruct (ones (S m) b); ring.
  - intros b v. unfold full. now rewrite ones_upd by lia.
Qed.

(* ---------- the weights ---------- *)
Definition wt (c : nat) : Z := match c with O => 1%Z | S c' => (2 ^ Z.of_nat c')%Z end.
Definition A (m : nat) : list lg := map (fun c => LG c m (wt c)) (seq 0 m).                                  (* sweep 1, target m *)
Definition B (m : nat) : list lg := map (fun c => LG c m (- wt c)%Z) (seq 1 (m - 1)).                         (* sweeps 2 and 4 *)
Definition A' (m : nat) : list lg := map (fun c => LG c m (if c =? 0 then (- wt c)%Z else wt c)) (seq 0 m).   (* sweep 3 *)
Fixpoint Sl (m : nat) : list lg := match m with O => [] | S m' => A m ++ Sl m' ++ B m end.
Fixpoint Sl' (m : nat) : list lg := match m with O => [] | S m' => A' m ++ Sl' m' ++ B m end.

Definition bz (x : bool) : Z := if x then 1%Z else 0%Z.
(* x_0 + sum_{c=1}^{m} (x_c - y_c) 2^(c-1) = 2^m [x_0 .. x_m all 1],  y_c = x_c xor [x_0 .. x_(c-1) all 1] *)
Lemma wsum_ext_in z l b b' : (forall c, In c l -> get b c = get b' c) -> wsum z l b = wsum z l b'.
Proof.
  induction l as [|c l IH]; intros H; simpl; auto. rewrite IH by (intros; apply H; now right).
  unfold wbit. now rewrite (H c (or_introl eq_refl)).
Qed.
Lemma weight_identity m b :
  (wsum wt (seq 0 (S m)) b + wsum (fun c => (- wt c)%Z) (seq 1 m) (tau m b) = bz (ones (S m) b) * 2 ^ Z.of_nat m)%Z.
Proof.
  induction m as [|m IH].
  - simpl. unfold wbit, ones. simpl. destruct (get b 0); simpl; ring.
  - rewrite (seq_S (S m) 0), wsum_app. rewrite (seq_S m 1), wsum_app.
    cbn [wsum Nat.add].
    rewrite (wsum_ext_in _ (seq 1 m) (tau (S m) b) (tau m b)).
    2:{ intros c Hc. apply in_seq in Hc. rewrite !get_tau.
        destruct (Nat.leb_spec 1 c), (Nat.leb_spec c m), (Nat.leb_spec c (S m)); simpl; auto; lia. }
    unfold wbit. rewrite get_tau.
    replace ((1 <=? S m) && (S m <=? S m)) with true by (rewrite Nat.leb_refl; reflexivity).
    rewrite (ones_S (S m)). cbn [wt]. rewrite Nat2Z.inj_succ, Z.pow_succ_r by lia.
    destruct (ones (S m) b), (get b (S m)); simpl xorb; simpl andb; unfold bz in *; lia.
Qed.

(* sweeps 1 + 2 in grouped form are the cascade; the target of the outermost group may be the real target T *)
Lemma A_sem m psi : lrun (A m) psi = WG m (wsum wt (seq 0 m)) psi.
Proof. unfold A. apply group_sem. intro H. apply in_seq in H. lia. Qed.
Lemma B_sem m psi : lrun (B m) psi = WG m (wsum (fun c => (- wt c)%Z) (seq 1 (m - 1))) psi.
Proof. unfold B. apply group_sem. intro H. apply in_seq in H. lia. Qed.
Definition wt' (c : nat) : Z := if c =? 0 then (- wt c)%Z else wt c.
Lemma A'_sem m psi : lrun (A' m) psi = WG m (wsum wt' (seq 0 m)) psi.
Proof. unfold A'. apply (group_sem wt'). intro H. apply in_seq in H. lia. Qed.

Theorem Sl_sem m : m <= T -> forall psi, lrun (Sl m) psi = Pi m psi.
Proof.
  induction m as [|m IH]; intros Hm psi. reflexivity.
  cbn [Sl Pi]. rewrite !lrun_app, IH by lia. rewrite A_sem, B_sem. replace (S m - 1) with m by lia.
  rewrite push_Pi by lia. f_equal. rewrite WG_WG.
  - unfold Mop. apply WG_ext. intros b. pose proof (weight_identity m b) as W. unfold full.
    replace (S m - 1) with m by lia. unfold bz in W. destruct (ones (S m) b); lia.
  - apply wsum_indep. intro H. apply in_seq in H. lia.
Qed.

(* the same identity for sweeps 3 + 4 (control 0 enters with the opposite sign) *)
Lemma weight_identity' m b :
  (wsum (fun c => (- wt c)%Z) (seq 1 m) b + wsum wt' (seq 0 (S m)) (tau m b) = - (bz (ones (S m) b) * 2 ^ Z.of_nat m))%Z.
Proof.
  induction m as [|m IH].
  - simpl. unfold wbit, ones, wt'. simpl. destruct (get b 0); simpl; ring.
  - rewrite (seq_S (S m) 0), wsum_app. rewrite (seq_S m 1), wsum_app.
    cbn [wsum Nat.add].
    rewrite (wsum_ext_in _ (seq 0 (S m)) (tau (S m) b) (tau m b)).
    2:{ intros c Hc. apply in_seq in Hc. rewrite !get_tau.
        destruct (Nat.leb_spec 1 c), (Nat.leb_spec c m), (Nat.leb_spec c (S m)); simpl; auto; lia. }
    unfold wbit. rewrite get_tau.
    replace ((1 <=? S m) && (S m <=? S m)) with true by (rewrite Nat.leb_refl; reflexivity).
    rewrite (ones_S (S m)). unfold wt' at 2. cbn [Nat.eqb wt]. rewrite Nat2Z.inj_succ, Z.pow_succ_r by lia.
    destruct (ones (S m) b), (get b (S m)); simpl xorb; simpl andb; unfold bz in *; lia.
Qed.

Theorem Sl'_sem m : m < T -> forall psi, lrun (Sl' m) psi = Pi' m psi.
Proof.
  induction m as [|m IH]; intros Hm psi. reflexivity.
  cbn [Sl' Pi']. rewrite !lrun_app, IH by lia. rewrite A'_sem, B_sem. replace (S m - 1) with m by lia.
  rewrite pull_Pi' by lia. rewrite WG_WG.
  - unfold Mop. apply WG_ext. intros b. pose proof (weight_identity' m b) as W. unfold full.
    replace (S m - 1) with m by lia. unfold bz in W. destruct (ones (S m) b); lia.
  - intros b v. apply wsum_ext_in. intros c Hc. apply in_seq in Hc. rewrite !get_tau.
    assert (forall x, x <= S m -> ones x (upd b (S m) v) = ones x b) by (intros; now apply ones_upd).
    destruct ((1 <=? c) && (c <=? m)); rewrite ?get_upd_other by lia; rewrite ?H by lia; reflexivity.
Qed.

(* the four sweeps in grouped form: U^(1) on the target iff every control is 1 *)
Theorem grouped_sem psi : 1 <= T ->
  lrun (Sl T ++ Sl' (T - 1)) psi = appf (fun b => if ones T b then E T (2 ^ Z.of_nat (T - 1))%Z else I2) T psi.
Proof.
  intros HT. rewrite lrun_app, Sl_sem, Sl'_sem by lia.
  destruct T as [|m] eqn:ET. lia. cbn [Pi]. replace (S m - 1) with m by lia.
  rewrite Pi'_Pi by lia. unfold Mop, WG. f_equal. apply functional_extensionality; intros b.
  unfold full. replace (S m - 1) with m by lia. destruct (ones (S m) b); auto.
Qed.
(* MCU (the approximate gate): the same four sweeps without the gate from control 0 to the real target.  The target then receives
   E T (2^(T-1) [all controls 1] - [control 0]) : the ideal gate followed by the inverse of the deepest root when control 0 is set. *)
Definition A0less (m : nat) : list lg := map (fun c => LG c m (wt c)) (seq 1 (m - 1)).
Lemma A0less_sem m psi : lrun (A0less m) psi = WG m (wsum wt (seq 1 (m - 1))) psi.
Proof. unfold A0less. apply group_sem. intro H. apply in_seq in H. lia. Qed.
Theorem grouped_mcu_sem psi : 1 <= T ->
  lrun (A0less T ++ Sl (T - 1) ++ B T ++ Sl' (T - 1)) psi
  = WG T (fun b => (bz (ones T b) * 2 ^ Z.of_nat (T - 1) - bz (get b 0))%Z) psi.
Proof.
  intros HT. rewrite !lrun_app, Sl_sem, Sl'_sem by lia. rewrite A0less_sem, B_sem.
  rewrite push_Pi by lia. rewrite WG_WG.
  - rewrite Pi'_Pi by lia. apply WG_ext. intros b. pose proof (weight_identity (T - 1) b) as W.
    replace (S (T - 1)) with T in W by lia.
    assert (Es : seq 0 T = 0 :: seq 1 (T - 1)) by (destruct T as [|m0]; [lia|]; cbn [seq]; replace (S m0 - 1) with m0 by lia; reflexivity).
    rewrite Es in W. cbn [wsum] in W. unfold wbit at 1 in W. cbn [wt] in W.
    unfold bz in *. destruct (get b 0), (ones T b); lia.
  - apply wsum_indep. intro H. apply in_seq in H. lia.
Qed.
End Core.
