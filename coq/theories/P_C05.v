(* Property C05: multi-controlled X gates are exact permutations restoring borrowed qubits; majority gate.
   Statements + `exact` only. *)
From Coq Require Import Reals List Bool Arith ZArith.
From Coquelicot Require Import Complex.
From QV Require Import Sem Mat2 Toff2 Chain Vchain RelPhase McxModel McxPlaced LinearMcx McxMulti Cvoqram GenLib Majority Gen_majority MajorityGen IrProps QdmcuModel.
From QV Require Placed MultiTarget.
Import ListNotations.
Open Scope nat_scope.

(* McxVchainDirty, general branch (k = j+3 controls, one target, exact mode): for EVERY state psi of
   controls, ancillas and target, the amplitude at b is psi at b with the target flipped iff all controls are 1;
   in particular the circuit is the identity on every ancilla whatever it holds. *)
Theorem C05_vchain_exact : forall j psi b,
  srun (general j 1 false false) psi b
  = psi (if all_controls j b then flipq (j + 3 + (j + 1)) b else b).
Proof. exact vchain_general_exact. Qed.
Print Assumptions C05_vchain_exact.

(* several targets (k = j + 3 controls, nt >= 1 targets): ALL targets flip iff all controls are 1; borrowed qubits untouched *)
Theorem C05_vchain_multi_target : forall j nt, (1 <= nt)%nat -> forall psi b,
  srun (general j nt false false) psi b
  = psi (if all_controls j b then Cvoqram.flips (targets j nt) b else b).
Proof. exact vchain_multi_exact. Qed.
Print Assumptions C05_vchain_multi_target.

(* ... for every control pattern (the gate list vchain of the model, as compared with McxVchainDirty on every run) *)
Theorem C05_vchain_multi_pattern : forall j nt pat psi b, (1 <= nt)%nat -> (1 <= j \/ 2 <= nt)%nat ->
  srun (vchain (j + 3) nt pat false false) psi b
  = psi (if pmatch pat (j + 3) b then Cvoqram.flips (targets j nt) b else b).
Proof. intros j nt pat psi b H1 H2. now apply vchain_multi_pattern. Qed.
Print Assumptions C05_vchain_multi_pattern.

(* relative-phase mode: the same permutation times a diagonal with entries +1/-1 *)
Theorem C05_vchain_relphase : forall j psi b,
  exists s : C, (s = RtoC 1 \/ s = RtoC (-1)) /\
  srun (general j 1 true false) psi b
  = (s * psi (if all_controls j b then flipq (j + 3 + (j + 1)) b else b))%C.
Proof.
  intros j psi b. eexists. split; [| apply vchain_general_relphase].
  destruct (isZ _ (S j) b); auto. unfold sgn. destruct (get b _); auto.
Qed.
Print Assumptions C05_vchain_relphase.

(* abstract composition used by LinearMcx (Lemma 9 of Iten et al.): relative-phase G, exact S: G;S;G;S is exact *)
Theorem C05_lemma9 : forall (anc tgt : nat), anc <> tgt ->
  forall (P1 Z1 P2 : asg -> bool),
  (forall b, P1 (flipq anc b) = P1 b) -> (forall b, P1 (flipq tgt b) = P1 b) ->
  (forall b, Z1 (flipq anc b) = Z1 b) -> (forall b, Z1 (flipq tgt b) = Z1 b) ->
  (forall b, P2 (flipq anc b) = P2 b) -> (forall b, P2 (flipq tgt b) = P2 b) ->
  (forall b, Z1 b = true -> P1 b = false) ->
  forall G S : state -> state,
  (forall psi b, G psi b = ((if Z1 b then sgn (get b anc) else RtoC 1) * psi (if P1 b then flipq anc b else b))%C) ->
  (forall psi b, S psi b = psi (if P2 b && get b anc then flipq tgt b else b)) ->
  forall psi b, S (G (S (G psi))) b = psi (if P1 b && P2 b then flipq tgt b else b).
Proof. exact lemma9. Qed.
Print Assumptions C05_lemma9.


(* LinearMcx, general branch (k >= 6 controls), any control pattern: the gate list of the model (four alternating V-chains
   on the placements controls[:k1]+controls[k1:2k1-2]+[anc] and controls[k1:]+[anc]+controls[k1-k2+2:k1]+[target]) is the
   exact multi-controlled X on the pattern; the borrowed ancilla k+1 and all controls are restored for EVERY input state *)
Theorem C05_linear_mcx : forall k pat psi b, 6 <= k ->
  srun (linear_mcx k pat false) psi b = psi (if pmatch pat k b then flipq k b else b).
Proof. exact linear_mcx_pattern. Qed.
Print Assumptions C05_linear_mcx.

(* McxVchainDirty with k = j+3 >= 4 controls, one target, exact mode, any control pattern (X conjugation read per control) *)
Theorem C05_vchain_pattern : forall j pat psi b, 1 <= j ->
  srun (vchain (j + 3) 1 pat false false) psi b
  = psi (if pmatch pat (j + 3) b then flipq (j + 3 + (j + 1)) b else b).
Proof. exact vchain_pattern. Qed.
Print Assumptions C05_vchain_pattern.

(* the V-chain on ANY placement of controls, ancillas and target that are pairwise distinct *)
Theorem C05_vchain_placed : forall (cq aq : nat -> nat) (tq j : nat),
  NoDup (used_c cq j ++ used_a aq j ++ [tq]) ->
  forall psi b, srun (general1_p cq aq tq j false) psi b = psi (if all_c cq j b then flipq tq b else b).
Proof. exact general1_exact. Qed.
Print Assumptions C05_vchain_placed.

(* majority: the degree list is TRANSLATED FROM THE SOURCE on every run (Gen_majority.majority_degrees);
   the emitted MCX list flips the target iff at least half of the controls are 1 *)
Theorem C05_majority : forall (set : nat -> bool) (controls : list nat),
  Nat.odd (fired set controls) = (length controls <=? 2 * weight set controls)%nat.
Proof. exact majority_flip_iff. Qed.
Print Assumptions C05_majority.

Theorem C05_majority_degrees : forall n, majority_degrees (Z.of_nat n) = map Z.of_nat (degrees n).
Proof. exact majority_degrees_tri. Qed.
Print Assumptions C05_majority_degrees.

(* non-vacuity: the degree list the unrepaired source produced at n = 19 is refuted by weight 12 *)
Example ex_old_list_refuted : parity_at [10; 16]%nat 12 = false /\ (19 <=? 2 * 12)%nat = true.
Proof. vm_compute. auto. Qed.

(* LinearMcx, exact variant: every k >= 1 (including the small-k dispatch on Qiskit's mcx) and every control pattern *)
Theorem C05_linear_mcx_all : forall k pat, (1 <= k)%nat -> forall psi b,
  srun (linear_mcx k pat false) psi b = psi (if pmatch pat k b then flipq k b else b).
Proof. exact lm_exact. Qed.
Print Assumptions C05_linear_mcx_all.

(* LinearMcx, action_only variant: it differs from the exact gate by an invertible circuit Cl that acts on the control qubits only,
   so it acts as the exact multi-controlled X on the target and restores nothing else: exact = action_only followed by Cl *)
Theorem C05_linear_mcx_action_only : forall k pat, (1 <= k)%nat ->
  exists Cl : list sgate, (forall g p, In g Cl -> In p (sq g) -> (p < k)%nat) /\ Forall swf Cl /\
  forall psi, srun (linear_mcx k pat false) psi = srun Cl (srun (linear_mcx k pat true) psi).
Proof. intros k pat Hk. exact (lm_split k pat Hk). Qed.
Print Assumptions C05_linear_mcx_action_only.

(* Placement, in general: a circuit of the IR over the qubits 0..w-1, re-labelled through ANY map f injective on them, acts on a
   global basis state as the circuit acts on the local bits read through f, all other qubits untouched (push writes the local bits
   back onto f 0 .. f (w-1)).  Every statement above therefore holds on any distinct qubits, dirty ancillas included. *)
Theorem C05_placed_any : forall (f : nat -> nat) (w : nat), (forall i j, (i < w)%nat -> (j < w)%nat -> f i = f j -> i = j) ->
  forall c, Forall (Placed.bndw w) c -> forall Psi b,
  srun (map (Placed.relabelf f) c) Psi b = srun c (fun y => Psi (Placed.push f w b y)) (Placed.pull f w b).
Proof. exact Placed.srun_placed. Qed.
Print Assumptions C05_placed_any.

(* the multi-target V-chain (k = j+3 controls, nt targets, every pattern) on any placement *)
Theorem C05_vchain_multi_placed : forall (j nt : nat), (1 <= nt)%nat -> (1 <= j \/ 2 <= nt)%nat -> forall (f : nat -> nat),
  (forall a b, (a < 2 * j + 4 + nt)%nat -> (b < 2 * j + 4 + nt)%nat -> f a = f b -> a = b) -> forall (p : list bool) Psi b,
  srun (map (Placed.relabelf f) (vchain (j + 3) nt p false false)) Psi b
  = Psi (if MultiTarget.pmf j f p b then flips (map f (targets j nt)) b else b).
Proof. exact MultiTarget.vchain_multi_placed. Qed.
Print Assumptions C05_vchain_multi_placed.

(* McxVchainDirty, action_only on its own (every k >= 1, every pattern): the exact gate is the action_only gate followed by an
   invertible circuit R on the controls and the borrowed ancillas only - R never touches the target, so the two variants act
   alike on the target and differ only in what they leave on the borrowed qubits, which the caller's inverse chain undoes. *)
Theorem C05_vchain_action_only : forall k p, (1 <= k)%nat ->
  exists R : list sgate, (forall g q, In g R -> In q (sq g) -> (q < McxAll.tpos k)%nat) /\ Forall swf R /\
  forall psi, srun (vchain k 1 p false false) psi = srun R (srun (vchain k 1 p false true) psi).
Proof. exact MultiTarget.vchain_action_only_split. Qed.
Print Assumptions C05_vchain_action_only.
