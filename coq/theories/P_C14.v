(* Property C14 (part 1): probability vectors accepted by MixedInitialize (predicate regenerated from the source). *)
From Coq Require Import ZArith QArith Qabs Qminmax List Bool.
From QV Require Import GenLib ValidateLib Gen_validate.
Import ListNotations.
Open Scope Q_scope.

Theorem C14_probs_accept : forall p, probs_accept p = true ->
  (forall x, In x p -> 0 <= x /\ x <= 1) /\ Qabs (qsum p - 1) <= (1 # 1000000000) * Qmax (Qabs (qsum p)) 1.
Proof.
  intros p H. unfold probs_accept in H. apply andb_prop in H as [H H3]. apply andb_prop in H as [H1 H2].
  split.
  - intros x Hx. rewrite forallb_forall in H1, H2. split; apply Qle_bool_iff; auto.
  - apply qisclose_sound in H3.
    assert (E1 : mixed_rel_tol == 1 # 1000000000) by (apply Qeq_bool_iff; vm_compute; reflexivity).
    assert (E2 : mixed_abs_tol <= mixed_rel_tol * Qmax (Qabs (qsum p)) (Qabs 1)).
    { assert (Z : mixed_abs_tol <= 0) by (apply Qle_bool_iff; vm_compute; reflexivity).
      eapply Qle_trans; [exact Z|]. rewrite E1. apply Qmult_le_0_compat. discriminate.
      eapply Qle_trans; [|apply Q.le_max_r]. discriminate. }
    rewrite Q.max_l in H3 by exact E2. rewrite E1 in H3. exact H3.
Qed.
Print Assumptions C14_probs_accept.

Example ex_probs : probs_accept [1#2; 1#4; 1#4] = true /\ probs_accept [3#2; (-1)#2] = false
                   /\ probs_accept [1#2; 1#4] = false /\ probs_accept [(-1)#10; 11#10] = false.
Proof. vm_compute. auto. Qed.
