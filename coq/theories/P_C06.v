(* Property C06: sparse state preparation.  CVO-QRAM without auxiliary qubits is proved END TO END on the gate list of the
   model (the one compared with CvoqramInitialize on every run), for every n, every number of patterns and every family of
   2x2 matrices U_j, MODULO the multi-controlled U being the ideal gate (C04): from |0..0> the circuit yields
   sum_j x_j |pattern_j>|flag=0> + g_m |last pattern>|flag=1> with x_j = U_j[0,1] g_j, g_(j+1) = U_j[1,1] g_j, g_0 = 1,
   provided no later pattern's control set is contained in an earlier pattern (executable premise `ordered_b`, implied by
   the Hamming-weight order, evaluated on every compared instance).  The runtime contract checks that the emitted U_j give
   x_j = the requested amplitudes and g_m = 0.  C06_cvo_gates_aux is the same statement for the default mode WITH auxiliary
   qubits, where the multi-controlled U is the ladder of Qiskit rccx gates (relative-phase Toffolis, semantics CvoGates.rccx)
   over clean ancillas, the controlled U on the top ancilla and the reversed ladder: nothing is assumed ideal there, and all
   ancillas are back in |0> (the right-hand side is supported on clean basis states).  Merge and pivot are evaluated. *)
From Coq Require Import Reals List Bool Arith NArith.
From Coquelicot Require Import Complex.
From QV Require Import Sem Mat2 Toff2 Chain UcrPlaced TopDownWalk Cvoqram CvoLoop CvoModel CvoGates CvoAux.
From QV Require McxModel IrProps FnSem PivotCert SparseSim.
Import ListNotations.

Theorem C06_cvo_step : forall (u : nat) (ctl : list nat), ~ In u ctl -> NoDup ctl ->
  forall (Um : mat2) (L : state) (g : C),
  (forall b, get b u = true -> L b = RtoC 0) ->
  (forall b, allset ctl b = true -> L b = RtoC 0) ->
  forall b,
  step u ctl Um (fun b => L b + g * delta b (eu u))%C b =
  (L b + (mget Um false true * g) * delta b (Pat ctl) + (mget Um true true * g) * delta b (eu u))%C.
Proof. intros u ctl H1 H2 Um L g H3 H4 b. now apply cvo_step. Qed.
Print Assumptions C06_cvo_step.

Theorem C06_cvo_loop : forall (u : nat) (U : nat -> mat2) pats j (L : state) (g : C),
  Forall (wfp u) pats ->
  (forall b, get b u = true -> L b = RtoC 0) ->
  (forall p, In p pats -> forall b, allset p b = true -> L b = RtoC 0) ->
  (forall i i' p p', (i < i')%nat -> nth_error pats i = Some p -> nth_error pats i' = Some p' -> not_fired p' p) ->
  forall b, run_pats u U j pats (fun b => L b + g * delta b (eu u))%C b
            = (L b + loaded U j pats g b + remaining U j pats g * delta b (eu u))%C.
Proof. intros u U. exact (loop_spec u U). Qed.
Print Assumptions C06_cvo_loop.

Theorem C06_cvo_gates : forall (U : nat -> mat2) (n : nat) (pats : list (list bool)), pats <> [] ->
  ordered_b (map (ctl_of n) pats) = true ->
  forall b,
  crun U (cvo_gates n false pats) ket0 b
  = (loaded U 0 (map (ctl_of n) pats) (RtoC 1) (sigma 0 (ctl_of n (last pats [])) b)
     + remaining U 0 (map (ctl_of n) pats) (RtoC 1) * delta (sigma 0 (ctl_of n (last pats [])) b) (eu 0))%C.
Proof. exact cvo_gates_ordered. Qed.
Print Assumptions C06_cvo_gates.

Theorem C06_cvo_gates_aux : forall (U : nat -> mat2) (n : nat) (pats : list (list bool)), pats <> [] ->
  ordered_b (map (ctl_ofa n) pats) = true ->
  forall b,
  crun U (cvo_gates n true pats) ket0 b
  = (loaded U 0 (map (ctl_ofa n) pats) (RtoC 1) (sigma 0 (ctl_ofa n (last pats [])) b)
     + remaining U 0 (map (ctl_ofa n) pats) (RtoC 1) * delta (sigma 0 (ctl_ofa n (last pats [])) b) (eu 0))%C.
Proof. exact cvo_gates_aux_ordered. Qed.
Print Assumptions C06_cvo_gates_aux.

Example ex_ordered : ordered_b (map (ctl_of 3) [[true; false; false]; [false; true; false]; [false; true; true]]) = true.
Proof. vm_compute. reflexivity. Qed.

(* PivotInitialize (no auxiliary qubits): the pivoting gates Q that follow the dense preparation are classical (X, CX, multi-controlled
   X); for EVERY such circuit and every finite superposition l, a dense state that carries each amplitude at the image
   scls (rev Q) key  is turned by Q into exactly  sum a_key |key> : the listed amplitudes on the listed basis states, zero elsewhere.
   The harness evaluates, inside Coq and on the emitted gates, the side conditions and that the dense vector handed to the dense
   preparation is indexed by those images. *)
Theorem C06_pivot_cert : forall (Q : list McxModel.sgate) (l : list FnSem.entry),
  forallb PivotCert.sokb Q = true ->
  McxModel.srun Q (FnSem.den (map (fun e => (fst e, PivotCert.scls (rev Q) (snd e))) l)) = FnSem.den l.
Proof. exact PivotCert.pivot_cert_b. Qed.
Print Assumptions C06_pivot_cert.

(* with auxiliary qubits the multi-controlled X is a block  ladder of Qiskit rccx gates ; CX from the top ancilla ; the reversed
   ladder.  For EVERY ladder that avoids the target the block permutes the basis states (the relative phases cancel whatever the
   ancillas hold), so the same statement holds; the keys and the dense indices have their ancilla bits 0, hence every auxiliary
   qubit is back in |0>. *)
Theorem C06_pivot_aux_cert : forall (Q : list PivotCert.pgate) (l : list FnSem.entry),
  forallb PivotCert.pokb Q = true ->
  PivotCert.prun Q (FnSem.den (map (fun e => (fst e, PivotCert.pcls (rev Q) (snd e))) l)) = FnSem.den l.
Proof. exact PivotCert.pivot_aux_cert_b. Qed.
Print Assumptions C06_pivot_aux_cert.

Theorem C06_rccx_block : forall (P : list CvoAux.tri) (top u : nat) (psi : state), Forall (CvoAux.twf u) P ->
  CvoAux.mrun (rev P) (McxModel.sapp (McxModel.SCX top u) (CvoAux.mrun P psi))
  = fun x => psi (if get (CvoAux.fwd P x) top then flipq u x else x).
Proof. exact PivotCert.block_sem. Qed.
Print Assumptions C06_rccx_block.

(* a classical circuit acts on a superposition by moving its basis states *)
Theorem C06_classical_moves_basis : forall (P : list McxModel.sgate), Forall PivotCert.sok P ->
  forall l, McxModel.srun P (FnSem.den l) = FnSem.den (map (fun e => (fst e, PivotCert.scls P (snd e))) l).
Proof. exact PivotCert.srun_den. Qed.
Print Assumptions C06_classical_moves_basis.

(* MergeInitialize and any other circuit of X, CX and multi-controlled one-qubit gates with arbitrary matrices M i: the symbolic
   sparse simulation (computable: basis states and, per basis state, the list of matrix entries to multiply) denotes the operator
   semantics, from |0..0> and from every finite superposition. *)
Theorem C06_sparse_sim : forall (M : nat -> mat2) (gates : list SparseSim.mg), forallb SparseSim.mwfb gates = true ->
  forall l, SparseSim.mrun M gates (FnSem.den (map (SparseSim.ev M) l)) = FnSem.den (map (SparseSim.ev M) (SparseSim.ssim gates l)).
Proof. exact SparseSim.ssim_sound_b. Qed.
Print Assumptions C06_sparse_sim.

Theorem C06_sparse_sim_from_zero : forall (M : nat -> mat2) (gates : list SparseSim.mg), forallb SparseSim.mwfb gates = true ->
  SparseSim.mrun M gates (fun b => delta b 0%N) = FnSem.den (map (SparseSim.ev M) (SparseSim.ssim gates [([], 0%N)])).
Proof. exact SparseSim.ssim_from_zero. Qed.
Print Assumptions C06_sparse_sim_from_zero.
