(* Property C06: sparse state preparation.  PARTIAL: one CVO-QRAM iteration is a theorem (any number of qubits, any
   pattern, any already-loaded part that vanishes on flag = 1 and on states containing the current control set - which is
   what the Hamming-weight order guarantees); the loop structure is tied by gate-list correspondence (CvoModel) and the
   amplitude recurrence x_j = U_j[0,1] g_j, g_(j+1) = U_j[1,1] g_j by a runtime contract; merge and pivot are evaluated. *)
From Coq Require Import Reals List Bool Arith NArith.
From Coquelicot Require Import Complex.
From QV Require Import Sem Mat2 Toff2 Chain Cvoqram.
Import ListNotations.

Theorem C06_cvo_step : forall (u : nat) (ctl : list nat), ~ In u ctl -> NoDup ctl ->
  forall (Um : mat2) (L : state) (g : C),
  (forall b, get b u = true -> L b = 0) ->
  (forall b, allset ctl b = true -> L b = 0) ->
  forall b,
  step u ctl Um (fun b => L b + g * delta b (eu u))%C b =
  (L b + (mget Um false true * g) * delta b (Pat ctl) + (mget Um true true * g) * delta b (eu u))%C.
Proof. intros u ctl H1 H2 Um L g H3 H4 b. now apply cvo_step. Qed.
Print Assumptions C06_cvo_step.
