From Coq Require Import Reals Lra List Bool Arith Lia NArith FunctionalExtensionality.
From Coquelicot Require Import Complex.
From QV Require Import Sem Mat2 Toff2 Chain.
Import ListNotations.
Open Scope R_scope.

(* ucr on an arbitrary placement: target t, level-i control cq i (i = 1..k) *)
Section Placed.
Variable t : nat.
Variable cq : nat -> nat.
Hypothesis cq_t : forall i, cq i <> t.

Fixpoint ucrp (r : rot) (e : ent) (k : nat) (a : nat -> R) : list gate :=
  match k with
  | O => if Req_EM_T (a O) 0 then [] else [GRot r (a O) t]
  | S k' =>
     ucrp r e k' (fun j => (a j + a (j + 2^k')%nat) / 2)
     ++ [GEnt e (cq (S k')) t]
     ++ rev (ucrp r e k' (fun j => (a j - a (j + 2^k')%nat) / 2))
  end.
Fixpoint pidx (k : nat) (b : asg) : nat :=
  match k with O => O | S k' => (pidx k' b + if get b (cq (S k')) then 2^k' else 0)%nat end.

Definition gmat (g : gate) (b : asg) : mat2 :=
  match g with
  | GRot r th _ => Rm r th
  | GEnt e c _ => if get b c then Em e else I2
  end.
Fixpoint cmat (c : list gate) (b : asg) : mat2 :=
  match c with [] => I2 | g :: c' => mmul (cmat c' b) (gmat g b) end.
Lemma cmat_app c1 c2 b : cmat (c1 ++ c2) b = mmul (cmat c2 b) (cmat c1 b).
Proof. induction c1; simpl. now rewrite mmul_I2_r. now rewrite IHc1, mmul_assoc. Qed.
Definition entm (e : ent) (k : nat) (b : asg) : mat2 :=
  match k with O => I2 | S _ => if get b (cq k) then Em e else I2 end.

Section Words.
Variables (r : rot) (e : ent).
Hypothesis Hre : e = EntCX \/ r = RotY.
Lemma EmRm_a x M : mmul (Em e) (mmul (Rm r x) M) = mmul (Rm r (- x)) (mmul (Em e) M).
Proof. now rewrite !mmul_assoc, Em_Rm. Qed.
Lemma EmEm_a M : mmul (Em e) (mmul (Em e) M) = M.
Proof. now rewrite mmul_assoc, Em_Em, mmul_I2_l. Qed.
Lemma RmRm_a x y M : mmul (Rm r x) (mmul (Rm r y) M) = mmul (Rm r (x + y)) M.
Proof. now rewrite mmul_assoc, Rm_add. Qed.
End Words.
Ltac norm_words Hre :=
  rewrite ?mmul_I2_l, ?mmul_I2_r; rewrite <- ?mmul_assoc;
  repeat first [ rewrite EmEm_a | rewrite Em_Em | rewrite (EmRm_a _ _ Hre) | rewrite (Em_Rm _ _ _ Hre)
               | rewrite RmRm_a | rewrite Rm_add | rewrite mmul_I2_l | rewrite mmul_I2_r ].

Lemma ucrp_AB r e (Hre : e = EntCX \/ r = RotY) k : forall a b,
  mmul (entm e k b) (cmat (ucrp r e k a) b) = Rm r (a (pidx k b)) /\
  mmul (cmat (rev (ucrp r e k a)) b) (entm e k b) = Rm r (a (pidx k b)).
Proof.
  induction k as [|k IH]; intros a b.
  - simpl. destruct (Req_EM_T (a O) 0) as [E|E]; simpl.
    + rewrite E, Rm_0, !mmul_I2_l. auto.
    + rewrite !mmul_I2_l, ?mmul_I2_r. auto.
  - cbn [ucrp]. rewrite !rev_app_distr, rev_involutive. cbn [rev app].
    rewrite <- !app_assoc. cbn [app].
    rewrite !cmat_app. cbn [cmat gmat]. cbn [pidx].
    set (a1 := fun j => (a j + a (j + 2^k)%nat) / 2).
    set (a2 := fun j => (a j - a (j + 2^k)%nat) / 2).
    destruct (IH a1 b) as [A1 B1]. destruct (IH a2 b) as [A2 B2].
    set (E := entm e k b) in *.
    assert (HE : E = I2 \/ E = Em e).
    { unfold E, entm. destruct k; auto. destruct (get b (cq (S k))); auto. }
    assert (EE : mmul E E = I2).
    { destruct HE as [->| ->]. apply mmul_I2_l. apply Em_Em. }
    assert (F1 : cmat (ucrp r e k a1) b = mmul E (Rm r (a1 (pidx k b)))).
    { rewrite <- A1, mmul_assoc, EE, mmul_I2_l. reflexivity. }
    assert (F2' : cmat (rev (ucrp r e k a2)) b = mmul (Rm r (a2 (pidx k b))) E).
    { rewrite <- B2, <- mmul_assoc, EE, mmul_I2_r. reflexivity. }
    assert (F2 : cmat (ucrp r e k a2) b = mmul E (Rm r (a2 (pidx k b)))).
    { rewrite <- A2, mmul_assoc, EE, mmul_I2_l. reflexivity. }
    assert (F1' : cmat (rev (ucrp r e k a1)) b = mmul (Rm r (a1 (pidx k b))) E).
    { rewrite <- B1, <- mmul_assoc, EE, mmul_I2_r. reflexivity. }
    rewrite F1, F2', F2, F1'. clear F1 F2 F1' F2' A1 A2 B1 B2 EE.
    unfold entm. fold E.
    set (j := pidx k b).
    assert (Hsum : a1 j + a2 j = a j) by (unfold a1, a2; field).
    assert (Hdif : a1 j - a2 j = a (j + 2^k)%nat) by (unfold a1, a2; field).
    destruct (get b (cq (S k))); [rewrite <- Hdif | rewrite Nat.add_0_r, <- Hsum];
    destruct HE as [-> | ->]; split; norm_words Hre; f_equal; ring.
Qed.

(* state level *)
Definition gwf (g : gate) : Prop :=
  match g with GRot _ _ q => q = t | GEnt _ c q => q = t /\ c <> t end.
Lemma gapp_appf g psi : gwf g -> gapp g psi = appf (gmat g) t psi.
Proof.
  destruct g; simpl; intros H.
  - subst. reflexivity.
  - destruct H as [-> Hc]. apply functional_extensionality; intros b. unfold appf.
    cbn [gmat]. destruct (get b c); auto. symmetry; apply app1_I2.
Qed.
Lemma gmat_indep g : gwf g -> indep t (gmat g).
Proof.
  destruct g; simpl; intros H b v; cbn [gmat]; auto. destruct H as [_ Hc]. now rewrite get_upd_other.
Qed.
Lemma appf_I2 psi : appf (fun _ => I2) t psi = psi.
Proof. apply functional_extensionality; intros b. apply app1_I2. Qed.
Lemma run_cmat c : Forall gwf c -> forall psi, run c psi = appf (cmat c) t psi.
Proof.
  induction 1 as [|g c Hg Hc IH]; intros psi; simpl.
  - now rewrite appf_I2.
  - unfold run in *. simpl. rewrite IH, gapp_appf by auto.
    rewrite appf_appf by (apply gmat_indep; auto). reflexivity.
Qed.
Lemma ucrp_wf r e k : forall a, Forall gwf (ucrp r e k a).
Proof.
  induction k; intros a; simpl.
  - destruct (Req_EM_T (a O) 0); constructor; simpl; auto.
  - apply Forall_app; split; [apply IHk|]. constructor; [simpl; auto|].
    apply Forall_rev. apply IHk.
Qed.

Lemma pidx_upd_t k b v : pidx k (upd b t v) = pidx k b.
Proof. induction k; simpl; auto. rewrite IHk, get_upd_other; auto. Qed.

Definition muxp (r : rot) (k : nat) (a : nat -> R) (psi : state) : state :=
  fun b => app1 (Rm r (a (pidx k b))) t psi b.
Definition lastE (e : ent) (k : nat) : list gate := match k with O => [] | S _ => [GEnt e (cq k) t] end.

Theorem ucrp_last r e k a : (e = EntCX \/ r = RotY) ->
  forall psi, run (ucrp r e k a ++ lastE e k) psi = muxp r k a psi.
Proof.
  intros Hre psi.
  assert (W : Forall gwf (ucrp r e k a ++ lastE e k)).
  { apply Forall_app; split; [apply ucrp_wf|]. destruct k; constructor; simpl; auto. }
  rewrite run_cmat by auto. apply functional_extensionality; intros b. unfold appf, muxp.
  f_equal. rewrite cmat_app. destruct (ucrp_AB r e Hre k a b) as [A _].
  destruct k; simpl in *.
  - now rewrite mmul_I2_l in *.
  - rewrite mmul_I2_l. exact A.
Qed.
(* the pair used by top-down: RY multiplexer without its last entangler, then the reversed RZ multiplexer *)
Theorem ucrp_pair e k ay az : e = EntCX ->
  forall psi, run (ucrp RotY e k ay ++ rev (ucrp RotZ e k az)) psi = muxp RotZ k az (muxp RotY k ay psi).
Proof.
  intros -> psi.
  assert (W : Forall gwf (ucrp RotY EntCX k ay ++ rev (ucrp RotZ EntCX k az))).
  { apply Forall_app; split; [apply ucrp_wf| apply Forall_rev, ucrp_wf]. }
  rewrite run_cmat by auto. apply functional_extensionality; intros b. unfold muxp.
  change (appf (cmat (ucrp RotY EntCX k ay ++ rev (ucrp RotZ EntCX k az))) t psi b =
          appf (fun b => Rm RotZ (az (pidx k b))) t (appf (fun b => Rm RotY (ay (pidx k b))) t psi) b).
  rewrite appf_appf.
  2:{ intros b0 v. now rewrite pidx_upd_t. }
  unfold appf. f_equal. rewrite cmat_app.
  destruct (ucrp_AB RotY EntCX (or_introl eq_refl) k ay b) as [A _].
  destruct (ucrp_AB RotZ EntCX (or_introl eq_refl) k az b) as [_ B].
  rewrite <- A, <- B. set (E := entm EntCX k b).
  assert (EE : mmul E E = I2).
  { unfold E, entm. destruct k. apply mmul_I2_l. destruct (get b (cq (S k))). apply Em_Em. apply mmul_I2_l. }
  rewrite <- mmul_assoc, (mmul_assoc E E), EE, mmul_I2_l. reflexivity.
Qed.
End Placed.
Print Assumptions ucrp_pair.
