(* C04: Ldmcsu (linear-depth multi-controlled SU(2), arXiv:2302.06377 Theorem 1), branch "main or secondary diagonal real".
   Executable model of the gate list and its theorem: for every number of controls k >= 2 and every control pattern the
   circuit applies U to the target iff the controls match - MODULAR in the 2x2 identity (A^dagger X A X)^2 = U' (U' = U, or H U H
   in the Hadamard-conjugated branch) that Ldmcsu._compute_gate_a is built to satisfy (GateA.v; checked per run). *)
From Coq Require Import Reals Lra List Bool Arith Lia NArith FunctionalExtensionality.
From Coquelicot Require Import Complex.
From QV Require Import Sem Mat2 UcrLocal UcrSpec Toff2 Chain Vchain RelPhase McxModel McxPlaced LinearMcx McxAll IrProps.
Import ListNotations.
Open Scope nat_scope.

Inductive lgate := LS (g : sgate) | LA (dag : bool) (t : nat) | LH (t : nat).

Section Model.
Variable k : nat.                     (* controls 0..k-1, target k *)
Definition k1 := (k + 1) / 2.         (* ceil(k/2) *)
Definition k2 := k / 2.               (* floor(k/2) *)
Definition L1 : list nat := slice 0 k1 ++ slice k1 (2 * k1 - 2) ++ [k].
Definition L2 : list nat := slice k1 k ++ slice (k1 + 2 - k2) k1 ++ [k].
(* ctrl_state[::-1][:k1][::-1] and ctrl_state[::-1][k1:][::-1], as lists indexed by control *)
Definition pat1 (pat : list bool) : list bool := map (fun i => nth i pat true) (seq 0 k1).
Definition pat2 (pat : list bool) : list bool := map (fun i => nth (k1 + i) pat true) (seq 0 k2).
Definition mcx1 pat := map (relabel L1) (vchain k1 1 (pat1 pat) false false).
Definition mcx2 pat := map (relabel L2) (vchain k2 1 (pat2 pat) false false).

Definition linear_depth_mcv (pat : list bool) : list lgate :=
  map LS (mcx1 pat) ++ [LA false k] ++ map LS (sinv_list (mcx2 pat)) ++ [LA true k]
  ++ map LS (mcx1 pat) ++ [LA false k] ++ map LS (mcx2 pat) ++ [LA true k].
(* hconj = the secondary diagonal is not real (so the main one is): Hadamard conjugation on the target *)
Definition ldmcsu (pat : list bool) (hconj : bool) : list lgate :=
  (if hconj then [LH k] else []) ++ linear_depth_mcv pat ++ (if hconj then [LH k] else []).
End Model.

(* ---------- semantics ---------- *)
Open Scope R_scope.
Section Semantics.
Variables A Ad Hd : mat2.
Definition lapp (g : lgate) (psi : state) : state :=
  match g with
  | LS s => sapp s psi
  | LA dag t => appf (fun _ => if dag then Ad else A) t psi
  | LH t => appf (fun _ => Hd) t psi
  end.
Definition lrun (c : list lgate) (psi : state) : state := fold_left (fun s g => lapp g s) c psi.
Lemma lrun_app c1 c2 psi : lrun (c1 ++ c2) psi = lrun c2 (lrun c1 psi).
Proof. unfold lrun. now rewrite fold_left_app. Qed.
Lemma lrun_LS c psi : lrun (map LS c) psi = srun c psi.
Proof. revert psi. induction c as [|g c IH]; intros psi. reflexivity. cbn [map]. unfold lrun, srun in *. simpl. apply IH. Qed.

(* the algebraic core: all eight blocks act on the target t with matrices chosen by predicates that do not read t *)
Section Core.
Variable t : nat.
Variables P1 P2 : asg -> bool.
Hypothesis P1_t : indep t P1.
Hypothesis P2_t : indep t P2.
Variable U : mat2.
Hypothesis AdA : mmul Ad A = I2.
Hypothesis AAd : mmul A Ad = I2.
Hypothesis fourth : mmul (mmul (mmul Ad Xm) (mmul A Xm)) (mmul (mmul Ad Xm) (mmul A Xm)) = U.

Definition MX (P : asg -> bool) (psi : state) : state := appf (fun b => Xpow (P b)) t psi.
Definition GA (psi : state) : state := appf (fun _ => A) t psi.
Definition GAd (psi : state) : state := appf (fun _ => Ad) t psi.

Theorem ldmcsu_core psi :
  GAd (MX P2 (GA (MX P1 (GAd (MX P2 (GA (MX P1 psi)))))))
  = appf (fun b => if P1 b && P2 b then U else I2) t psi.
Proof.
  unfold GAd, GA, MX.
  repeat (rewrite appf_appf; [| intros b v; cbn beta; rewrite ?P1_t, ?P2_t; reflexivity]).
  f_equal. apply functional_extensionality; intros b.
  destruct (P1 b), (P2 b); cbn [Xpow andb]; rewrite ?mmul_I2_l, ?mmul_I2_r.
  - rewrite <- fourth. rewrite ?mmul_assoc. reflexivity.
  - rewrite AdA, mmul_I2_l, <- (mmul_assoc Xm Ad A), AdA, mmul_I2_r. apply XX.
  - rewrite <- (mmul_assoc (mmul Ad Xm) A Ad), AAd, mmul_I2_r.
    rewrite <- (mmul_assoc Ad Xm Xm), XX, mmul_I2_r. exact AdA.
  - rewrite AdA, mmul_I2_l. exact AdA.
Qed.
End Core.
End Semantics.

(* ---------- well-formedness of the placed V-chain (needed to invert it) ---------- *)
Open Scope nat_scope.
Definition lwf (w : nat) (g : sgate) : Prop :=
  match g with
  | SX q | SU _ q => q < w
  | SCX c t => c < w /\ t < w /\ c <> t
  | SMCX cs t => t < w /\ Forall (fun c => c < w /\ c <> t) cs
  end.

Lemma lwf_relabel l w g : NoDup l -> length l = w -> lwf w g -> swf (relabel l g).
Proof.
  intros N L. destruct g as [q|n q|c t|cs t]; cbn [lwf relabel swf]; auto.
  - intros [Hc [Ht Hne]] E. apply Hne. apply (nodup_nth_inj l); auto; lia.
  - intros [Ht Hcs] I. apply in_map_iff in I as [c [E Hc]]. rewrite Forall_forall in Hcs.
    destruct (Hcs c Hc) as [Hlt Hne]. apply Hne. apply (nodup_nth_inj l); auto; lia.
Qed.

Lemma toffoli_lwf w cn c0 c1 t : c0 < w -> c1 < w -> t < w -> c0 <> t -> c1 <> t -> Forall (lwf w) (toffoli cn c0 c1 t).
Proof. intros. destruct cn; unfold toffoli; repeat constructor; simpl; auto. Qed.

Lemma forall_flat_map {A B} (P : B -> Prop) (f : A -> list B) l : (forall x, In x l -> Forall P (f x)) -> Forall P (flat_map f l).
Proof.
  induction l as [|x l IH]; intros H; cbn [flat_map]. constructor.
  apply Forall_app; split; [apply H; now left | apply IH; intros; apply H; now right].
Qed.

Lemma xs_lwf pat k w : k <= w -> Forall (lwf w) (xs pat k).
Proof.
  intros H. unfold xs. apply forall_flat_map. intros i I. apply in_seq in I.
  destruct (nth i pat true); repeat constructor. simpl. lia.
Qed.

Lemma general_lwf j : Forall (lwf (2 * j + 5)) (general j 1 false false).
Proof.
  assert (CG : Forall (lwf (2 * j + 5)) (chain_gates j)).
  { unfold chain_gates, TRs, TLs. apply Forall_app; split; [|apply Forall_app; split].
    - apply forall_flat_map. intros i I. apply in_seq in I. apply toffoli_lwf; unfold cq0, aq0; lia.
    - apply toffoli_lwf; unfold cq0, aq0; lia.
    - apply forall_flat_map. intros i I. apply in_seq in I. apply toffoli_lwf; unfold cq0, aq0; lia. }
  unfold general, first_gate. cbn [negb]. unfold toffoli_mt, targets, fan_l, fan_r. cbn [seq map length Nat.sub app nth].
  assert (FG : lwf (2 * j + 5) (SMCX [cq0 (j + 3 - 1); aq0 j (j + 1 - 1)] (j + 3 + (j + 1) + 0))).
  { cbn [lwf]. split. lia. repeat constructor; unfold cq0, aq0; lia. }
  apply Forall_cons; [exact FG|]. apply Forall_app; split; [exact CG|]. apply Forall_cons; [exact FG | exact CG].
Qed.

Lemma vchain_lwf k pat : 1 <= k -> Forall (lwf (tpos k + 1)) (vchain k 1 pat false false).
Proof.
  intros Hk. unfold vchain. apply Forall_app; split; [|apply Forall_app; split];
    try (apply xs_lwf; unfold tpos; destruct (k <=? 2); lia).
  destruct k as [|[|[|[|j]]]]; try lia.
  - cbn. repeat constructor; lia.
  - unfold toffoli_mt, fan_l, fan_r. cbn. repeat constructor; lia.
  - cbn. repeat constructor; lia.
  - cbn [negb andb Nat.eqb].
    replace (tpos (S (S (S (S j)))) + 1) with (2 * S j + 5).
    apply general_lwf.
    unfold tpos. replace (S (S (S (S j))) <=? 2) with false by (symmetry; apply Nat.leb_gt; lia). lia.
Qed.

Lemma vchain_placed_swf k pat l : 1 <= k -> NoDup l -> length l = tpos k + 1 ->
  Forall swf (map (relabel l) (vchain k 1 pat false false)).
Proof.
  intros Hk N L. apply Forall_forall. intros g I. apply in_map_iff in I as [g0 [<- I0]].
  apply (lwf_relabel l (tpos k + 1)); auto.
  pose proof (vchain_lwf k pat Hk) as F. rewrite Forall_forall in F. auto.
Qed.

(* an involutive permutation circuit is its own inverse *)
Lemma sinv_involution (c : list sgate) (pi : asg -> asg) : Forall swf c ->
  (forall b, pi (pi b) = b) -> (forall psi b, srun c psi b = psi (pi b)) ->
  forall psi b, srun (sinv_list c) psi b = psi (pi b).
Proof.
  intros W Hpi Hc psi b.
  pose proof (inverse_left c W psi) as E. rewrite srun_app in E.
  assert (E2 : srun c (srun (sinv_list c) psi) (pi b) = psi (pi b)) by now rewrite E.
  rewrite Hc, Hpi in E2. exact E2.
Qed.

(* ---------- the theorem ---------- *)
Section Main.
Variable k : nat.
Hypothesis Hk : 2 <= k.

Lemma k12 : k1 k + k2 k = k /\ 1 <= k1 k /\ 1 <= k2 k /\ k2 k <= k1 k /\ k1 k <= k2 k + 1.
Proof.
  unfold k1, k2. pose proof (Nat.div_mod k 2 ltac:(lia)). pose proof (Nat.mod_upper_bound k 2 ltac:(lia)).
  pose proof (Nat.div_mod (k + 1) 2 ltac:(lia)). pose proof (Nat.mod_upper_bound (k + 1) 2 ltac:(lia)). lia.
Qed.

Lemma L1_eq : L1 k = seq 0 (k1 k) ++ seq (k1 k) (tpos (k1 k) - k1 k) ++ [k].
Proof.
  pose proof k12. unfold L1, slice, tpos. replace (k1 k - 0) with (k1 k) by lia.
  destruct (Nat.leb_spec (k1 k) 2); do 2 f_equal; f_equal; lia.
Qed.
Lemma L2_eq : L2 k = seq (k1 k) (k2 k) ++ seq (k1 k + 2 - k2 k) (tpos (k2 k) - k2 k) ++ [k].
Proof.
  pose proof k12. unfold L2, slice, tpos. replace (k - k1 k) with (k2 k) by lia.
  destruct (Nat.leb_spec (k2 k) 2); do 2 f_equal; f_equal; lia.
Qed.
Lemma L1_len : length (L1 k) = tpos (k1 k) + 1.
Proof. rewrite L1_eq, !app_length, !seq_length. simpl. pose proof k12. unfold tpos. destruct (k1 k <=? 2); lia. Qed.
Lemma L2_len : length (L2 k) = tpos (k2 k) + 1.
Proof. rewrite L2_eq, !app_length, !seq_length. simpl. pose proof k12. unfold tpos. destruct (k2 k <=? 2); lia. Qed.
Lemma L1_nodup : NoDup (L1 k).
Proof.
  pose proof k12. rewrite L1_eq. apply nodup_app_intro; [apply seq_NoDup | |].
  - apply nodup_app_intro; [apply seq_NoDup | repeat constructor; simpl; tauto |].
    intros x I [<-|[]]. apply in_seq in I. unfold tpos in I. destruct (k1 k <=? 2); lia.
  - intros x I1 I2. apply in_seq in I1. apply in_app_or in I2 as [I2|[E|[]]].
    + apply in_seq in I2. lia. + lia.
Qed.
Lemma L2_nodup : NoDup (L2 k).
Proof.
  pose proof k12. rewrite L2_eq. apply nodup_app_intro; [apply seq_NoDup | |].
  - apply nodup_app_intro; [apply seq_NoDup | repeat constructor; simpl; tauto |].
    intros x I [<-|[]]. apply in_seq in I. unfold tpos in I. destruct (k2 k <=? 2); lia.
  - intros x I1 I2. apply in_seq in I1. apply in_app_or in I2 as [I2|[E|[]]].
    + apply in_seq in I2. unfold tpos in I2. destruct (k2 k <=? 2); lia. + lia.
Qed.
Lemma L1_ctrl i : i < k1 k -> nth i (L1 k) 0 = i.
Proof. intros H. rewrite L1_eq, app_nth1 by (rewrite seq_length; lia). now rewrite seq_nth by lia. Qed.
Lemma L2_ctrl i : i < k2 k -> nth i (L2 k) 0 = k1 k + i.
Proof. intros H. rewrite L2_eq, app_nth1 by (rewrite seq_length; lia). now rewrite seq_nth by lia. Qed.
Lemma L1_tgt : nth (tpos (k1 k)) (L1 k) 0 = k.
Proof.
  pose proof k12. rewrite L1_eq. rewrite app_nth2 by (rewrite seq_length; unfold tpos; destruct (k1 k <=? 2); lia).
  rewrite seq_length, app_nth2 by (rewrite seq_length; lia). rewrite seq_length.
  replace (tpos (k1 k) - k1 k - (tpos (k1 k) - k1 k)) with 0 by lia. reflexivity.
Qed.
Lemma L2_tgt : nth (tpos (k2 k)) (L2 k) 0 = k.
Proof.
  pose proof k12. rewrite L2_eq. rewrite app_nth2 by (rewrite seq_length; unfold tpos; destruct (k2 k <=? 2); lia).
  rewrite seq_length, app_nth2 by (rewrite seq_length; lia). rewrite seq_length.
  replace (tpos (k2 k) - k2 k - (tpos (k2 k) - k2 k)) with 0 by lia. reflexivity.
Qed.

Variable pat : list bool.
Definition Q1 (b : asg) : bool := forallb (fun i => Bool.eqb (get b i) (nth i pat true)) (seq 0 (k1 k)).
Definition Q2 (b : asg) : bool := forallb (fun i => Bool.eqb (get b i) (nth i pat true)) (seq (k1 k) (k2 k)).

Lemma forallb_ext_in' {X} (f g : X -> bool) l : (forall x, In x l -> f x = g x) -> forallb f l = forallb g l.
Proof. induction l as [|x l IH]; intros H; simpl; auto. rewrite H by now left. f_equal. apply IH. intros; apply H; now right. Qed.

Lemma nth_map_seq {X} (f : nat -> X) a n i d : i < n -> nth i (map f (seq a n)) d = f (a + i).
Proof.
  intros H. rewrite (nth_indep _ d (f 0)) by (rewrite map_length, seq_length; lia).
  rewrite map_nth. now rewrite seq_nth by lia.
Qed.

Lemma Q1_spec b : pmatch_p (fun i => nth i (L1 k) 0) (k1 k) (pat1 k pat) b = Q1 b.
Proof.
  unfold pmatch_p, Q1. apply forallb_ext_in'. intros i I. apply in_seq in I.
  rewrite L1_ctrl by lia. f_equal. unfold pat1. now rewrite nth_map_seq by lia.
Qed.
Lemma Q2_spec b : pmatch_p (fun i => nth i (L2 k) 0) (k2 k) (pat2 k pat) b = Q2 b.
Proof.
  unfold pmatch_p, Q2. rewrite (seq_add (k1 k) (k2 k)), forallb_map'.
  apply forallb_ext_in'. intros i I. apply in_seq in I.
  rewrite L2_ctrl by lia. f_equal. unfold pat2. now rewrite nth_map_seq by lia.
Qed.
Lemma Q12 b : Q1 b && Q2 b = pmatch pat k b.
Proof.
  unfold Q1, Q2, pmatch. pose proof k12 as [E _].
  assert (S : seq 0 k = seq 0 (k1 k) ++ seq (k1 k) (k2 k)) by (rewrite <- seq_app; f_equal; lia).
  now rewrite S, forallb_app.
Qed.
Lemma Q1_indep : indep k Q1.
Proof.
  intros b v. unfold Q1. apply forallb_ext_in'. intros i I. apply in_seq in I. pose proof k12.
  now rewrite get_upd_other by lia.
Qed.
Lemma Q2_indep : indep k Q2.
Proof.
  intros b v. unfold Q2. apply forallb_ext_in'. intros i I. apply in_seq in I. pose proof k12.
  now rewrite get_upd_other by lia.
Qed.

Lemma mcx1_sem psi : srun (mcx1 k pat) psi = MX k Q1 psi.
Proof.
  apply functional_extensionality; intros b. unfold mcx1.
  rewrite vchain_exact_placed by (try apply L1_nodup; try apply L1_len; pose proof k12; lia).
  rewrite L1_tgt, Q1_spec. unfold MX, appf. destruct (Q1 b); cbn [Xpow]. symmetry; apply app1_X. symmetry; apply app1_I2.
Qed.
Lemma mcx2_sem psi : srun (mcx2 k pat) psi = MX k Q2 psi.
Proof.
  apply functional_extensionality; intros b. unfold mcx2.
  rewrite vchain_exact_placed by (try apply L2_nodup; try apply L2_len; pose proof k12; lia).
  rewrite L2_tgt, Q2_spec. unfold MX, appf. destruct (Q2 b); cbn [Xpow]. symmetry; apply app1_X. symmetry; apply app1_I2.
Qed.
Lemma mcx2_inv_sem psi : srun (sinv_list (mcx2 k pat)) psi = MX k Q2 psi.
Proof.
  apply functional_extensionality; intros b.
  rewrite (sinv_involution (mcx2 k pat) (fun b => if Q2 b then flipq k b else b)).
  - unfold MX, appf. destruct (Q2 b); cbn [Xpow]. symmetry; apply app1_X. symmetry; apply app1_I2.
  - unfold mcx2. apply vchain_placed_swf; [pose proof k12; lia | apply L2_nodup | apply L2_len].
  - intros b0. destruct (Q2 b0) eqn:E.
    + assert (F : Q2 (flipq k b0) = Q2 b0) by (unfold flipq; apply Q2_indep).
      rewrite F, E. apply flipq_flipq.
    + now rewrite E.
  - intros phi b0. rewrite mcx2_sem. unfold MX, appf. destruct (Q2 b0); cbn [Xpow]. apply app1_X. apply app1_I2.
Qed.

Variables A Ad Hd U U' : mat2.
Hypothesis AdA : mmul Ad A = I2.
Hypothesis AAd : mmul A Ad = I2.
Hypothesis fourth : mmul (mmul (mmul Ad Xm) (mmul A Xm)) (mmul (mmul Ad Xm) (mmul A Xm)) = U'.

Theorem linear_depth_mcv_spec psi :
  lrun A Ad Hd (linear_depth_mcv k pat) psi = appf (fun b => if pmatch pat k b then U' else I2) k psi.
Proof.
  unfold linear_depth_mcv. rewrite !lrun_app, !lrun_LS.
  rewrite !mcx1_sem, !mcx2_sem, mcx2_inv_sem.
  change (lrun A Ad Hd [LA false k] ?x) with (GA A k x).
  cbn [lrun fold_left lapp].
  fold (GA A k). 
  replace (appf (fun _ : asg => Ad) k) with (GAd Ad k) by reflexivity.
  replace (appf (fun _ : asg => A) k) with (GA A k) by reflexivity.
  rewrite (ldmcsu_core A Ad k Q1 Q2 Q1_indep Q2_indep U' AdA AAd fourth).
  f_equal. apply functional_extensionality; intros b. now rewrite Q12.
Qed.

Theorem ldmcsu_spec_plain psi : U' = U ->
  lrun A Ad Hd (ldmcsu k pat false) psi = appf (fun b => if pmatch pat k b then U else I2) k psi.
Proof. intros <-. unfold ldmcsu. cbn [app]. rewrite app_nil_r. apply linear_depth_mcv_spec. Qed.

(* Hadamard-conjugated branch: (A^dagger X A X)^2 = U' = H U H *)
Hypothesis HH : mmul Hd Hd = I2.
Hypothesis HUH : mmul Hd (mmul U' Hd) = U.
Theorem ldmcsu_spec_hconj psi :
  lrun A Ad Hd (ldmcsu k pat true) psi = appf (fun b => if pmatch pat k b then U else I2) k psi.
Proof.
  unfold ldmcsu. rewrite !lrun_app, linear_depth_mcv_spec. cbn [lrun fold_left lapp].
  rewrite !appf_appf.
  - f_equal. apply functional_extensionality; intros b. destruct (pmatch pat k b).
    + first [exact HUH | rewrite <- mmul_assoc; exact HUH | rewrite mmul_assoc; exact HUH].
    + rewrite ?mmul_I2_l, ?mmul_I2_r. exact HH.
  - intros b v. reflexivity.
  - intros b v. cbn beta. f_equal.
    assert (E : pmatch pat k (upd b k v) = pmatch pat k b).
    { rewrite <- !Q12. now rewrite (Q1_indep b v), (Q2_indep b v). }
    now rewrite E.
Qed.
End Main.
