From Coq Require Import Reals Lra List Bool Arith Lia NArith FunctionalExtensionality.
From Coquelicot Require Import Complex.
From QV Require Import Sem Mat2 Toff2 Chain.
Import ListNotations.
Open Scope R_scope.

Definition delta (b c : asg) : C := if N.eqb b c then 1 else 0.

Lemma forallb_get_ext (l : list nat) b b' : (forall q, In q l -> get b q = get b' q) ->
  forallb (get b) l = forallb (get b') l.
Proof.
  induction l as [|q l IH]; intros H; simpl; auto.
  rewrite H by (now left). f_equal. apply IH. intros; apply H; now right.
Qed.

Section Cvo.
Variable u : nat.                     (* flag qubit *)
Variable ctl : list nat.              (* memory qubits equal to 1 in the current pattern *)
Hypothesis u_ctl : ~ In u ctl.
Hypothesis ctl_nodup : NoDup ctl.

Definition allset (b : asg) : bool := forallb (get b) ctl.
Fixpoint flips (l : list nat) (b : asg) : asg :=
  match l with [] => b | q :: l' => flips l' (flipq q b) end.
Definition sigma (b : asg) : asg := if get b u then flips ctl b else b.

Definition FF (psi : state) : state := fun b => psi (sigma b).
Definition MCU (Um : mat2) (psi : state) : state :=
  fun b => if allset b then app1 Um u psi b else psi b.
Definition step (Um : mat2) (psi : state) : state := FF (MCU Um (FF psi)).

(* ---- bit-level facts ---- *)
Lemma flq_other q b x : x <> q -> get (flipq q b) x = get b x.
Proof. intros; unfold flipq; now apply get_upd_other. Qed.
Lemma flq_same q b : get (flipq q b) q = negb (get b q).
Proof. unfold flipq; apply get_upd_same. Qed.

Lemma flips_get_out l : forall b x, ~ In x l -> get (flips l b) x = get b x.
Proof.
  induction l as [|q l IH]; intros b x H; simpl; auto.
  rewrite IH by (intros E; apply H; now right). apply flq_other. intros E; apply H; now left.
Qed.
Lemma flips_get_in l : NoDup l -> forall b x, In x l -> get (flips l b) x = negb (get b x).
Proof.
  induction 1 as [|q l Hq Hl IH]; intros b x Hx; simpl in *; [tauto|].
  destruct Hx as [->|Hx].
  - rewrite flips_get_out by auto. apply flq_same.
  - rewrite IH by auto. rewrite flq_other; auto. intros ->; tauto.
Qed.
Lemma in_dec_nat (x : nat) l : {In x l} + {~ In x l}.
Proof. apply in_dec, Nat.eq_dec. Qed.
Lemma flips_invol b : flips ctl (flips ctl b) = b.
Proof.
  apply asg_ext; intros x. destruct (in_dec_nat x ctl) as [H|H].
  - rewrite !flips_get_in by auto. apply negb_involutive.
  - now rewrite !flips_get_out.
Qed.
Lemma sigma_u b : get (sigma b) u = get b u.
Proof. unfold sigma. destruct (get b u) eqn:E; auto. now rewrite flips_get_out. Qed.
Lemma sigma_invol b : sigma (sigma b) = b.
Proof.
  unfold sigma at 1. rewrite sigma_u. unfold sigma. destruct (get b u); auto. apply flips_invol.
Qed.
Lemma allset_spec b : allset b = true <-> forall q, In q ctl -> get b q = true.
Proof. unfold allset. apply forallb_forall. Qed.
Lemma allset_ext b b' : (forall q, In q ctl -> get b q = get b' q) -> allset b = allset b'.
Proof.
  intros H. unfold allset. now apply forallb_get_ext.
Qed.
Lemma allset_upd_u b v : allset (upd b u v) = allset b.
Proof. apply allset_ext. intros q Hq. apply get_upd_other. intros ->; contradiction. Qed.

(* the pattern, the flag-only state, and the pattern with the flag set *)
Definition Pat : asg := flips ctl 0%N.
Definition eu : asg := upd 0%N u true.
Definition Pu : asg := upd Pat u true.

Lemma get_0 q : get 0%N q = false.
Proof. Transparent get. unfold get. apply N.bits_0. Opaque get. Qed.
Lemma Pat_in q : In q ctl -> get Pat q = true.
Proof. intros H. unfold Pat. rewrite flips_get_in by auto. now rewrite get_0. Qed.
Lemma Pat_out q : ~ In q ctl -> get Pat q = false.
Proof. intros H. unfold Pat. rewrite flips_get_out by auto. apply get_0. Qed.
Lemma allset_Pat : allset Pat = true.
Proof. apply allset_spec. apply Pat_in. Qed.
Lemma sigma_Pat : sigma Pat = Pat.
Proof. unfold sigma. now rewrite Pat_out. Qed.
Lemma sigma_eu : sigma eu = Pu.
Proof.
  unfold sigma, eu, Pu. rewrite get_upd_same.
  apply asg_ext; intros x. destruct (Nat.eq_dec x u) as [->|Hx].
  - rewrite get_upd_same, flips_get_out by auto. apply get_upd_same.
  - rewrite get_upd_other by auto. destruct (in_dec_nat x ctl) as [H|H].
    + rewrite flips_get_in, get_upd_other, get_0, Pat_in; auto.
    + rewrite flips_get_out, get_upd_other, get_0, Pat_out; auto.
Qed.
Lemma sigma_Pu : sigma Pu = eu.
Proof. rewrite <- sigma_eu. apply sigma_invol. Qed.

Lemma delta_eq b : delta b b = 1. Proof. unfold delta. now rewrite N.eqb_refl. Qed.
Lemma delta_neq b c : b <> c -> delta b c = 0.
Proof. unfold delta. intros H. destruct (N.eqb_spec b c); congruence. Qed.

Lemma Pat_u : get Pat u = false. Proof. now apply Pat_out. Qed.
Lemma eu_u : get eu u = true. Proof. apply get_upd_same. Qed.
Lemma Pu_u : get Pu u = true. Proof. apply get_upd_same. Qed.
Lemma allset_Pu : allset Pu = true.
Proof. unfold Pu. rewrite allset_upd_u. apply allset_Pat. Qed.
Lemma Pat_neq_eu : Pat <> eu.
Proof. intros E. pose proof Pat_u as H. rewrite E, eu_u in H. discriminate. Qed.
Lemma upd_u_Pu_false : upd Pu u false = Pat.
Proof. unfold Pu. rewrite upd_upd. rewrite <- Pat_u at 1. apply upd_get. Qed.

(* one CVO-QRAM step:  L = patterns already loaded (flag 0, none containing ctl), g = remaining amplitude *)
Theorem cvo_step (Um : mat2) (L : state) (g : C) :
  (forall b, get b u = true -> L b = 0) ->
  (forall b, allset b = true -> L b = 0) ->
  forall b,
  step Um (fun b => L b + g * delta b eu)%C b =
  (L b + (mget Um false true * g) * delta b Pat + (mget Um true true * g) * delta b eu)%C.
Proof.
  intros Lu La b. unfold step, FF, MCU. set (c := sigma b).
  assert (Hb : b = sigma c) by (unfold c; now rewrite sigma_invol).
  destruct (allset c) eqn:Ac.
  - unfold app1.
    (* v = 0 branch vanishes *)
    assert (S0 : sigma (upd c u false) = upd c u false).
    { unfold sigma. now rewrite get_upd_same. }
    assert (Z0 : (L (upd c u false) + g * delta (upd c u false) eu = 0)%C).
    { rewrite La by (now rewrite allset_upd_u). rewrite delta_neq. ring.
      intros E. pose proof eu_u as H. rewrite <- E, get_upd_same in H. discriminate. }
    assert (S1 : sigma (upd c u true) = flips ctl (upd c u true)).
    { unfold sigma. now rewrite get_upd_same. }
    assert (Z1 : L (flips ctl (upd c u true)) = 0).
    { apply Lu. rewrite flips_get_out by auto. apply get_upd_same. }
    rewrite S0, S1, Z0, Z1.
    destruct (N.eq_dec b Pat) as [EP|NP]; [|destruct (N.eq_dec b eu) as [EE|NE]].
    + (* b = Pat *)
      assert (Hc : c = Pat) by (unfold c; rewrite EP; apply sigma_Pat).
      rewrite Hc, Pat_u. fold Pu. 
      assert (F : flips ctl Pu = eu).
      { rewrite <- sigma_Pu. unfold sigma. now rewrite Pu_u. }
      rewrite F, delta_eq, EP, delta_eq, (delta_neq Pat eu Pat_neq_eu).
      rewrite (La Pat allset_Pat). ring.
    + (* b = eu *)
      assert (Hc : c = Pu) by (unfold c; rewrite EE; apply sigma_eu).
      rewrite Hc, Pu_u. replace (upd Pu u true) with Pu by (unfold Pu; now rewrite upd_upd).
      assert (F : flips ctl Pu = eu).
      { rewrite <- sigma_Pu. unfold sigma. now rewrite Pu_u. }
      rewrite F, delta_eq, EE, delta_eq, (delta_neq eu Pat (not_eq_sym Pat_neq_eu)).
      rewrite (Lu eu eu_u). ring.
    + (* elsewhere *)
      assert (D : delta (flips ctl (upd c u true)) eu = 0).
      { apply delta_neq. intros E.
        assert (E2 : upd c u true = Pu).
        { rewrite <- (flips_invol (upd c u true)), E, <- sigma_eu. unfold sigma. now rewrite eu_u. }
        assert (Hc : c = upd Pu u (get c u)).
        { rewrite <- E2, upd_upd. symmetry; apply upd_get. }
        destruct (get c u) eqn:Cu.
        - apply NE. rewrite Hb, Hc. replace (upd Pu u true) with Pu by (unfold Pu; now rewrite upd_upd).
          apply sigma_Pu.
        - apply NP. rewrite Hb, Hc, upd_u_Pu_false. apply sigma_Pat. }
      rewrite D, (delta_neq b Pat NP), (delta_neq b eu NE).
      assert (Lb : L b = 0).
      { destruct (get b u) eqn:Bu; [now apply Lu|]. apply La.
        assert (c = b) by (unfold c, sigma; now rewrite Bu). now subst c; rewrite <- H at 1. }
      rewrite Lb. ring.
  - (* gate does not fire: nothing happens, and b is neither Pat nor eu *)
    fold c. rewrite <- Hb.
    assert (NP : b <> Pat).
    { intros E. assert (c = Pat) by (unfold c; rewrite E; apply sigma_Pat).
      rewrite H, allset_Pat in Ac. discriminate. }
    assert (NE : b <> eu).
    { intros E. assert (c = Pu) by (unfold c; rewrite E; apply sigma_eu).
      rewrite H, allset_Pu in Ac. discriminate. }
    rewrite (delta_neq b Pat NP), (delta_neq b eu NE). ring.
Qed.
End Cvo.
Print Assumptions cvo_step.
