(* C04, MCU with more controls than the base count: the first e+1 controls act together as "control 0" of the base circuit
   (their rotations are multi-controlled and are emitted in one block at the end of the sweep), all other qubits are shifted by e.
   Part 1: the sweep with the control-0 gates collected at its end denotes the same grouped form.
   Part 2: a virtual qubit - the conjunction of qubits that are never targeted - in place of a control. *)
From Coq Require Import Reals Lra List Bool Arith Lia NArith ZArith FunctionalExtensionality Permutation Sorted.
From Coquelicot Require Import Complex.
From QV Require Import Sem Mat2 Toff2 Chain Vchain Cvoqram McxModel McxMulti LinearMcx Resort LdmcuCore LdmcuModel LdmcuInst McuModel.
From QV Require LdmcsuModel MultiTarget.
Import ListNotations.
Open Scope nat_scope.

Lemma sorted_app {A} (R : A -> A -> Prop) l1 l2 : StronglySorted R l1 -> StronglySorted R l2 ->
  (forall x y, In x l1 -> In y l2 -> R x y) -> StronglySorted R (l1 ++ l2).
Proof.
  induction l1 as [|a l1 IH]; intros H1 H2 H. exact H2.
  inversion H1 as [|? ? Hs Hf]; subst. simpl. constructor.
  - apply IH; auto. intros x y Hx Hy. apply H; auto. now right.
  - rewrite Forall_forall in *. intros y Hy. apply in_app_or in Hy as [Hy|Hy]; auto. apply H; auto. now left.
Qed.
Lemma sorted_impl {A} (R R' : A -> A -> Prop) l : StronglySorted R l -> (forall x y, In x l -> In y l -> R x y -> R' x y) ->
  StronglySorted R' l.
Proof.
  induction 1 as [|a l Hs IH Hf]; intros H. constructor. constructor.
  - apply IH. intros x y Hx Hy. apply H; now right.
  - rewrite Forall_forall in *. intros y Hy. apply H; auto. now left. now right.
Qed.

Definition zeros (z : nat -> Z) (TZ : nat) : list lg := map (fun t => LG 0 t (z 0)) (rev (seq 1 TZ)).
Definition stz (TZ t : nat) : nat := if (1 <=? t) && (t <=? TZ) then 0 else 1.
Definition sweepx (n TZ : nat) (z : nat -> Z) : list lg := isort lg (kdesc n) (gpairsf n (fun _ => 1) z) ++ zeros z TZ.
Definition kx (n : nat) (g : lg) : nat := if gc g =? 0 then 3 * n - gt g else 2 * n - (gc g + gt g).

Lemma grp_split z t : 1 <= t -> grp 0 z t = LG 0 t (z 0) :: grp 1 z t.
Proof. intros H. unfold grp. destruct t as [|t']; [lia|]. replace (S t' - 0) with (S t') by lia. replace (S t' - 1) with t' by lia. reflexivity. Qed.

Lemma perm_collect z TZ : forall n,
  Permutation (gpairsf n (fun _ => 1) z ++ map (fun t => LG 0 t (z 0)) (filter (fun t => (1 <=? t) && (t <=? TZ)) (seq 0 n)))
              (gpairsf n (stz TZ) z).
Proof.
  induction n as [|n IH]. reflexivity.
  unfold gpairsf in *. rewrite !seq_S, !flat_map_app, filter_app, map_app. cbn [flat_map filter Nat.add]. rewrite !app_nil_r.
  set (G1 := flat_map (fun t => grp 1 z t) (seq 0 n)) in *.
  set (Z := map (fun t => LG 0 t (z 0)) (filter (fun t => (1 <=? t) && (t <=? TZ)) (seq 0 n))) in *.
  set (G0 := flat_map (fun t => grp (stz TZ t) z t) (seq 0 n)) in *.
  apply perm_trans with ((G1 ++ Z) ++ (map (fun t => LG 0 t (z 0)) (if (1 <=? n) && (n <=? TZ) then [n] else []) ++ grp 1 z n)).
  - rewrite <- !app_assoc. apply Permutation_app_head.
    eapply perm_trans. apply Permutation_app_comm. rewrite <- app_assoc. reflexivity.
  - apply Permutation_app. exact IH.
    unfold stz. destruct ((1 <=? n) && (n <=? TZ)) eqn:E; cbn [map app].
    + apply andb_true_iff in E as [E1 _]. apply Nat.leb_le in E1. now rewrite grp_split.
    + reflexivity.
Qed.
Lemma filter_range TZ n : TZ < n -> filter (fun t => (1 <=? t) && (t <=? TZ)) (seq 0 n) = seq 1 TZ.
Proof.
  intros H. replace n with (1 + TZ + (n - 1 - TZ)) by lia. rewrite !seq_app, !filter_app. cbn [seq filter Nat.add Nat.leb andb app].
  assert (A1 : forall a m, 1 <= a -> a + m <= S TZ -> filter (fun t => (1 <=? t) && (t <=? TZ)) (seq a m) = seq a m).
  { intros a m. revert a. induction m as [|m IHm]; intros a Ha Hm. reflexivity. cbn [seq filter].
    replace (1 <=? a) with true by (symmetry; apply Nat.leb_le; lia). replace (a <=? TZ) with true by (symmetry; apply Nat.leb_le; lia).
    cbn [andb]. f_equal. apply IHm; lia. }
  assert (A2 : forall a m, TZ < a -> filter (fun t => (1 <=? t) && (t <=? TZ)) (seq a m) = []).
  { intros a m. revert a. induction m as [|m IHm]; intros a Ha. reflexivity. cbn [seq filter].
    replace (a <=? TZ) with false by (symmetry; apply Nat.leb_gt; lia). rewrite andb_false_r. apply IHm. lia. }
  rewrite A1, A2 by lia. now rewrite app_nil_r.
Qed.

Section Sem.
Variable E : nat -> Z -> mat2.
Hypothesis E_add : forall t a b, E t (a + b)%Z = mmul (E t a) (E t b).
Hypothesis E_0 : forall t, E t 0%Z = I2.

Lemma sweepx_sem n TZ z s : TZ < n -> lrun E (sweepx n TZ z) s = lrun E (flat_map (fun t => grp (stz TZ t) z t) (rev (seq 0 n))) s.
Proof.
  intros HTZ. rewrite !(lrun_grun E).
  apply (resort lg state (lapp E) comm (comm_ok E E_add E_0) (kx n) (fun g => n - gt g)).
  - unfold sweepx, zeros. eapply perm_trans.
    { apply Permutation_app. apply isort_perm. apply Permutation_map. apply Permutation_sym, Permutation_rev. }
    rewrite <- (filter_range TZ n HTZ). eapply perm_trans. apply perm_collect.
    unfold gpairsf. apply Permutation_flat_map. apply Permutation_rev.
  - unfold sweepx, le1. apply sorted_app.
    + apply (sorted_impl (fun a b => kdesc n a <= kdesc n b)). apply isort_sorted.
      intros x y Hx Hy Hxy. apply (Permutation_in _ (isort_perm lg (kdesc n) _)) in Hx, Hy.
      apply in_gpairsf in Hx, Hy. cbv beta in *. unfold kx, kdesc in *.
      rewrite (proj2 (Nat.eqb_neq (gc x) 0)), (proj2 (Nat.eqb_neq (gc y) 0)) by lia. exact Hxy.
    + unfold zeros. rewrite map_rev. 
      assert (G : forall m, m <= TZ -> StronglySorted (fun a b => kx n a <= kx n b) (rev (map (fun t => LG 0 t (z 0)) (seq 1 m)))).
      { induction m as [|m IHm]; intros Hm. constructor. rewrite seq_S, map_app, rev_app_distr. cbn [map rev app Nat.add].
        constructor. apply IHm; lia. rewrite Forall_forall. intros y Hy. apply in_rev in Hy. apply in_map_iff in Hy as [t [<- Ht]].
        apply in_seq in Ht. unfold kx. cbn [gc gt Nat.eqb]. lia. }
      apply G. lia.
    + intros x y Hx Hy. apply (Permutation_in _ (isort_perm lg (kdesc n) _)) in Hx. apply in_gpairsf in Hx.
      unfold zeros in Hy. apply in_map_iff in Hy as [t [<- Ht]]. apply in_rev in Ht. apply in_seq in Ht.
      unfold kx. cbn [gc gt Nat.eqb]. rewrite (proj2 (Nat.eqb_neq (gc x) 0)) by lia. lia.
  - apply (sorted_flat_map (fun t => grp (stz TZ t) z t) (fun a => n - a) (fun g => n - gt g)).
    + intros a x _ Hx. unfold grp in Hx. apply in_map_iff in Hx as [c [<- _]]. reflexivity.
    + apply rev_seq_sorted.
  - intros g h Hg Hh NC K1.
    assert (Bg : gc g < gt g /\ gt g < n /\ (gc g = 0 -> 1 <= gt g)).
    { unfold sweepx in Hg. apply in_app_or in Hg as [Hg|Hg].
      - apply (Permutation_in _ (isort_perm lg (kdesc n) _)) in Hg. apply in_gpairsf in Hg. lia.
      - unfold zeros in Hg. apply in_map_iff in Hg as [t [<- Ht]]. apply in_rev in Ht. apply in_seq in Ht. cbn [gc gt]. lia. }
    assert (Bh : gc h < gt h /\ gt h < n /\ (gc h = 0 -> 1 <= gt h)).
    { unfold sweepx in Hh. apply in_app_or in Hh as [Hh|Hh].
      - apply (Permutation_in _ (isort_perm lg (kdesc n) _)) in Hh. apply in_gpairsf in Hh. lia.
      - unfold zeros in Hh. apply in_map_iff in Hh as [t [<- Ht]]. apply in_rev in Ht. apply in_seq in Ht. cbn [gc gt]. lia. }
    assert (D : gt g = gc h \/ gt h = gc g).
    { destruct (Nat.eq_dec (gt g) (gc h)); auto. destruct (Nat.eq_dec (gt h) (gc g)); auto.
      exfalso. apply NC. unfold comm, wfg. lia. }
    unfold kx in K1. destruct (Nat.eqb_spec (gc g) 0), (Nat.eqb_spec (gc h) 0); lia.
  - intros; apply comm_dec.
Qed.
End Sem.

(* ---------- the base circuit with the control-0 gates collected ---------- *)
Definition mcux_core (T : nat) : list lg :=
  sweepx (T + 1) (T - 1) wt ++ sweep_asc (T + 1) nwt ++ sweepx T (T - 1) wt' ++ sweep_asc T nwt.

Section SemX.
Variable E : nat -> Z -> mat2.
Hypothesis E_add : forall t a b, E t (a + b)%Z = mmul (E t a) (E t b).
Hypothesis E_0 : forall t, E t 0%Z = I2.
Variable T : nat.
Hypothesis HT : 1 <= T.

Lemma grp_zero_target st z : grp st z 0 = [].
Proof. unfold grp. reflexivity. Qed.

Lemma mcux_core_mcu psi : lrun E (mcux_core T) psi = lrun E (mcu_core T) psi.
Proof.
  unfold mcux_core, mcu_core, sweep_desc_mcu. rewrite !lrun_app.
  rewrite (sweepx_sem E E_add E_0) by lia. rewrite (sweepx_sem E E_add E_0) by lia.
  rewrite (sweep_descf_sem E E_add E_0), (sweep_desc_sem E E_add E_0).
  assert (G1 : forall l, (forall t, In t l -> t <= T) ->
               flat_map (fun t => grp (stz (T - 1) t) wt t) l = flat_map (fun t => grp (st_mcu T t) wt t) l).
  { intros l Hl. induction l as [|t l IHl]. reflexivity. cbn [flat_map]. rewrite IHl by (intros; apply Hl; now right). f_equal.
    destruct t as [|t']. now rewrite !grp_zero_target.
    pose proof (Hl (S t') (or_introl eq_refl)).
    unfold stz, st_mcu.
    destruct (Nat.leb_spec 1 (S t')), (Nat.leb_spec (S t') (T - 1)), (Nat.eqb_spec (S t') T); cbn [andb]; try lia; reflexivity. }
  assert (G3 : forall l, (forall t, In t l -> t < T) -> flat_map (fun t => grp (stz (T - 1) t) wt' t) l = flat_map (grp 0 wt') l).
  { intros l Hl. induction l as [|t l IHl]. reflexivity. cbn [flat_map]. rewrite IHl by (intros; apply Hl; now right). f_equal.
    destruct t as [|t']. now rewrite !grp_zero_target.
    unfold stz. pose proof (Hl (S t') (or_introl eq_refl)).
    replace (S t' <=? T - 1) with true by (symmetry; apply Nat.leb_le; lia). reflexivity. }
  rewrite G1 by (intros t Ht; apply in_rev in Ht; apply in_seq in Ht; lia).
  rewrite G3 by (intros t Ht; apply in_rev in Ht; apply in_seq in Ht; lia). reflexivity.
Qed.
End SemX.

(* ---------- a virtual control: the conjunction of qubits 0..e, all other base qubits shifted by e ---------- *)
Inductive vg := VG (cs : list nat) (t et : nat) (z : Z).

Section Virt.
Variable E : nat -> Z -> mat2.
Definition vapp (g : vg) (psi : state) : state :=
  match g with VG cs t et z => appf (fun b => if allq cs b then E et z else I2) t psi end.
Definition vrun (c : list vg) (psi : state) : state := fold_left (fun s g => vapp g s) c psi.
Lemma vrun_app c1 c2 psi : vrun (c1 ++ c2) psi = vrun c2 (vrun c1 psi).
Proof. unfold vrun. now rewrite fold_left_app. Qed.

Variables e T : nat.
Definition X0 (b : asg) : bool := allq (seq 0 (S e)) b.
Definition virt (g : lg) : vg :=
  if gc g =? 0 then VG (seq 0 (S e)) (gt g + e) (gt g) (gz g) else VG [gc g + e] (gt g + e) (gt g) (gz g).
Fixpoint vpush (m : nat) (b x : asg) : asg := match m with O => b | S m' => upd (vpush m' b x) (S m' + e) (get x (S m')) end.
Fixpoint vpull (m : nat) (b : asg) : asg :=
  match m with O => upd 0%N 0 (X0 b) | S m' => upd (vpull m' b) (S m') (get b (S m' + e)) end.

Lemma get_vpush_in m b x i : 1 <= i -> i <= m -> get (vpush m b x) (i + e) = get x i.
Proof.
  induction m as [|m IH]; intros H1 Hm. lia. cbn [vpush].
  destruct (Nat.eq_dec i (S m)) as [->|N]. apply get_upd_same.
  rewrite get_upd_other by lia. apply IH; lia.
Qed.
Lemma get_vpush_out m b x q : (forall i, 1 <= i -> i <= m -> q <> i + e) -> get (vpush m b x) q = get b q.
Proof.
  induction m as [|m IH]; intros H. reflexivity. cbn [vpush].
  rewrite get_upd_other by (apply H; lia). apply IH. intros i Hi1 Hi2. apply H; lia.
Qed.
Lemma X0_vpush m b x : X0 (vpush m b x) = X0 b.
Proof.
  unfold X0, allq. apply LdmcsuModel.forallb_ext_in'. intros q Hq. apply in_seq in Hq.
  apply get_vpush_out. intros i Hi _. lia.
Qed.
Lemma vpush_upd m b x t v : 1 <= t -> t <= m -> vpush m b (upd x t v) = upd (vpush m b x) (t + e) v.
Proof.
  intros H1 Hm. apply asg_ext. intros q.
  destruct (le_lt_dec q e) as [Hq|Hq].
  - rewrite get_vpush_out by (intros; lia). rewrite get_upd_other by lia. now rewrite get_vpush_out by (intros; lia).
  - destruct (le_lt_dec (q - e) m) as [Hq2|Hq2].
    + replace q with ((q - e) + e) by lia. rewrite get_vpush_in by lia.
      destruct (Nat.eq_dec (q - e) t) as [->|N].
      * now rewrite !get_upd_same.
      * rewrite !get_upd_other by lia. now rewrite get_vpush_in by lia.
    + rewrite get_vpush_out by (intros; lia). rewrite get_upd_other by lia. now rewrite get_vpush_out by (intros; lia).
Qed.
Lemma get0N q : get 0%N q = false.
Proof. Transparent get. unfold get. apply N.bits_0. Opaque get. Qed.
Lemma get_vpull_0 m b : get (vpull m b) 0 = X0 b.
Proof. induction m as [|m IH]; cbn [vpull]. apply get_upd_same. rewrite get_upd_other by lia. exact IH. Qed.
Lemma get_vpull_in m b i : 1 <= i -> i <= m -> get (vpull m b) i = get b (i + e).
Proof.
  induction m as [|m IH]; intros H1 Hm. lia. cbn [vpull].
  destruct (Nat.eq_dec i (S m)) as [->|N]. apply get_upd_same. rewrite get_upd_other by lia. apply IH; lia.
Qed.
Lemma vpush_vpull b : vpush T b (vpull T b) = b.
Proof.
  apply asg_ext. intros q. destruct (le_lt_dec q e) as [Hq|Hq].
  - now rewrite get_vpush_out by (intros; lia).
  - destruct (le_lt_dec (q - e) T) as [Hq2|Hq2].
    + replace q with ((q - e) + e) at 1 by lia. rewrite get_vpush_in by lia. rewrite get_vpull_in by lia. f_equal. lia.
    + now rewrite get_vpush_out by (intros; lia).
Qed.

Definition bwf (g : lg) : Prop := gc g < gt g /\ gt g <= T.

Lemma vapp_virt g Psi b x : bwf g -> get x 0 = X0 b ->
  vapp (virt g) Psi (vpush T b x) = lapp E g (fun y => Psi (vpush T b y)) x.
Proof.
  intros [Hc Ht] Hx0. unfold virt, lapp, lf.
  destruct (Nat.eqb_spec (gc g) 0) as [Ec|Nc]; cbn [vapp]; unfold appf, app1.
  - fold (X0 (vpush T b x)). rewrite X0_vpush, <- Hx0, Ec.
    rewrite get_vpush_in, !vpush_upd by lia. reflexivity.
  - cbn [allq forallb]. rewrite andb_true_r. rewrite !get_vpush_in, !vpush_upd by lia. reflexivity.
Qed.

Theorem vrun_virtual c : Forall bwf c -> forall (Psi phi : state) b,
  (forall y, get y 0 = X0 b -> phi y = Psi (vpush T b y)) ->
  forall x, get x 0 = X0 b -> vrun (map virt c) Psi (vpush T b x) = lrun E c phi x.
Proof.
  induction c as [|g c IH]; intros W Psi phi b Hphi x Hx. simpl. symmetry. now apply Hphi.
  inversion W as [|? ? Wg Wc]; subst. cbn [map vrun fold_left]. fold (vrun (map virt c)). rewrite lrun_cons.
  apply IH; auto. intros y Hy.
  rewrite (vapp_virt g Psi b y Wg Hy). destruct Wg as [Hc Ht].
  unfold lapp, appf, app1. rewrite !Hphi; auto; rewrite get_upd_other by lia; auto.
Qed.
Corollary vrun_virtual_all c : Forall bwf c -> forall Psi b,
  vrun (map virt c) Psi b = lrun E c (fun y => Psi (vpush T b y)) (vpull T b).
Proof.
  intros W Psi b. rewrite <- (vpush_vpull b) at 1. apply vrun_virtual; auto. apply get_vpull_0.
Qed.
End Virt.

(* ---------- the gate ---------- *)
Definition xgate := (sgate + vg)%type.
Definition xapp (E : nat -> Z -> mat2) (g : xgate) (psi : state) : state :=
  match g with inl s => sapp s psi | inr v => vapp E v psi end.
Definition xrun (E : nat -> Z -> mat2) (l : list xgate) (psi : state) : state := fold_left (fun s g => xapp E g s) l psi.
Lemma xrun_app E l1 l2 psi : xrun E (l1 ++ l2) psi = xrun E l2 (xrun E l1 psi).
Proof. unfold xrun. now rewrite fold_left_app. Qed.
Lemma xrun_inl E l psi : xrun E (map inl l) psi = srun l psi.
Proof. revert psi. induction l as [|g l IH]; intros psi; auto. cbn [map xrun fold_left xapp]. apply IH. Qed.
Lemma xrun_inr E l psi : xrun E (map inr l) psi = vrun E l psi.
Proof. revert psi. induction l as [|g l IH]; intros psi; auto. cbn [map xrun fold_left xapp]. apply IH. Qed.

(* MCU(U, T + e controls, base count T): controls 0..e act as control 0 of the base circuit; target T + e *)
Definition mcux (e T : nat) (pat : list bool) : list xgate :=
  map inl (xs pat (T + e)) ++ map inr (map (virt e) (mcux_core T)) ++ map inl (xs pat (T + e)).

Lemma in_sweep_asc n z g : In g (sweep_asc n z) -> gc g < gt g /\ gt g < n.
Proof. unfold sweep_asc. intros H. apply (Permutation_in _ (isort_perm lg kasc _)) in H. apply in_gpairs in H. lia. Qed.
Lemma in_sweepx n TZ z g : TZ < n -> In g (sweepx n TZ z) -> gc g < gt g /\ gt g < n.
Proof.
  intros HTZ H. unfold sweepx in H. apply in_app_or in H as [H|H].
  - apply (Permutation_in _ (isort_perm lg (kdesc n) _)) in H. apply in_gpairsf in H. lia.
  - unfold zeros in H. apply in_map_iff in H as [t [<- Ht]]. apply in_rev in Ht. apply in_seq in Ht. cbn [gc gt]. lia.
Qed.
Lemma mcux_core_bwf T : 1 <= T -> Forall (bwf T) (mcux_core T).
Proof.
  intros HT. unfold mcux_core, bwf. apply Forall_forall. intros g Hg.
  apply in_app_or in Hg as [H|H]; [apply in_sweepx in H; lia|].
  apply in_app_or in H as [H|H]; [apply in_sweep_asc in H; lia|].
  apply in_app_or in H as [H|H]; [apply in_sweepx in H; lia|]. apply in_sweep_asc in H; lia.
Qed.

Lemma ones_vpull e T b : 1 <= T -> ones T (vpull e T b) = ones (T + e) b.
Proof.
  intros HT. unfold ones.
  assert (E1 : seq 0 T = 0 :: seq 1 (T - 1)) by (destruct T as [|m0]; [lia|]; cbn [seq]; replace (S m0 - 1) with m0 by lia; reflexivity).
  rewrite E1. cbn [forallb]. rewrite get_vpull_0.
  replace (T + e) with (S e + (T - 1)) by lia. rewrite seq_app, forallb_app. unfold X0, allq. f_equal.
  rewrite (MultiTarget.forallb_seq_shift _ (0 + S e) (T - 1)), (MultiTarget.forallb_seq_shift _ 1 (T - 1)).
  apply LdmcsuModel.forallb_ext_in'. intros i Hi. apply in_seq in Hi. rewrite get_vpull_in by lia. f_equal. lia.
Qed.

Theorem mcux_sem (e T : nat) (W Wi : mat2) (pat : list bool) (psi : state) :
  1 <= T -> mmul W Wi = I2 -> mmul Wi W = I2 ->
  xrun (ELd T W Wi) (mcux e T pat) psi
  = appf (fun b => mmul (if pmatch pat (T + e) b then npow W (2 ^ (T - 1)) else I2)
                        (if pmatch pat (S e) b then Wi else I2)) (T + e) psi.
Proof.
  intros HT H1 H2. unfold mcux. rewrite !xrun_app, !xrun_inl, xrun_inr.
  set (EE := ELd T W Wi).
  assert (EA : forall t a b, EE t (a + b)%Z = mmul (EE t a) (EE t b)).
  { intros t a b. unfold EE, ELd. destruct (t =? T). now apply Zpow_add. apply EX_add. }
  assert (E0 : forall t, EE t 0%Z = I2).
  { intros t. unfold EE, ELd. destruct (t =? T). apply Zpow_0. apply EX_0. }
  assert (EF : forall j, 1 <= j -> j < T -> EE j (2 ^ Z.of_nat (j - 1))%Z = NX).
  { intros j Hj1 Hj2. unfold EE, ELd. rewrite (proj2 (Nat.eqb_neq j T)) by lia. apply EX_full. }
  (* the core, all controls positive *)
  assert (CORE : forall Psi b, vrun EE (map (virt e) (mcux_core T)) Psi b
            = appf (fun b => EE T (bz (ones (T + e) b) * 2 ^ Z.of_nat (T - 1) - bz (X0 e b))%Z) (T + e) Psi b).
  { intros Psi b. rewrite (vrun_virtual_all EE e T _ (mcux_core_bwf T HT)).
    rewrite (mcux_core_mcu EE EA E0 T HT), (mcu_core_sem EE EA E0 T HT EF).
    unfold WG, appf, app1. rewrite (get_vpull_in e T b T) by lia. rewrite !vpush_upd by lia. rewrite !vpush_vpull.
    rewrite get_vpull_0, ones_vpull by auto. reflexivity. }
  apply functional_extensionality; intros b. rewrite xs_sem, CORE. unfold appf, app1.
  rewrite (xflip_get_ge pat (T + e) b (T + e)) by lia.
  assert (P : forall v, srun (xs pat (T + e)) psi (upd (xflip pat (T + e) b) (T + e) v) = psi (upd b (T + e) v)).
  { intros v. rewrite xs_sem, xflip_upd by lia. now rewrite xflip_invol. }
  rewrite !P. unfold ones. rewrite pmatch_xflip.
  assert (X : X0 e (xflip pat (T + e) b) = pmatch pat (S e) b).
  { unfold X0, allq, pmatch. apply LdmcsuModel.forallb_ext_in'. intros i Hi. apply in_seq in Hi.
    rewrite xflip_get_lt by lia. unfold xbit. destruct (get b i), (nth i pat true); reflexivity. }
  rewrite X. unfold EE, ELd. rewrite Nat.eqb_refl.
  assert (Zd : Zpow W Wi (bz (pmatch pat (T + e) b) * 2 ^ Z.of_nat (T - 1) - bz (pmatch pat (S e) b))
            = mmul (if pmatch pat (T + e) b then npow W (2 ^ (T - 1)) else I2) (if pmatch pat (S e) b then Wi else I2)).
  { replace (bz (pmatch pat (T + e) b) * 2 ^ Z.of_nat (T - 1) - bz (pmatch pat (S e) b))%Z
      with ((bz (pmatch pat (T + e) b) * 2 ^ Z.of_nat (T - 1)) + (- bz (pmatch pat (S e) b)))%Z by ring.
    rewrite Zpow_add by auto. f_equal.
    - destruct (pmatch pat (T + e) b); unfold bz.
      + rewrite Z.mul_1_l. replace (2 ^ Z.of_nat (T - 1))%Z with (Z.of_nat (2 ^ (T - 1))) by (rewrite Nat2Z.inj_pow; reflexivity).
        now apply Zpow_nat.
      + rewrite Z.mul_0_l. now apply Zpow_0.
    - destruct (pmatch pat (S e) b); unfold bz.
      + unfold Zpow, mix. simpl. apply mat2_eq; simpl; ring.
      + now apply Zpow_0. }
  rewrite Zd. reflexivity.
Qed.
