(* Moving one qubit of a circuit elsewhere.  A circuit over the qubits < w whose qubit a (< w) is re-labelled to a fresh qubit
   K (>= w) behaves as the original circuit conjugated by the swap of the bits a and K. *)
From Coq Require Import Reals Lra List Bool Arith Lia NArith FunctionalExtensionality.
From Coquelicot Require Import Complex.
From QV Require Import Sem Mat2 Toff2 Chain Vchain Cvoqram SumQ McxModel McxMulti.
Import ListNotations.
Open Scope nat_scope.

Section Swap.
Variables a K : nat.
Hypothesis aK : a <> K.
Definition sg (q : nat) : nat := if q =? a then K else q.          (* the re-labelling of qubit indices *)
Definition tau (b : asg) : asg := swapq a K b.

Definition rsw (g : sgate) : sgate :=
  match g with SX q => SX (sg q) | SU n t => SU n (sg t) | SCX c t => SCX (sg c) (sg t) | SMCX cs t => SMCX (map sg cs) (sg t) end.
Definition noK (g : sgate) : Prop := ~ In K (sq g).

Lemma tau_tau b : tau (tau b) = b.
Proof.
  unfold tau. apply asg_ext. intros q. rewrite !get_swapq by auto.
  destruct (Nat.eqb_spec q a) as [->|Ha].
  - rewrite (proj2 (Nat.eqb_neq K a)) by auto. now rewrite Nat.eqb_refl.
  - destruct (Nat.eqb_spec q K) as [->|HK].
    + now rewrite Nat.eqb_refl.
    + reflexivity.
Qed.
Lemma get_tau b q : q <> K -> get (tau b) q = get b (sg q).
Proof.
  intros H. unfold tau, sg. rewrite get_swapq by auto.
  destruct (Nat.eqb_spec q a); auto. now rewrite (proj2 (Nat.eqb_neq q K)) by auto.
Qed.
Lemma tau_upd b q v : q <> K -> tau (upd (tau b) q v) = upd b (sg q) v.
Proof.
  intros H. unfold sg. destruct (Nat.eqb_spec q a) as [->|Ha].
  - unfold tau. apply asg_ext. intros x. rewrite get_swapq by auto.
    destruct (Nat.eqb_spec x a) as [->|Hxa].
    + rewrite get_upd_other by auto. rewrite get_swapq by auto. rewrite (proj2 (Nat.eqb_neq K a)) by auto.
      rewrite Nat.eqb_refl. now rewrite get_upd_other by auto.
    + destruct (Nat.eqb_spec x K) as [->|HxK].
      * now rewrite !get_upd_same.
      * rewrite !get_upd_other by auto. rewrite get_swapq by auto.
        rewrite (proj2 (Nat.eqb_neq x a)), (proj2 (Nat.eqb_neq x K)) by auto. reflexivity.
  - unfold tau. rewrite swapq_upd_other by auto. fold (tau (tau b)). now rewrite tau_tau.
Qed.

Lemma allq_tau cs b : ~ In K cs -> allq cs (tau b) = allq (map sg cs) b.
Proof.
  intros H. unfold allq. induction cs as [|c cs IH]; auto. simpl.
  rewrite get_tau by (intro E; apply H; left; auto). f_equal. apply IH. intro I. apply H. now right.
Qed.

Lemma sapp_rsw g psi : noK g -> sapp (rsw g) psi = fun b => sapp g (fun x => psi (tau x)) (tau b).
Proof.
  intros N. apply functional_extensionality; intros b. unfold noK in N.
  destruct g as [q|n t|c t|cs t]; cbn [rsw sapp sq] in *; unfold appf, app1.
  - assert (q <> K) by (intro E; apply N; left; auto). rewrite get_tau, !tau_upd by auto. reflexivity.
  - assert (t <> K) by (intro E; apply N; left; auto). rewrite get_tau, !tau_upd by auto. reflexivity.
  - assert (c <> K) by (intro E; apply N; left; auto). assert (t <> K) by (intro E; apply N; right; left; auto).
    rewrite !get_tau, !tau_upd by auto. reflexivity.
  - assert (t <> K) by (intro E; apply N; left; auto).
    rewrite get_tau, !tau_upd, allq_tau by (auto; intro I; apply N; now right). reflexivity.
Qed.

Theorem srun_rsw c : Forall noK c -> forall psi b, srun (map rsw c) psi b = srun c (fun x => psi (tau x)) (tau b).
Proof.
  induction c as [|g c IH]; intros W psi b.
  - simpl. now rewrite tau_tau.
  - inversion W; subst. cbn [map]. rewrite !srun_cons. rewrite IH by auto. f_equal.
    rewrite sapp_rsw by auto. apply functional_extensionality; intros x. now rewrite tau_tau.
Qed.
End Swap.

(* list-based re-labelling (McxModel.relabel) that only moves qubit a *)
Lemma relabel_is_rsw w a K g : a < w -> (forall q, In q (sq g) -> q < w) ->
  relabel (seq 0 a ++ [K] ++ seq (S a) (w - S a)) g = rsw a K g.
Proof.
  intros Ha Hq.
  assert (N : forall q, q < w -> nth q (seq 0 a ++ [K] ++ seq (S a) (w - S a)) 0 = sg a K q).
  { intros q Hqw. unfold sg. destruct (Nat.eqb_spec q a) as [->|Hne].
    - rewrite app_nth2 by (rewrite seq_length; lia). rewrite seq_length, Nat.sub_diag. reflexivity.
    - destruct (Nat.lt_ge_cases q a).
      + rewrite app_nth1 by (rewrite seq_length; lia). now rewrite seq_nth by lia.
      + rewrite app_nth2 by (rewrite seq_length; lia). rewrite seq_length.
        rewrite app_nth2 by (simpl; lia). simpl. rewrite seq_nth by lia. lia. }
  destruct g as [q|n t|c t|cs t]; cbn [relabel rsw sq] in *.
  - now rewrite N by (apply Hq; now left).
  - now rewrite N by (apply Hq; now left).
  - now rewrite !N by (apply Hq; simpl; auto).
  - rewrite N by (apply Hq; now left). f_equal. apply map_ext_in. intros c Hc. apply N. apply Hq. now right.
Qed.
