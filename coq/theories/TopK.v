(* C07, optimality clause: the arithmetic core.  If |<phi|psi>|^2 <= sum_i s_i^2 w_i with weights 0 <= w_i <= 1 and
   sum_i w_i <= k (what Bessel's inequality gives for a state phi of Schmidt rank <= k: w_i = squared norm of the projection
   of the i-th left Schmidt vector of psi onto the k-dimensional left support of phi), and the s_i^2 are non-increasing, then
   the fidelity is at most the sum of the k largest s_i^2 - the value the truncation reaches (C07_overlap_truncated). *)
From Coq Require Import Reals Lra Arith Lia.
Open Scope R_scope.

Fixpoint rsum (f : nat -> R) (n : nat) : R := match n with O => 0 | S m => rsum f m + f m end.
Lemma rsum_le f g n : (forall i, (i < n)%nat -> f i <= g i) -> rsum f n <= rsum g n.
Proof.
  induction n as [|n IH]; intros H; simpl. lra.
  assert (rsum f n <= rsum g n) by (apply IH; intros; apply H; lia).
  assert (f n <= g n) by (apply H; lia). lra.
Qed.
Lemma rsum_plus f g n : rsum (fun i => f i + g i) n = rsum f n + rsum g n.
Proof. induction n as [|n IH]; simpl. ring. rewrite IH. ring. Qed.
Lemma rsum_scal c f n : rsum (fun i => c * f i) n = c * rsum f n.
Proof. induction n as [|n IH]; simpl. ring. rewrite IH. ring. Qed.
Lemma rsum_const c n : rsum (fun _ => c) n = INR n * c.
Proof. induction n as [|n IH]. simpl. ring. cbn [rsum]. rewrite IH, S_INR. ring. Qed.
Lemma rsum_ext f g n : (forall i, (i < n)%nat -> f i = g i) -> rsum f n = rsum g n.
Proof. induction n as [|n IH]; intros H; simpl. auto. rewrite IH, H by (auto; intros; apply H; lia). reflexivity. Qed.
Lemma rsum_cut (f : nat -> R) k : forall r, (k <= r)%nat ->
  rsum (fun i => if (i <? k)%nat then f i else 0) r = rsum f k.
Proof.
  induction r as [|r IH]; intros H.
  - assert (k = 0)%nat by lia. subst. reflexivity.
  - destruct (Nat.eq_dec k (S r)) as [->|Hk].
    + apply rsum_ext. intros i Hi. now rewrite (proj2 (Nat.ltb_lt i (S r))) by lia.
    + cbn [rsum]. rewrite IH by lia. rewrite (proj2 (Nat.ltb_ge r k)) by lia. ring.
Qed.

Theorem topk_bound (s w : nat -> R) (r k : nat) : (k <= r)%nat ->
  (forall i, (i < r)%nat -> 0 <= s i) ->
  (forall i j, (i <= j)%nat -> (j < r)%nat -> s j <= s i) ->
  (forall i, (i < r)%nat -> 0 <= w i <= 1) ->
  rsum w r <= INR k ->
  rsum (fun i => s i * w i) r <= rsum s k.
Proof.
  intros Hk Hs Hmono Hw Hsum.
  destruct (Nat.eq_dec r 0) as [->|Hr]. { assert (k = 0)%nat by lia. subst. simpl. lra. }
  set (c := s (Nat.pred (Nat.max k 1))).
  assert (Hc0 : 0 <= c) by (apply Hs; lia).
  assert (Hhi : forall i, (i < k)%nat -> c <= s i) by (intros i Hi; apply Hmono; lia).
  assert (Hlo : forall i, (k <= i)%nat -> (i < r)%nat -> s i <= c) by (intros i Hi Hir; apply Hmono; lia).
  apply Rle_trans with (rsum (fun i => c * w i + (if (i <? k)%nat then s i - c else 0)) r).
  - apply rsum_le. intros i Hi. destruct (Hw i Hi) as [W0 W1].
    destruct (Nat.ltb_spec i k) as [Hik|Hik].
    + assert (c <= s i) by auto. nra.
    + assert (s i <= c) by auto. nra.
  - rewrite rsum_plus, rsum_scal, (rsum_cut (fun i => s i - c) k r Hk).
    assert (E : rsum (fun i => s i - c) k = rsum s k - INR k * c).
    { replace (fun i => s i - c) with (fun i => s i + (- c)) by reflexivity. rewrite rsum_plus, rsum_const. ring. }
    rewrite E. nra.
Qed.
