(* C12, the preserve option of UCGInitialize: the disentangling circuit maps every basis state below the target index to itself
   up to a phase, provided the vector vanishes below the target index.  Level k applies, on qubit k,
     f' b = if the qubits above k hold the target bits then (if the qubits below k do too then gp k else 1) else mux k b
   (the multiplexer entry on the target's path is pulled out as a fully controlled gate).  When the vector vanishes below t:
   (a) mux k is the identity wherever the qubits above k spell a number below the target's (zero parent amplitude),
   (b) gp k maps |0> to a multiple of |0> when the target bit k is 1 (the |0> child vanishes: diagonal operator).
   The monitors check (a) and (b) on the matrices of every run; this file proves that they imply the claim, for every n. *)
From Coq Require Import Reals Lra List Bool Arith Lia NArith FunctionalExtensionality.
From Coquelicot Require Import Complex.
From QV Require Import Sem Mat2 Toff2 Chain Cvoqram McxModel UcgLevels.
From QV Require FnSem SparseSim LdmcsuModel.
Import ListNotations.
Open Scope nat_scope.

Definition bs (s : C) (b : asg) : state := fun x => (s * delta x b)%C.

(* a one-qubit gate chosen by the other qubits, on a basis state whose column of the gate is diagonal *)
Lemma delta_swap_arg (g : asg -> C) x y : (delta x y * g x = delta x y * g y)%C.
Proof. unfold delta. destruct (N.eqb_spec x y) as [->|]; ring. Qed.
Lemma appf_basis_diag (f : asg -> mat2) k s b : indep k f ->
  mget (f b) (negb (get b k)) (get b k) = RtoC 0 ->
  appf f k (bs s b) = bs (mget (f b) (get b k) (get b k) * s)%C b.
Proof.
  intros Hf H0. apply functional_extensionality; intros x. unfold appf.
  pose proof (SparseSim.mcu_single (f x) [] k s b x (fun H => H)) as E.
  change (allq [] x) with true in E. change (allq [] b) with true in E. cbv iota in E.
  change (app1 (f x) k (bs s b) x = bs (mget (f b) (get b k) (get b k) * s)%C b x).
  unfold bs at 1. rewrite E. cbn [FnSem.den fst snd].
  (* in each term the delta forces x = upd b k v, where f takes the value f b *)
  assert (T0 : (mget (f x) false (get b k) * s * delta x (upd b k false)
               = mget (f b) false (get b k) * s * delta x (upd b k false))%C).
  { rewrite <- (Hf b false). rewrite !(Cmult_comm _ (delta x (upd b k false))).
    rewrite (delta_swap_arg (fun y => (mget (f y) false (get b k) * s)%C) x (upd b k false)). reflexivity. }
  assert (T1 : (mget (f x) true (get b k) * s * delta x (upd b k true)
               = mget (f b) true (get b k) * s * delta x (upd b k true))%C).
  { rewrite <- (Hf b true). rewrite !(Cmult_comm _ (delta x (upd b k true))).
    rewrite (delta_swap_arg (fun y => (mget (f y) true (get b k) * s)%C) x (upd b k true)). reflexivity. }
  rewrite T0, T1. unfold bs.
  destruct (get b k) eqn:Eb; cbn [negb] in H0.
  - assert (UB : upd b k true = b) by (rewrite <- Eb; apply upd_get). rewrite H0, UB. ring.
  - assert (UB : upd b k false = b) by (rewrite <- Eb; apply upd_get). rewrite H0, UB. ring.
Qed.

Section Preserve.
Variable tb : nat -> bool.
Variable n : nat.

(* every level keeps the basis state: the product of the diagonal entries and of the carried phases *)
Fixpoint pfac (k : nat) (ls : list ((asg -> mat2) * (asg -> C) * state)) (b : asg) : C :=
  match ls with
  | [] => RtoC 1
  | (f, d, _) :: rest => (d b * mget (f b) (get b k) (get b k) * pfac (S k) rest b)%C
  end.
Fixpoint cols_ok (k : nat) (ls : list ((asg -> mat2) * (asg -> C) * state)) (b : asg) : Prop :=
  match ls with
  | [] => True
  | (f, d, _) :: rest => indep k f /\ mget (f b) (negb (get b k)) (get b k) = RtoC 0 /\ cols_ok (S k) rest b
  end.
Theorem levels_keep_basis ls : forall k s b, cols_ok k ls b -> levels k ls (bs s b) = bs (s * pfac k ls b)%C b.
Proof.
  induction ls as [|[[f d] p] ls IH]; intros k s b H.
  - simpl. unfold bs. apply functional_extensionality; intros x. ring.
  - destruct H as [Hf [H0 Hr]]. cbn [levels pfac]. unfold level. rewrite (appf_basis_diag f k s b Hf H0).
    assert (E : (fun x => (d x * bs (mget (f b) (get b k) (get b k) * s)%C b x)%C) = bs (d b * mget (f b) (get b k) (get b k) * s)%C b).
    { apply functional_extensionality; intros x. unfold bs, delta. destruct (N.eqb_spec x b) as [->|]; ring. }
    rewrite E, IH by auto. f_equal. ring.
Qed.

(* the collected factor has modulus one when every carried phase and every diagonal entry met has *)
Fixpoint unit_ok (k : nat) (ls : list ((asg -> mat2) * (asg -> C) * state)) (b : asg) : Prop :=
  match ls with
  | [] => True
  | (f, d, _) :: rest => Cmod (d b) = 1%R /\ Cmod (mget (f b) (get b k) (get b k)) = 1%R /\ unit_ok (S k) rest b
  end.
Lemma pfac_unit ls : forall k b, unit_ok k ls b -> Cmod (pfac k ls b) = 1%R.
Proof.
  induction ls as [|[[f d] p] ls IH]; intros k b H; cbn [pfac].
  - apply Cmod_1.
  - destruct H as [H1 [H2 H3]]. rewrite !Cmod_mult, H1, H2, IH by auto. ring.
Qed.

(* the preserve structure *)
Definition hi_match (k : nat) (b : asg) : bool := forallb (fun q => Bool.eqb (get b q) (tb q)) (seq (S k) (n - S k)).
Definition fprime (k : nat) (mux : asg -> mat2) (gp : mat2) (b : asg) : mat2 :=
  if hi_match k b then (if low_ok tb k b then gp else I2) else mux b.
(* b is below the target: it agrees with the target above h, has 0 where the target has 1 at h *)
Definition below_t (h : nat) (b : asg) : Prop :=
  h < n /\ get b h = false /\ tb h = true /\ forall q, h < q -> q < n -> get b q = tb q.

Lemma hi_match_upd k b v : hi_match k (upd b k v) = hi_match k b.
Proof.
  unfold hi_match. apply LdmcsuModel.forallb_ext_in'. intros q Hq. apply in_seq in Hq. now rewrite get_upd_other by lia.
Qed.
Lemma fprime_indep k mux gp : indep k mux -> indep k (fprime k mux gp).
Proof.
  intros Hm b v. unfold fprime. rewrite hi_match_upd, (low_ok_upd tb k b k v) by lia. now rewrite Hm.
Qed.

Lemma fprime_column k mux gp h b : k < n -> below_t h b ->
  (k < h -> mux b = I2) -> (tb k = true -> mget gp true false = RtoC 0) ->
  mget (fprime k mux gp b) (negb (get b k)) (get b k) = RtoC 0.
Proof.
  intros Hk [Hh [Hb0 [Ht1 Hab]]] Ha Hb. unfold fprime.
  assert (I2off : forall v, mget I2 (negb v) v = RtoC 0) by (intros []; reflexivity).
  destruct (lt_eq_lt_dec k h) as [[Hlt|Eq]|Hgt].
  - (* below h: the qubits above k do not spell the target's *)
    assert (HM : hi_match k b = false).
    { unfold hi_match. apply not_true_is_false. intros A. rewrite forallb_forall in A.
      specialize (A h). rewrite in_seq in A. specialize (A ltac:(lia)). apply eqb_prop in A. congruence. }
    rewrite HM, Ha by auto. apply I2off.
  - subst k.
    assert (HM : hi_match h b = true).
    { unfold hi_match. apply forallb_forall. intros q Hq. apply in_seq in Hq. rewrite Hab by lia. apply eqb_reflx. }
    rewrite HM. destruct (low_ok tb h b); [|apply I2off]. rewrite Hb0. cbn [negb]. now apply Hb.
  - assert (HM : hi_match k b = true).
    { unfold hi_match. apply forallb_forall. intros q Hq. apply in_seq in Hq. rewrite Hab by lia. apply eqb_reflx. }
    assert (LO : low_ok tb k b = false).
    { unfold low_ok. apply not_true_is_false. intros A. rewrite forallb_forall in A.
      specialize (A h). rewrite in_seq in A. specialize (A ltac:(lia)). apply eqb_prop in A. congruence. }
    rewrite HM, LO. apply I2off.
Qed.

(* all levels in preserve mode *)
Fixpoint plevels (k : nat) (ms : list ((asg -> mat2) * mat2 * (asg -> C))) : list ((asg -> mat2) * (asg -> C) * state) :=
  match ms with
  | [] => []
  | (mux, gp, d) :: rest => (fprime k mux gp, d, fun _ => RtoC 0) :: plevels (S k) rest
  end.
Fixpoint pres_ok (k : nat) (ms : list ((asg -> mat2) * mat2 * (asg -> C))) : Prop :=
  match ms with
  | [] => True
  | (mux, gp, d) :: rest =>
      indep k mux /\ (forall h b, k < h -> below_t h b -> mux b = I2) /\ (tb k = true -> mget gp true false = RtoC 0)
      /\ pres_ok (S k) rest
  end.

Theorem preserve_below_target ms : forall k h b s, k + length ms <= n -> below_t h b -> pres_ok k ms ->
  levels k (plevels k ms) (bs s b) = bs (s * pfac k (plevels k ms) b)%C b.
Proof.
  intros k h b s Hn Hb Hok. apply levels_keep_basis.
  revert k Hn Hok. induction ms as [|[[mux gp] d] ms IH]; intros k Hn Hok. exact I.
  destruct Hok as [Hi [Ha [Hg Hr]]]. cbn [plevels cols_ok length] in *. split; [|split].
  - now apply fprime_indep.
  - apply (fprime_column k mux gp h b); auto. lia. intros Hk. now apply (Ha h b).
  - apply IH; auto. lia.
Qed.
End Preserve.
