(* Property C07 / C01 (part 4): phase 2 of the low-rank circuit.  The CNOT fan cx(b_j, a_j) copies each control bit into its
   (zero) target on every basis state and keeps the amplitudes: sum_i s_i |i>_b |0>_a  ->  sum_i s_i |i>_b |i>_a, the matrix
   Psi2 of C07_lowrank_assembly. *)
From Coq Require Import Reals List Bool Arith.
From Coquelicot Require Import Complex.
From QV Require Import Sem FnPointsModel FnSem LowRankFan.
Import ListNotations.

Theorem C07_fan_copies : forall (ps : list (nat * nat)) (B : asg),
  NoDup (map snd ps) -> (forall p q, In p ps -> In q ps -> fst p <> snd q) ->
  (forall p, In p ps -> get B (snd p) = false) ->
  forall x, get (cls (fan ps) B) x
  = match find (fun p => Nat.eqb (snd p) x) ps with Some p => get B (fst p) | None => get B x end.
Proof. exact fan_copies. Qed.
Print Assumptions C07_fan_copies.

Theorem C07_fan_superposition : forall (Nv : R) (ps : list (nat * nat)) (l : list entry),
  (forall p q, In p ps -> In q ps -> fst p <> snd q) ->
  frun Nv (fan ps) (den l) = den (map (fun e => (fst e, cls (fan ps) (snd e))) l).
Proof. exact fan_den. Qed.
Print Assumptions C07_fan_superposition.
