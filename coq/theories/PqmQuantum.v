(* C17, quantum-pattern variant: on every branch of the pattern register the circuit with CNOTs from the pattern qubits
   acts exactly like the classical-pattern circuit for that branch's pattern; the pattern register is never a target. *)
From Coq Require Import Reals Lra List Bool Arith Lia NArith ZArith FunctionalExtensionality.
From Coquelicot Require Import Complex.
From QV Require Import Sem Mat2 Toff2 Chain Pqm PqmModel.
Import ListNotations.
Open Scope nat_scope.

Section Quantum.
Variables pq mq : nat -> nat.
Variable xq n : nat.
Hypothesis pq_x : forall k, pq k <> xq.
Hypothesis pq_m : forall k k', pq k <> mq k'.
Variable p0 : nat -> bool.

(* assignments whose pattern register reads p0 *)
Definition onpat (b : asg) : Prop := forall k, k < n -> get b (pq k) = p0 k.
Definition agree (f1 f2 : state) : Prop := forall b, onpat b -> f1 b = f2 b.

Lemma onpat_upd b q v : (forall k, pq k <> q) -> onpat b -> onpat (upd b q v).
Proof. intros H Hb k Hk. rewrite get_upd_other by (apply H). now apply Hb. Qed.
Lemma onpat_flipq b q : (forall k, pq k <> q) -> onpat b -> onpat (flipq q b).
Proof. intros H Hb. unfold flipq. now apply onpat_upd. Qed.

(* a one-qubit matrix that may depend on the assignment, on a non-pattern target *)
Lemma agree_appf f t f1 f2 : (forall k, pq k <> t) -> agree f1 f2 -> agree (appf f t f1) (appf f t f2).
Proof.
  intros Ht A b Hb. unfold appf, app1. rewrite !A by (apply onpat_upd; auto). reflexivity.
Qed.
Lemma agree_cp l c t f1 f2 : agree f1 f2 -> (forall k, pq k <> t) -> agree (cp l c t f1) (cp l c t f2).
Proof.
  intros A Ht b Hb. unfold cp. destruct (get b c); [|now apply A].
  unfold app1. rewrite !A by (apply onpat_upd; auto). reflexivity.
Qed.

Lemma agree_same g f1 f2 :
  (match g with PH q | PX q | PP _ _ q => forall k, pq k <> q | PCX _ t | PCP _ _ _ t => forall k, pq k <> t end) ->
  agree f1 f2 -> agree (papp g f1) (papp g f2).
Proof.
  destruct g as [q|q|c t|nn d q|nn d c t]; simpl; intros H A.
  - intros b Hb. unfold app1. rewrite !A by (apply onpat_upd; auto). reflexivity.
  - intros b Hb. unfold app1. rewrite !A by (apply onpat_upd; auto). reflexivity.
  - apply agree_appf; auto.
  - intros b Hb. unfold app1. rewrite !A by (apply onpat_upd; auto). reflexivity.
  - now apply agree_cp.
Qed.

Definition pat0 : list bool := map p0 (seq 0 n).
Lemma pat0_nth k : k < n -> nth k pat0 false = p0 k.
Proof.
  intros H. unfold pat0. rewrite (nth_indep _ false (p0 0)) by (rewrite map_length, seq_length; lia).
  rewrite map_nth. now rewrite seq_nth by lia.
Qed.

Lemma prun_cons g c f : prun (g :: c) f = prun c (papp g f).
Proof. reflexivity. Qed.

(* the CNOT layer from the pattern register against the X layer of the classical circuit *)
Lemma agree_cx_layer ks : (forall k, In k ks -> k < n) -> forall f1 f2, agree f1 f2 ->
  agree (prun (cxs_gates pq mq ks) f1) (prun (xs_gates mq pat0 ks) f2).
Proof.
  induction ks as [|k ks IH]; intros Hks f1 f2 A. exact A.
  unfold cxs_gates, xs_gates in *. cbn [map flat_map].
  assert (Hk : k < n) by (apply Hks; now left).
  rewrite (pat0_nth k Hk).
  destruct (p0 k) eqn:E.
  - cbn [app]. rewrite !prun_cons.
    apply IH; [intros; apply Hks; now right|].
    intros b Hb. simpl. unfold appf. rewrite (Hb k Hk), E. cbn [Xpow].
    rewrite !app1_X. apply A. apply onpat_flipq; auto.
  - cbn [app]. rewrite prun_cons.
    apply IH; [intros; apply Hks; now right|].
    intros b Hb. simpl. unfold appf. rewrite (Hb k Hk), E. cbn [Xpow]. rewrite app1_I2. now apply A.
Qed.

Lemma agree_map_same (mk : nat -> pgate) ks :
  (forall k, match mk k with PH q | PX q | PP _ _ q => forall k', pq k' <> q | PCX _ t | PCP _ _ _ t => forall k', pq k' <> t end) ->
  forall f1 f2, agree f1 f2 -> agree (prun (map mk ks) f1) (prun (map mk ks) f2).
Proof.
  intros H. induction ks as [|k ks IH]; intros f1 f2 A. exact A.
  cbn [map]. rewrite !prun_cons. apply IH. apply agree_same; auto. apply H.
Qed.

Theorem quantum_as_classical psi :
  agree (prun (pqm_gates_q n pq mq xq) psi) (prun (pqm_gates n mq xq pat0) psi).
Proof.
  unfold pqm_gates_q, pqm_gates. rewrite !prun_app.
  assert (A0 : agree psi psi) by (intros b _; reflexivity).
  assert (Hx : forall k, pq k <> xq) by exact pq_x.
  apply (agree_same (PH xq)); auto.
  apply agree_cx_layer. { intros k I. apply in_rev in I. apply in_seq in I. lia. }
  apply (agree_map_same (fun k => PCP 1 (Z.of_nat n) xq (mq k))). { intros k k'. apply pq_m. }
  apply (agree_map_same (fun k => PP (-1) (2 * Z.of_nat n) (mq k))). { intros k k'. apply pq_m. }
  apply agree_cx_layer. { intros k I. apply in_seq in I. lia. }
  apply (agree_same (PH xq)); auto.
Qed.
End Quantum.
