From mathcomp Require Import all_ssreflect all_algebra.
From mathcomp Require Import ring.
Set Implicit Arguments. Unset Strict Implicit. Unset Printing Implicit Defensive.
Import GRing.Theory.
Local Open Scope ring_scope.

Section Fidelity.
Variable (F : fieldType) (conj : {rmorphism F -> F}).
Definition adj m n (A : 'M[F]_(m, n)) : 'M[F]_(n, m) := \matrix_(i, j) conj (A j i).

Lemma adj_mul m n p (A : 'M[F]_(m, n)) (B : 'M[F]_(n, p)) : adj (A *m B) = adj B *m adj A.
Proof.
  apply/matrixP => i j; rewrite !mxE rmorph_sum; apply: eq_bigr => k _.
  by rewrite !mxE rmorphM mulrC.
Qed.
Lemma adj_diag n (d : 'rV[F]_n) : adj (diag_mx d) = diag_mx (map_mx conj d).
Proof.
  apply/matrixP => i j; rewrite !mxE eq_sym. case E: (i == j) => /=.
    by rewrite (eqP E) !mulr1n.
  by rewrite !mulr0n rmorph0.
Qed.

Variables (d1 d2 r : nat).
Variables (U : 'M[F]_(d1, r)) (V : 'M[F]_(r, d2)) (s p : 'rV[F]_r).
Hypothesis Uorth : adj U *m U = 1%:M.        (* orthonormal left vectors *)
Hypothesis Vorth : V *m adj V = 1%:M.        (* orthonormal right vectors *)

Definition M  := U *m diag_mx s *m V.                         (* the state as a matrix *)
Definition M' := U *m (diag_mx p *m diag_mx s) *m V.          (* truncation: p is the 0/1 mask *)

(* <M, M'> = sum_i p_i |s_i|^2 *)
Theorem overlap_truncated : \tr (adj M *m M') = \sum_i p 0 i * (s 0 i * conj (s 0 i)).
Proof.
  rewrite /M /M' !adj_mul adj_diag.
  set Ds := diag_mx (map_mx conj s). set PD := diag_mx p *m diag_mx s.
  have -> : adj V *m (Ds *m adj U) *m (U *m PD *m V) = adj V *m (Ds *m (adj U *m U) *m PD *m V).
    by rewrite !mulmxA.
  rewrite Uorth mulmx1 mxtrace_mulC.
  have -> : Ds *m PD *m V *m adj V = Ds *m PD *m (V *m adj V) by rewrite !mulmxA.
  rewrite Vorth mulmx1 /Ds /PD !mulmx_diag mxtrace_diag.
  apply: eq_bigr => i _. rewrite !mxE mulrCA. congr (_ * _). exact: mulrC.
Qed.
End Fidelity.
Print Assumptions overlap_truncated.
