(* C07, optimality clause in full: for psi = sum_{i<r} s_i u_i (x) v_i (orthonormal u, orthonormal v, s >= 0 non-increasing)
   and ANY phi = sum_{j<k} t_j a_j (x) b_j with orthonormal a, orthonormal b and sum |t_j|^2 = 1 (i.e. any unit state of Schmidt
   rank <= k, written in its own Schmidt form), |<phi|psi>|^2 <= sum_{i<k} s_i^2. *)
From Coq Require Import Reals Lra Lia Arith Bool.
From Coquelicot Require Import Complex.
From QV Require Import TopK Bessel.
Open Scope R_scope.

Lemma rsum_swap (f : nat -> nat -> R) n m :
  rsum (fun i => rsum (fun j => f i j) m) n = rsum (fun j => rsum (fun i => f i j) n) m.
Proof.
  induction n as [|n IH]; simpl.
  - induction m as [|m IHm]; simpl; auto. rewrite <- IHm. ring.
  - rewrite IH. now rewrite <- rsum_plus.
Qed.
Lemma rsum_nonneg f n : (forall i, (i < n)%nat -> 0 <= f i) -> 0 <= rsum f n.
Proof. induction n as [|n IH]; intros H; simpl. lra. assert (0 <= rsum f n) by (apply IH; intros; apply H; lia). assert (0 <= f n) by (apply H; lia). lra. Qed.
Lemma Cconj_mult (a b : C) : Cconj (a * b)%C = (Cconj a * Cconj b)%C.
Proof. unfold Cconj, Cmult. destruct a, b. simpl. f_equal; ring. Qed.
Lemma Cconj_RtoC x : Cconj (RtoC x) = RtoC x.
Proof. unfold Cconj, RtoC. simpl. f_equal. ring. Qed.
Lemma csum_mult F G n m : (csum F n * csum G m)%C = csum (fun j => csum (fun i => (F j * G i)%C) m) n.
Proof.
  rewrite <- csum_scal_r. apply csum_ext. intros j _. now rewrite csum_scal.
Qed.
Lemma nrm2_of_inner d x : inner d x x = RtoC 1 -> nrm2 d x = 1.
Proof. intros H. rewrite inner_self in H. now injection H. Qed.

Section Opt.
Variables (p q r k : nat).
Variables (u v a b : nat -> nat -> C).
Variable s : nat -> R.
Variable t : nat -> C.
Hypothesis k_le_r : (k <= r)%nat.
Hypothesis orth_u : forall i l, (i < r)%nat -> (l < r)%nat -> inner p (u i) (u l) = if Nat.eqb i l then RtoC 1 else RtoC 0.
Hypothesis orth_v : forall i l, (i < r)%nat -> (l < r)%nat -> inner q (v i) (v l) = if Nat.eqb i l then RtoC 1 else RtoC 0.
Hypothesis orth_a : forall i l, (i < k)%nat -> (l < k)%nat -> inner p (a i) (a l) = if Nat.eqb i l then RtoC 1 else RtoC 0.
Hypothesis orth_b : forall i l, (i < k)%nat -> (l < k)%nat -> inner q (b i) (b l) = if Nat.eqb i l then RtoC 1 else RtoC 0.
Hypothesis s_pos : forall i, (i < r)%nat -> 0 <= s i.
Hypothesis s_mono : forall i j, (i <= j)%nat -> (j < r)%nat -> s j <= s i.
Hypothesis t_unit : nrm2 k t = 1.

Definition psi (x y : nat) : C := csum (fun i => (RtoC (s i) * u i x * v i y)%C) r.
Definition phi (x y : nat) : C := csum (fun j => (t j * a j x * b j y)%C) k.
Definition overlap : C := csum (fun x => csum (fun y => (Cconj (phi x y) * psi x y)%C) q) p.

Definition A (j i : nat) : C := inner p (a j) (u i).
Definition B (j i : nat) : C := inner q (b j) (v i).
Definition g (j : nat) : C := csum (fun i => (RtoC (s i) * (A j i * B j i))%C) r.

(* bilinear expansion of the overlap *)
Lemma overlap_expand : overlap = inner k t g.
Proof.
  unfold overlap, inner, g, A, B, inner, phi, psi.
  (* per (x, y): product of the two sums as a double sum over (j, i) *)
  rewrite (csum_ext _ (fun x => csum (fun y => csum (fun j => csum (fun i =>
     ((Cconj (t j) * RtoC (s i)) * ((Cconj (a j x) * u i x) * (Cconj (b j y) * v i y)))%C) r) k) q)).
  2:{ intros x _. apply csum_ext. intros y _. rewrite csum_conj, csum_mult.
      apply csum_ext. intros j _. apply csum_ext. intros i _. rewrite !Cconj_mult. ring. }
  (* bring the sums over j, i outside *)
  rewrite (csum_ext _ (fun x => csum (fun j => csum (fun y => csum (fun i =>
     ((Cconj (t j) * RtoC (s i)) * ((Cconj (a j x) * u i x) * (Cconj (b j y) * v i y)))%C) r) q) k))
    by (intros x _; apply csum_swap).
  rewrite csum_swap. apply csum_ext. intros j _.
  rewrite (csum_ext _ (fun x => csum (fun i => csum (fun y =>
     ((Cconj (t j) * RtoC (s i)) * ((Cconj (a j x) * u i x) * (Cconj (b j y) * v i y)))%C) q) r))
    by (intros x _; apply csum_swap).
  rewrite csum_swap. rewrite <- csum_scal. apply csum_ext. intros i _.
  (* the inner double sum factorises *)
  rewrite (csum_ext _ (fun x => ((Cconj (t j) * RtoC (s i)) * (Cconj (a j x) * u i x) *
                                 csum (fun y => (Cconj (b j y) * v i y)%C) q)%C)).
  2:{ intros x _. rewrite <- csum_scal. apply csum_ext. intros y _. ring. }
  rewrite csum_scal_r.
  rewrite csum_scal. ring.
Qed.

Lemma nrm_b j : (j < k)%nat -> nrm2 q (b j) = 1.
Proof. intros H. apply nrm2_of_inner. rewrite orth_b by auto. now rewrite Nat.eqb_refl. Qed.
Lemma nrm_a j : (j < k)%nat -> nrm2 p (a j) = 1.
Proof. intros H. apply nrm2_of_inner. rewrite orth_a by auto. now rewrite Nat.eqb_refl. Qed.
Lemma nrm_u i : (i < r)%nat -> nrm2 p (u i) = 1.
Proof. intros H. apply nrm2_of_inner. rewrite orth_u by auto. now rewrite Nat.eqb_refl. Qed.

Lemma Cn2_inner_sym d x y : Cn2 (inner d x y) = Cn2 (inner d y x).
Proof. rewrite <- (inner_conj d y x). apply Cn2_conj. Qed.

(* one term of phi against psi *)
Lemma g_bound j : (j < k)%nat -> Cn2 (g j) <= rsum (fun i => s i * s i * Cn2 (A j i)) r.
Proof.
  intros Hj.
  assert (E : g j = inner r (fun i => Cconj (RtoC (s i) * A j i)%C) (fun i => B j i)).
  { unfold g, inner. apply csum_ext. intros i _.
    assert (CC : forall z, Cconj (Cconj z) = z) by (intros [x0 y0]; unfold Cconj; simpl; f_equal; ring).
    rewrite CC. ring. }
  rewrite E. eapply Rle_trans. apply cauchy_schwarz.
  assert (N1 : nrm2 r (fun i => Cconj (RtoC (s i) * A j i)%C) = rsum (fun i => s i * s i * Cn2 (A j i)) r).
  { unfold nrm2. apply rsum_ext. intros i _. now rewrite Cn2_conj, Cn2_mult, Cn2_RtoC. }
  assert (N2 : nrm2 r (fun i => B j i) <= 1).
  { unfold nrm2, B. rewrite (rsum_ext _ (fun i => Cn2 (inner q (v i) (b j)))) by (intros; apply Cn2_inner_sym).
    rewrite <- (nrm_b j Hj). apply (bessel q r v orth_v). }
  rewrite N1.
  assert (P : 0 <= rsum (fun i => s i * s i * Cn2 (A j i)) r).
  { apply rsum_nonneg. intros i _. pose proof (Cn2_pos (A j i)). nra. }
  pose proof (nrm2_pos r (fun i => B j i)). nra.
Qed.

Definition w (i : nat) : R := rsum (fun j => Cn2 (A j i)) k.

Theorem schmidt_rank_bound : Cn2 overlap <= rsum (fun i => s i * s i) k.
Proof.
  rewrite overlap_expand.
  eapply Rle_trans. apply cauchy_schwarz. rewrite t_unit, Rmult_1_l.
  (* sum over j of the term bounds, then exchange the sums *)
  apply Rle_trans with (rsum (fun j => rsum (fun i => s i * s i * Cn2 (A j i)) r) k).
  { unfold nrm2. apply rsum_le. intros j Hj. now apply g_bound. }
  rewrite rsum_swap.
  rewrite (rsum_ext _ (fun i => (s i * s i) * w i)).
  2:{ intros i _. unfold w. rewrite <- rsum_scal. reflexivity. }
  apply (topk_bound (fun i => s i * s i) w r k); auto.
  - intros i Hi. pose proof (s_pos i Hi). nra.
  - intros i j Hij Hj. assert (0 <= s j) by (apply s_pos; lia). assert (s j <= s i) by (apply s_mono; auto). nra.
  - intros i Hi. unfold w. split.
    + apply rsum_nonneg. intros j _. apply Cn2_pos.
    + rewrite <- (nrm_u i Hi). apply (bessel p k a orth_a).
  - (* sum of the weights: exchange and use Bessel for the family u *)
    unfold w. rewrite rsum_swap.
    apply Rle_trans with (rsum (fun j => 1) k).
    + apply rsum_le. intros j Hj.
      rewrite (rsum_ext _ (fun i => Cn2 (inner p (u i) (a j)))) by (intros; unfold A; apply Cn2_inner_sym).
      rewrite <- (nrm_a j Hj). apply (bessel p r u orth_u).
    + rewrite rsum_const. lra.
Qed.
End Opt.
