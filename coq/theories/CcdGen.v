(* C10: the column-by-column estimate (translated from qclib/isometry.py) for state preparation (m = 0 columns index bits):
   sum over the n target qubits of one uniformly controlled gate up to a diagonal, 2^(n-1-i) - 1 CNOTs each. *)
From Coq Require Import ZArith Lia List Bool.
From QV Require Import GenLib Gen_isometry_counts.
Import ListNotations.
Open Scope Z_scope.

Lemma fold_left_ext_in {A B} (f g : A -> B -> A) l : (forall a x, In x l -> f a x = g a x) ->
  forall a, fold_left f l a = fold_left g l a.
Proof.
  induction l as [|x l IH]; intros H a. reflexivity.
  simpl. rewrite H by now left. apply IH. intros; apply H; now right.
Qed.
Lemma fold_add (f : Z -> Z) l : forall a, fold_left (fun acc i => acc + f i) l a = a + zsum (map f l).
Proof.
  induction l as [|x l IH]; intros a; simpl. unfold zsum. simpl. lia.
  rewrite IH, zsum_cons. lia.
Qed.
Lemma in_zrange x a b : In x (zrange a b) -> a <= x < b.
Proof.
  unfold zrange. intros H. apply in_map_iff in H as [i [<- Hi]]. apply in_seq in Hi. lia.
Qed.
Lemma zlen_zrange a b : a <= b -> zlen (zrange a b) = b - a.
Proof. intros H. unfold zlen. rewrite zrange_length. lia. Qed.

Lemma b_zero i : 0 <= i -> _b 0 i = 0.
Proof. intros H. unfold _b, _a. rewrite Z.div_0_l. lia. assert (0 < 2 ^ i) by (apply Z.pow_pos_nonneg; lia). lia. Qed.

Lemma pow_sum (n : nat) : zsum (map (fun i => 2 ^ (Z.of_nat n - i - 1) - 1) (zrange 0 (Z.of_nat n))) = 2 ^ Z.of_nat n - 1 - Z.of_nat n.
Proof.
  induction n as [|n IH]. reflexivity.
  (* peel the FIRST element: i = 0 contributes 2^n - 1, the rest is the sum for n *)
  assert (E : zrange 0 (Z.of_nat (S n)) = 0 :: map Z.succ (zrange 0 (Z.of_nat n))).
  { unfold zrange. replace (Z.of_nat (S n) - 0) with (Z.of_nat (S n)) by lia.
    replace (Z.of_nat n - 0) with (Z.of_nat n) by lia. rewrite !Nat2Z.id. cbn [seq map]. f_equal.
    rewrite <- seq_shift, !map_map. apply map_ext. intros; lia. }
  rewrite E. cbn [map]. rewrite zsum_cons, map_map.
  rewrite (map_ext (fun x => 2 ^ (Z.of_nat (S n) - Z.succ x - 1) - 1) (fun i => 2 ^ (Z.of_nat n - i - 1) - 1)).
  2:{ intros a. f_equal. f_equal. lia. }
  rewrite IH. replace (Z.of_nat (S n) - 0 - 1) with (Z.of_nat n) by lia.
  rewrite Nat2Z.inj_succ, Z.pow_succ_r by lia. lia.
Qed.

Theorem ccd_state_estimate (n : nat) : _cnot_count_estimate_ccd (Z.of_nat n) 0 = 2 ^ Z.of_nat n - 1 - Z.of_nat n.
Proof.
  unfold _cnot_count_estimate_ccd. cbv zeta.
  change (2 ^ 0) with 1. change (zrange 0 1) with [0]. cbn [fold_left].
  rewrite (fold_left_ext_in _ (fun acc i => acc + (2 ^ (Z.of_nat n - i - 1) - 1))).
  - rewrite fold_add, pow_sum. simpl. lia.
  - intros a i Hi. apply in_zrange in Hi.
    rewrite b_zero by lia. cbn [Z.eqb negb andb]. rewrite andb_false_r.
    rewrite zlen_zrange by lia. f_equal. f_equal. f_equal. lia.
Qed.
