(* Property C13: uniformly controlled rotations implement the block-diagonal multiplexer.
   Only statements + `exact`; proofs live in UcrLocal / UcrSpec / UcrModel. *)
From Coq Require Import Reals List QArith Qreals.
From QV Require Import Sem Mat2 UcrLocal UcrSpec UcrModel UcrRefute.
Import ListNotations.
Open Scope R_scope.

(* exact-arithmetic model (leaf skipped only when the angle is 0): all k, all angle tables,
   (RY,CX), (RY,CZ), (RZ,CX) *)
Theorem C13_ucr_exact : forall r e k a, (e = EntCX \/ r = RotY) ->
  forall psi, run (ucr r e k a true) psi = mux r k a psi.
Proof. exact ucr_spec. Qed.
Print Assumptions C13_ucr_exact.

Theorem C13_ucr_nolast : forall r e k a, (e = EntCX \/ r = RotY) ->
  forall psi, run (ucr r e k a false ++ match k with O => [] | S _ => [GEnt e k O] end) psi = mux r k a psi.
Proof. exact ucr_nolast_spec. Qed.
Print Assumptions C13_ucr_nolast.

(* the executable model that is compared gate by gate with qclib.gates.ucr.ucr (leaf skipped iff
   |angle| <= 10^-8, as in the source): it denotes the multiplexer of angles a' with
   |a'_j - a_j| <= 2^k * 10^-8, with and without the trailing entangler *)
Theorem C13_ucr_model : forall r e k (a : nat -> Q), (e = EntCX \/ r = RotY) ->
  exists a' : nat -> R,
    (forall psi, run (map (valgate Q2R) (ucr_g qops r e k a true)) psi = mux r k a' psi) /\
    (forall psi, run (map (valgate Q2R) (ucr_g qops r e k a false) ++ match k with O => [] | S _ => [GEnt e k O] end) psi
                 = mux r k a' psi) /\
    (forall j, (j < 2^k)%nat -> Rabs (a' j - Q2R (a j)) <= 2^k * Q2R eps_q).
Proof. exact ucr_q_spec. Qed.
Print Assumptions C13_ucr_model.

(* for any leaf test that only skips exact zeros the implemented angles are the requested ones *)
Theorem C13_eff_exact : forall skip, (forall x, skip x = true -> x = 0) ->
  forall k a j, (j < 2^k)%nat -> eff skip k a j = a j.
Proof. exact eff_exact. Qed.
Print Assumptions C13_eff_exact.

(* the hypothesis (e = CX or r = RY) cannot be dropped: for RZ rotations with CZ entanglers the local 2x2 product is not the
   requested rotation (angles (0, pi), control set) - which is why the property names only the three combinations *)
Theorem C13_rz_cz_refuted :
  mmul (entm EntCZ 1 b_ref) (cmat (ucr_nl RotZ EntCZ 1 a_ref) b_ref) <> Rm RotZ (a_ref (cidx 1 b_ref)).
Proof. exact ucr_rz_cz_refuted. Qed.
Print Assumptions C13_rz_cz_refuted.
