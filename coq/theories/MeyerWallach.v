(* C20: from Lagrange's identity to the Meyer-Wallach formula.
   The code computes, per qubit, D = sum_{j} sum_{i<j} |u_i v_j - u_j v_i|^2 and returns (4/n) sum_k D_k.
   Here: 2 D = sum_{i,j} |...|^2 = 2 (A B - S Sc), and with A + B = 1 (unit vector): 1 - Tr rho^2 = 2 (A B - S Sc),
   where Tr rho^2 = A^2 + B^2 + 2 S Sc.  So 4 D = 2 (1 - Tr rho^2) and MW = 2 (1 - (1/n) sum_k Tr rho_k^2). *)
From mathcomp Require Import all_ssreflect all_algebra.
From mathcomp Require Import ring.
From QV Require Import Lagrange.
Set Implicit Arguments. Unset Strict Implicit. Unset Printing Implicit Defensive.
Import GRing.Theory.
Local Open Scope ring_scope.

Section MW.
Variable (F : fieldType) (conj : {rmorphism F -> F}).
Variable n : nat.
Variables u v : 'I_n -> F.
Let f (i j : 'I_n) : F := nsq conj (u i * v j - u j * v i).

Lemma f_sym i j : f i j = f j i.
Proof. rewrite /f /nsq !rmorphB !rmorphM /=. ring. Qed.
Lemma f_diag i : f i i = 0.
Proof. by rewrite /f /nsq subrr mul0r. Qed.

(* the strictly-lower-triangular sum the code computes *)
Definition D : F := \sum_(j : 'I_n) \sum_(i : 'I_n | (i < j)%N) f i j.

Lemma double_sum : \sum_i \sum_j f i j = D + D.
Proof.
  have E1 : D = \sum_(i : 'I_n) \sum_(j : 'I_n) (if (j < i)%N then f i j else 0).
    rewrite /D. apply: eq_bigr => a _. rewrite big_mkcond /=. apply: eq_bigr => b _.
    by case: ifP => // _; rewrite f_sym.
  have E2 : D = \sum_(i : 'I_n) \sum_(j : 'I_n) (if (i < j)%N then f i j else 0).
    rewrite /D exchange_big /=. apply: eq_bigr => b _. by rewrite big_mkcond.
    (* after exchange the outer index is the small one *)
  rewrite {1}E1 {1}E2 -big_split /=. apply: eq_bigr => i _. rewrite -big_split /=. apply: eq_bigr => j _.
  case: (ltngtP i j) => H; rewrite ?addr0 ?add0r //.
  have -> : i = j by apply: val_inj. by rewrite f_diag.
Qed.

Theorem mw_per_qubit : D + D = A conj u * B conj v + A conj u * B conj v - (S conj u v * Sc conj u v + S conj u v * Sc conj u v).
Proof. rewrite -double_sum. exact: lagrange_full. Qed.

(* purity form: for A + B = 1,  1 - (A^2 + B^2 + 2 S Sc) = 2 (A B - S Sc) *)
Lemma purity_form (a b s sc : F) : a + b = 1 -> 1 - (a * a + b * b + (s * sc + s * sc)) = (a * b + a * b) - (s * sc + s * sc).
Proof. move=> H. have -> : 1 = (a + b) * (a + b) by rewrite H mulr1. ring. Qed.
End MW.
