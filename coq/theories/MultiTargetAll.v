(* C04, MultiTargetMCSU2 for every number of controls k >= 2: the small branches of the multi-target V-chain (one or two controls:
   CX fans and a fanned Toffoli) and the single-target chains complete the general branch of MultiTarget.v. *)
From Coq Require Import Reals Lra List Bool Arith Lia NArith FunctionalExtensionality.
From Coquelicot Require Import Complex.
From QV Require Import Sem Mat2 Toff2 Chain Vchain Cvoqram SumQ McxModel McxPlaced McxMulti McxAll LinearMcx IrProps Placed QdmcuModel
  Transpose LdmcsuModel AbcModel MultiTarget.
Import ListNotations.
Open Scope nat_scope.

Definition tgs (kk nt : nat) : list nat := map (fun m => tpos kk + m) (seq 0 nt).

(* ---------- one control: a fan of CX ---------- *)
Lemma cx_fan_sem ts : NoDup ts -> ~ In 0 ts -> forall psi b,
  srun (map (SCX 0) ts) psi b = psi (if get b 0 then flips ts b else b).
Proof.
  induction ts as [|t ts IH]; intros Hn H0 psi b. simpl. now destruct (get b 0).
  inversion Hn; subst. cbn [map]. rewrite srun_cons, IH by (auto; intro I; apply H0; now right).
  rewrite sapp_cx. unfold cxp. destruct (get b 0) eqn:E.
  - rewrite flips_get_out by (intro I; apply H0; now right). rewrite E.
    rewrite flips_cons. f_equal. now apply flips_out.
  - now rewrite E.
Qed.
(* two controls: fan ; Toffoli on the first target ; fan *)
Lemma ccx_fan_sem ts : NoDup ts -> ts <> [] -> ~ In 0 ts -> ~ In 1 ts -> forall psi b,
  srun (toffoli_mt SideBoth 0 1 ts) psi b = psi (if get b 0 && get b 1 then flips ts b else b).
Proof.
  intros Hn Hne H0 H1 psi b. unfold toffoli_mt. rewrite !srun_app.
  rewrite fan_l_rev, fan_r_pairs. unfold cxs. rewrite <- map_rev. fold (cxs (rev (fanr_p ts))). fold (cxs (fanr_p ts)).
  rewrite srun_cxs. cbn [srun fold_left]. rewrite sapp_smcx by (simpl; intros [E|[E|[]]]; destruct ts; try congruence; simpl in E;
    [apply H0 | apply H1]; rewrite E; now left).
  rewrite srun_cxs.
  assert (G : forall p, ~ In p ts -> get (rp (fanr_p ts) b) p = get b p).
  { intros p Hp. apply rp_get_other. intros pr Hpr. destruct (fanr_in _ _ Hpr) as [_ I]. intro E. apply Hp. now rewrite E. }
  cbn [forallb]. rewrite !G by auto. rewrite andb_true_r.
  destruct (fan_spread ts Hn b) as [Ha Hb].
  destruct ts as [|t0 r]; [congruence|]. cbn [nth].
  destruct (get b 0 && get b 1).
  - now rewrite (Hb t0 r eq_refl).
  - now rewrite Ha.
Qed.

Lemma tgs_ge kk nt q : In q (tgs kk nt) -> kk <= q.
Proof. unfold tgs, tpos. intros H. apply in_map_iff in H as [m [<- _]]. lia. Qed.
Lemma tgs_nodup kk nt : NoDup (tgs kk nt).
Proof.
  unfold tgs. apply FinFun.Injective_map_NoDup. intros a b E. lia. apply seq_NoDup.
Qed.

Lemma pattern_wrap kk p core ts : (forall q, In q ts -> kk <= q) ->
  (forall phi x, srun core phi x = phi (if forallb (fun c => get x c) (seq 0 kk) then flips ts x else x)) ->
  forall psi b, srun (xs p kk ++ core ++ xs p kk) psi b = psi (if pmatch p kk b then flips ts b else b).
Proof.
  intros Hts Hc psi b. rewrite !srun_app, xs_sem, Hc, xs_sem, pmatch_xflip.
  destruct (pmatch p kk b).
  - rewrite <- xflip_flips by auto. now rewrite xflip_invol.
  - now rewrite xflip_invol.
Qed.

Theorem vchain_multi_small kk nt p : kk = 1 \/ kk = 2 -> 1 <= nt -> forall psi b,
  srun (vchain kk nt p false false) psi b = psi (if pmatch p kk b then flips (tgs kk nt) b else b).
Proof.
  intros Hkk Hnt. destruct Hkk as [-> | ->]; unfold vchain.
  - apply pattern_wrap. apply tgs_ge. intros phi x.
    assert (E : map (fun m => smcx [0] (1 + m)) (seq 0 nt) = map (SCX 0) (tgs 1 nt)).
    { unfold tgs. rewrite map_map. apply map_ext. intros m. reflexivity. }
    rewrite E, cx_fan_sem. cbn [seq forallb]. now rewrite andb_true_r.
    apply tgs_nodup. intro I. apply tgs_ge in I. lia.
  - apply pattern_wrap. apply tgs_ge. intros phi x.
    assert (E : map (fun m => 2 + m) (seq 0 nt) = tgs 2 nt) by (unfold tgs; apply map_ext; intros m; reflexivity).
    rewrite E, ccx_fan_sem. cbn [seq forallb]. now rewrite andb_true_r.
    + apply tgs_nodup.
    + unfold tgs. destruct nt; [lia|]. discriminate.
    + intro I. apply tgs_ge in I. lia.
    + intro I. apply tgs_ge in I. lia.
Qed.

(* bounds and well-formedness of the small branches *)
Lemma vchain_small_lwf kk nt p : kk = 1 \/ kk = 2 -> 1 <= nt -> Forall (lwf (tpos kk + nt)) (vchain kk nt p false false).
Proof.
  intros Hkk Hnt. destruct Hkk as [-> | ->]; unfold vchain.
  - change (tpos 1) with 1. apply Forall_app; split; [apply xs_lwf; lia|]. apply Forall_app; split; [|apply xs_lwf; lia].
    apply Forall_forall. intros g Hg. apply in_map_iff in Hg as [m [<- Hm]]. apply in_seq in Hm. cbn [smcx lwf]. lia.
  - change (tpos 2) with 2. apply Forall_app; split; [apply xs_lwf; lia|]. apply Forall_app; split; [|apply xs_lwf; lia].
    set (ts := map (fun m => 2 + m) (seq 0 nt)).
    assert (NT : forall i, i < nt -> nth i ts 0 = 2 + i).
    { intros i Hi. unfold ts. rewrite (nth_indep _ 0 ((fun m => 2 + m) 0)) by (rewrite map_length, seq_length; lia).
      rewrite map_nth, seq_nth by lia. lia. }
    assert (LT : length ts = nt) by (unfold ts; now rewrite map_length, seq_length).
    unfold toffoli_mt. apply Forall_app; split; [|apply Forall_app; split].
    + unfold fan_l. apply Forall_forall. intros g Hg. apply in_map_iff in Hg as [i [<- Hi]]. apply in_seq in Hi.
      rewrite LT in *. rewrite !NT by lia. cbn [lwf]. lia.
    + constructor; [|constructor]. cbn [lwf]. rewrite NT by lia. split. lia. constructor; [lia|]. constructor; [lia|]. constructor.
    + unfold fan_r. apply Forall_forall. intros g Hg. apply in_map_iff in Hg as [i [<- Hi]]. apply in_seq in Hi.
      rewrite LT in *. rewrite !NT by lia. cbn [lwf]. lia.
Qed.
Lemma lwf_bndw w g : lwf w g -> bndw w g.
Proof.
  destruct g as [q|n q|c t|cs t]; cbn [lwf]; intros H p Hp; cbn [sq] in Hp.
  - destruct Hp as [<-|[]]. auto.
  - destruct Hp as [<-|[]]. auto.
  - destruct Hp as [<-|[<-|[]]]; lia.
  - destruct H as [Ht F]. destruct Hp as [<-|Hp]; auto. rewrite Forall_forall in F. now destruct (F p Hp).
Qed.

(* ---------- a canonical "all targets flip iff the controls match" statement, placed through any injective map ---------- *)
Lemma placed_from_canonical (f : nat -> nat) (w kk : nat) (c : list sgate) (p : list bool) (tg : list nat) :
  (forall a b, a < w -> b < w -> f a = f b -> a = b) -> Forall (bndw w) c -> kk <= w -> (forall t, In t tg -> t < w) ->
  (forall psi b, srun c psi b = psi (if pmatch p kk b then flips tg b else b)) ->
  forall Psi b, srun (map (relabelf f) c) Psi b
  = Psi (if forallb (fun i => Bool.eqb (get b (f i)) (nth i p true)) (seq 0 kk) then flips (map f tg) b else b).
Proof.
  intros Hf BD Hkw Htg Hc Psi b.
  rewrite (srun_placed f w Hf _ BD), Hc.
  assert (PM : pmatch p kk (pull f w b) = forallb (fun i => Bool.eqb (get b (f i)) (nth i p true)) (seq 0 kk)).
  { unfold pmatch. apply (forallb_pull f w (fun i v => Bool.eqb v (nth i p true))).
    intros i Hi. apply in_seq in Hi. lia. }
  rewrite PM. destruct (forallb _ (seq 0 kk)).
  - rewrite (push_flips f w Hf) by auto. now rewrite (push_pull f w Hf).
  - now rewrite (push_pull f w Hf).
Qed.

Lemma tpos_general j : tpos (j + 3) = 2 * j + 4.
Proof. unfold tpos. replace (j + 3 <=? 2) with false by (symmetry; apply Nat.leb_gt; lia). lia. Qed.
Lemma targets_tgs j nt : targets j nt = tgs (j + 3) nt.
Proof. unfold targets, tgs. rewrite tpos_general. apply map_ext. intros m. lia. Qed.

Section PlacedAll.
Variables kk nt : nat.
Hypothesis Hkk : 1 <= kk.
Hypothesis Hnt : 1 <= nt.
Variable l : list nat.
Hypothesis l_nodup : NoDup l.
Hypothesis l_len : length l = tpos kk + nt.
Variable p : list bool.
Let f := fun q => nth q l 0.
Let ts := map f (tgs kk nt).
Let P := fun b => forallb (fun i => Bool.eqb (get b (f i)) (nth i p true)) (seq 0 kk).

Lemma f_inj_all a b : a < tpos kk + nt -> b < tpos kk + nt -> f a = f b -> a = b.
Proof. intros Ha Hb E. apply (nodup_nth_inj l); auto; lia. Qed.
Lemma kk_tpos : kk <= tpos kk.
Proof. unfold tpos. lia. Qed.

Lemma all_lwf : Forall (lwf (tpos kk + nt)) (vchain kk nt p false false).
Proof.
  destruct (Nat.eq_dec nt 1) as [->|N1]. now apply vchain_lwf.
  destruct (le_lt_dec kk 2) as [Hs|Hb].
  - apply vchain_small_lwf; lia.
  - replace kk with ((kk - 3) + 3) by lia. rewrite tpos_general.
    apply vchain_multi_lwf. auto. right. lia.
Qed.

Lemma mcx_all_sem Psi : srun (map (relabel l) (vchain kk nt p false false)) Psi = MXs ts P Psi.
Proof.
  apply functional_extensionality; intros b. unfold MXs.
  destruct (Nat.eq_dec nt 1) as [E1|N1].
  - subst nt. rewrite vchain_exact_placed by auto. unfold ts, tgs, P. cbn [seq map flips]. rewrite Nat.add_0_r. reflexivity.
  - rewrite (map_ext _ _ (relabel_relabelf l)).
    apply (placed_from_canonical f (tpos kk + nt) kk _ p (tgs kk nt)).
    + exact f_inj_all.
    + pose proof all_lwf as F. rewrite Forall_forall in *. intros g Hg. apply lwf_bndw. auto.
    + pose proof kk_tpos. lia.
    + intros t Ht. unfold tgs in Ht. apply in_map_iff in Ht as [m [<- Hm]]. apply in_seq in Hm. lia.
    + destruct (le_lt_dec kk 2) as [Hs|Hb].
      * apply vchain_multi_small; lia.
      * intros psi x. replace kk with ((kk - 3) + 3) by lia. rewrite <- targets_tgs. apply vchain_multi_pattern. auto. right. lia.
Qed.
Lemma ts_nodup_all : NoDup ts.
Proof.
  unfold ts, tgs. rewrite map_map.
  assert (G : forall n0, n0 <= nt -> NoDup (map (fun m => f (tpos kk + m)) (seq 0 n0))).
  { induction n0 as [|n0 IH]; intros H. constructor. rewrite seq_S, map_app. apply nodup_app_intro.
    - apply IH. lia.
    - repeat constructor. intros [].
    - intros x I1 [<-|[]]. apply in_map_iff in I1 as [m [E Hm]]. apply in_seq in Hm.
      apply f_inj_all in E; lia. }
  apply G. lia.
Qed.
Lemma P_indep_all t : In t ts -> indep t P.
Proof.
  intros Ht b v. unfold P. apply LdmcsuModel.forallb_ext_in'. intros i Hi. apply in_seq in Hi.
  rewrite get_upd_other; auto. intro E. unfold ts, tgs in Ht. rewrite map_map in Ht.
  apply in_map_iff in Ht as [m [E2 Hm]]. apply in_seq in Hm. rewrite <- E2 in E.
  pose proof kk_tpos. apply f_inj_all in E; lia.
Qed.
Lemma mcx_all_swf : Forall swf (map (relabel l) (vchain kk nt p false false)).
Proof.
  apply Forall_forall. intros g I. apply in_map_iff in I as [g0 [<- I0]].
  apply (lwf_relabel l (tpos kk + nt)); auto.
  pose proof all_lwf as F. rewrite Forall_forall in F. auto.
Qed.
Lemma mcx_all_inv_sem Psi : srun (sinv_list (map (relabel l) (vchain kk nt p false false))) Psi = MXs ts P Psi.
Proof.
  apply functional_extensionality; intros b. unfold MXs.
  apply (sinv_involution _ (fun b => if P b then flips ts b else b)).
  - apply mcx_all_swf.
  - intros b0. destruct (P b0) eqn:E; [|now rewrite E].
    rewrite P_flips by (intros; now apply P_indep_all). rewrite E. apply flips_invol. apply ts_nodup_all.
  - intros phi b0. now rewrite mcx_all_sem.
Qed.
End PlacedAll.

(* ---------- every k >= 2 ---------- *)
Section MTG.
Variables k nt : nat.
Hypothesis Hnt : 1 <= nt.
Hypothesis Hk : 2 <= k.
Variable pat : list bool.

Lemma K12 : k1 k + k2 k = k /\ 1 <= k2 k /\ k2 k <= k1 k /\ k1 k <= k2 k + 1.
Proof. pose proof (k12 k Hk). lia. Qed.
Lemma TP1 : tpos (k1 k) = k1 k + (k1 k - 2).
Proof. unfold tpos. destruct (Nat.leb_spec (k1 k) 2); lia. Qed.
Lemma TP2 : tpos (k2 k) = k2 k + (k2 k - 2).
Proof. unfold tpos. destruct (Nat.leb_spec (k2 k) 2); lia. Qed.
Lemma L1m_len : length (L1m k nt) = tpos (k1 k) + nt.
Proof. unfold L1m. rewrite !app_length, !seq_length, TP1. lia. Qed.
Lemma L2m_len : length (L2m k nt) = tpos (k2 k) + nt.
Proof. unfold L2m. rewrite !app_length, !seq_length, TP2. lia. Qed.
Lemma L1m_nodup : NoDup (L1m k nt).
Proof.
  pose proof K12. unfold L1m. apply nodup_app_intro; [apply seq_NoDup | apply nodup_app_intro; try apply seq_NoDup |].
  - intros x I1 I2. apply in_seq in I1, I2. lia.
  - intros x I1 I2. apply in_seq in I1. apply in_app_or in I2 as [I2|I2]; apply in_seq in I2; lia.
Qed.
Lemma L2m_nodup : NoDup (L2m k nt).
Proof.
  pose proof K12. unfold L2m. apply nodup_app_intro; [apply seq_NoDup | apply nodup_app_intro; try apply seq_NoDup |].
  - intros x I1 I2. apply in_seq in I1, I2. lia.
  - intros x I1 I2. apply in_seq in I1. apply in_app_or in I2 as [I2|I2]; apply in_seq in I2; lia.
Qed.
Lemma L1m_ctrl i : i < k1 k -> nth i (L1m k nt) 0 = i.
Proof. intros H. unfold L1m. rewrite app_nth1 by (rewrite seq_length; lia). now rewrite seq_nth. Qed.
Lemma L2m_ctrl i : i < k2 k -> nth i (L2m k nt) 0 = k1 k + i.
Proof. intros H. unfold L2m. rewrite app_nth1 by (rewrite seq_length; lia). now rewrite seq_nth. Qed.
Lemma L1m_tgt m : m < nt -> nth (tpos (k1 k) + m) (L1m k nt) 0 = k + m.
Proof.
  intros H. pose proof K12. rewrite TP1. unfold L1m. rewrite app_nth2 by (rewrite seq_length; lia).
  rewrite app_nth2 by (rewrite !seq_length; lia). rewrite !seq_length, seq_nth by lia. lia.
Qed.
Lemma L2m_tgt m : m < nt -> nth (tpos (k2 k) + m) (L2m k nt) 0 = k + m.
Proof.
  intros H. pose proof K12. rewrite TP2. unfold L2m. rewrite app_nth2 by (rewrite seq_length; lia).
  rewrite app_nth2 by (rewrite !seq_length; lia). rewrite !seq_length, seq_nth by lia. lia.
Qed.

Lemma ts1 : map (fun q => nth q (L1m k nt) 0) (tgs (k1 k) nt) = seq k nt.
Proof.
  unfold tgs. rewrite map_map.
  assert (G : forall n0, n0 <= nt -> map (fun x => nth (tpos (k1 k) + x) (L1m k nt) 0) (seq 0 n0) = seq k n0).
  { induction n0 as [|n0 IH]; intros H. reflexivity. rewrite !seq_S, map_app, IH by lia. cbn [map]. f_equal. f_equal.
    cbn [Nat.add]. apply L1m_tgt. lia. }
  apply G. lia.
Qed.
Lemma ts2 : map (fun q => nth q (L2m k nt) 0) (tgs (k2 k) nt) = seq k nt.
Proof.
  unfold tgs. rewrite map_map.
  assert (G : forall n0, n0 <= nt -> map (fun x => nth (tpos (k2 k) + x) (L2m k nt) 0) (seq 0 n0) = seq k n0).
  { induction n0 as [|n0 IH]; intros H. reflexivity. rewrite !seq_S, map_app, IH by lia. cbn [map]. f_equal. f_equal.
    cbn [Nat.add]. apply L2m_tgt. lia. }
  apply G. lia.
Qed.
Lemma P1_spec b : forallb (fun i => Bool.eqb (get b (nth i (L1m k nt) 0)) (nth i (pat1 k pat) true)) (seq 0 (k1 k)) = Q1 k pat b.
Proof.
  unfold Q1. apply LdmcsuModel.forallb_ext_in'. intros i I. apply in_seq in I.
  rewrite L1m_ctrl by lia. unfold pat1. rewrite nth_map_seq' by lia. reflexivity.
Qed.
Lemma P2_spec b : forallb (fun i => Bool.eqb (get b (nth i (L2m k nt) 0)) (nth i (pat2 k pat) true)) (seq 0 (k2 k)) = Q2 k pat b.
Proof.
  unfold Q2. rewrite (forallb_seq_shift _ (k1 k) (k2 k)).
  apply LdmcsuModel.forallb_ext_in'. intros i I. apply in_seq in I.
  rewrite L2m_ctrl by lia. unfold pat2. rewrite nth_map_seq' by lia. reflexivity.
Qed.
Lemma K1pos : 1 <= k1 k. Proof. pose proof K12. lia. Qed.
Lemma K2pos : 1 <= k2 k. Proof. pose proof K12. lia. Qed.

Lemma mcx1m_sem psi : srun (mcx1m k nt pat) psi = MXs (seq k nt) (Q1 k pat) psi.
Proof.
  unfold mcx1m. rewrite (mcx_all_sem (k1 k) nt K1pos Hnt (L1m k nt) L1m_nodup L1m_len).
  rewrite ts1. unfold MXs. apply functional_extensionality; intros b. now rewrite P1_spec.
Qed.
Lemma mcx2m_sem psi : srun (mcx2m k nt pat) psi = MXs (seq k nt) (Q2 k pat) psi.
Proof.
  unfold mcx2m. rewrite (mcx_all_sem (k2 k) nt K2pos Hnt (L2m k nt) L2m_nodup L2m_len).
  rewrite ts2. unfold MXs. apply functional_extensionality; intros b. now rewrite P2_spec.
Qed.
Lemma mcx2m_inv_sem psi : srun (sinv_list (mcx2m k nt pat)) psi = MXs (seq k nt) (Q2 k pat) psi.
Proof.
  unfold mcx2m. rewrite (mcx_all_inv_sem (k2 k) nt K2pos Hnt (L2m k nt) L2m_nodup L2m_len).
  rewrite ts2. unfold MXs. apply functional_extensionality; intros b. now rewrite P2_spec.
Qed.

Variable M : nat -> mat2.
Lemma arun_ugs g L psi : arun M (ugs g L) psi = comp state (map (fun it => appf (fun _ => M (g (fst it))) (snd it)) L) psi.
Proof.
  revert psi. induction L as [|it L IH]; intros psi. reflexivity.
  unfold ugs in *. cbn [map arun fold_left aapp]. rewrite comp_cons. apply IH.
Qed.
Definition Hm (hs : list bool) (i : nat) : mat2 := if nth i hs false then M (3 * i + 2) else I2.
Lemma arun_hgs hs L psi : arun M (hgs hs L) psi = comp state (map (fun it => appf (fun _ => Hm hs (fst it)) (snd it)) L) psi.
Proof.
  revert psi. induction L as [|it L IH]; intros psi. reflexivity.
  unfold hgs in *. cbn [flat_map map]. rewrite arun_app, comp_cons, IH. f_equal.
  unfold Hm. destruct (nth (fst it) hs false). reflexivity.
  cbn [arun fold_left]. apply functional_extensionality; intros b. unfold appf. now rewrite app1_I2.
Qed.
Lemma snd_Lk : map snd (Lk k nt) = seq k nt.
Proof.
  unfold Lk. rewrite map_map. cbn [snd].
  assert (G : forall a n0, map (fun x => k + x) (seq a n0) = seq (k + a) n0).
  { intros a n0. revert a. induction n0 as [|n0 IH]; intros a. reflexivity. cbn [seq map]. rewrite IH. f_equal. f_equal. lia. }
  rewrite G. f_equal. lia.
Qed.
Lemma MXs_Lk P psi : (forall t, In t (seq k nt) -> indep t P) ->
  MXs (seq k nt) P psi = comp state (map (fun it => MX (snd it) P) (Lk k nt)) psi.
Proof.
  intros H. rewrite <- MXs_comp by (auto; apply seq_NoDup). rewrite <- snd_Lk, map_map. reflexivity.
Qed.
Lemma Q1_tgt t : In t (seq k nt) -> indep t (Q1 k pat).
Proof.
  intros Ht b v. apply in_seq in Ht. unfold Q1. apply LdmcsuModel.forallb_ext_in'. intros i I. apply in_seq in I.
  pose proof K12. now rewrite get_upd_other by lia.
Qed.
Lemma Q2_tgt t : In t (seq k nt) -> indep t (Q2 k pat).
Proof.
  intros Ht b v. apply in_seq in Ht. unfold Q2. apply LdmcsuModel.forallb_ext_in'. intros i I. apply in_seq in I.
  pose proof K12. now rewrite get_upd_other by lia.
Qed.
Lemma in_Lk it : In it (Lk k nt) -> fst it < nt /\ snd it = k + fst it.
Proof. unfold Lk. intros H. apply in_map_iff in H as [i [<- Hi]]. apply in_seq in Hi. simpl. lia. Qed.

Variables U U' : nat -> mat2.
Variable hs : list bool.
Hypothesis AdA : forall i, i < nt -> mmul (M (3 * i + 1)) (M (3 * i)) = I2.
Hypothesis AAd : forall i, i < nt -> mmul (M (3 * i)) (M (3 * i + 1)) = I2.
Hypothesis fourth : forall i, i < nt ->
  mmul (mmul (mmul (M (3 * i + 1)) Xm) (mmul (M (3 * i)) Xm)) (mmul (mmul (M (3 * i + 1)) Xm) (mmul (M (3 * i)) Xm)) = U' i.
Hypothesis HH : forall i, i < nt -> mmul (Hm hs i) (Hm hs i) = I2.
Hypothesis HUH : forall i, i < nt -> mmul (Hm hs i) (mmul (U' i) (Hm hs i)) = U i.

Definition hop (j : nat) (it : nat * nat) : state -> state :=
  match j with
  | 1 => appf (fun b => if Q1 k pat b && Q2 k pat b then U' (fst it) else I2) (snd it)
  | _ => appf (fun _ => Hm hs (fst it)) (snd it)
  end.

Theorem mtm_sem_all psi :
  arun M (mtm k nt pat hs) psi
  = comp state (map (fun it => appf (fun b => if pmatch pat k b then U (fst it) else I2) (snd it)) (Lk k nt)) psi.
Proof.
  unfold mtm. rewrite !arun_app, !arun_AS, !arun_ugs, !arun_hgs.
  rewrite !mcx1m_sem, !mcx2m_sem, mcx2m_inv_sem.
  rewrite !(MXs_Lk (Q1 k pat)) by apply Q1_tgt. rewrite !(MXs_Lk (Q2 k pat)) by apply Q2_tgt.
  (* the eight middle rows *)
  set (A := fun i => M (3 * i)). set (Ad := fun i => M (3 * i + 1)).
  assert (ND : NoDup (map snd (Lk k nt))) by (rewrite snd_Lk; apply seq_NoDup).
  pose proof (grid_transpose (Q1 k pat) (Q2 k pat) A Ad U' (Lk k nt) ND
    ltac:(intros it Hit; apply Q1_tgt; rewrite <- snd_Lk; now apply in_map)
    ltac:(intros it Hit; apply Q2_tgt; rewrite <- snd_Lk; now apply in_map)
    ltac:(intros it Hit; apply AdA; apply in_Lk in Hit; lia)
    ltac:(intros it Hit; apply AAd; apply in_Lk in Hit; lia)
    ltac:(intros it Hit; apply fourth; apply in_Lk in Hit; lia)) as G.
  unfold rows in G. cbn [seq flat_map] in G. rewrite app_nil_r in G.
  set (H0 := comp state (map (fun it => appf (fun _ => Hm hs (fst it)) (snd it)) (Lk k nt)) psi).
  specialize (G H0). rewrite !comp_app in G.
  unfold gop in G at 1 2 3 4 5 6 7 8. cbn [fst snd] in G. unfold A, Ad in G.
  rewrite G. clear G.
  (* Hadamard conjugation target by target *)
  unfold H0. clear H0.
  assert (NDL : NoDup (Lk k nt)).
  { unfold Lk. apply FinFun.Injective_map_NoDup. intros a b E. now inversion E. apply seq_NoDup. }
  assert (T := transpose state (nat * nat) hop (Lk k nt)).
  assert (HC : forall j j' it it' s, In it (Lk k nt) -> In it' (Lk k nt) -> it <> it' -> hop j it (hop j' it' s) = hop j' it' (hop j it s)).
  { intros j j' it it' s Hi Hi' N. apply in_Lk in Hi as [Hi1 Hi2]. apply in_Lk in Hi' as [Hi1' Hi2'].
    assert (snd it <> snd it') by (intro E; apply N; destruct it, it'; simpl in *; f_equal; lia).
    assert (I1 : forall t, t = snd it \/ t = snd it' -> indep t (fun b => if Q1 k pat b && Q2 k pat b then U' (fst it) else I2)).
    { intros t Ht b v. rewrite (Q1_tgt t), (Q2_tgt t); auto; apply in_seq; lia. }
    assert (I1' : forall t, t = snd it \/ t = snd it' -> indep t (fun b => if Q1 k pat b && Q2 k pat b then U' (fst it') else I2)).
    { intros t Ht b v. rewrite (Q1_tgt t), (Q2_tgt t); auto; apply in_seq; lia. }
    unfold hop. destruct j as [|[|j]], j' as [|[|j']]; apply appf_comm; auto; try (intros b v; reflexivity). }
  specialize (T HC [0; 1; 2] NDL (fun _ H => H) (Lk k nt) (incl_refl _) NDL psi).
  cbn [flat_map] in T. rewrite app_nil_r, !comp_app in T. unfold hop in T at 1 2 3. cbn [fst snd] in T.
  rewrite T. clear T.
  assert (G : forall l, incl l (Lk k nt) -> forall s,
             comp state (flat_map (fun it => map (fun j => hop j it) [0; 1; 2]) l) s
             = comp state (map (fun it => appf (fun b => if pmatch pat k b then U (fst it) else I2) (snd it)) l) s).
  { induction l as [|it l IH]; intros Hi s. reflexivity.
    cbn [flat_map map]. rewrite comp_app. rewrite IH by (intros x Hx; apply Hi; now right).
    rewrite (comp_cons state (appf (fun b => if pmatch pat k b then U (fst it) else I2) (snd it))). f_equal.
    assert (Hit : In it (Lk k nt)) by (apply Hi; now left). apply in_Lk in Hit as [Hi1 Hi2].
    cbn [comp fold_left hop].
    rewrite (appf_appf (fun b => if Q1 k pat b && Q2 k pat b then U' (fst it) else I2) (fun _ => Hm hs (fst it)))
      by (intros b v; reflexivity).
    rewrite appf_appf by (intros b v; cbn beta; rewrite (Q1_tgt (snd it)), (Q2_tgt (snd it)); auto; apply in_seq; lia).
    f_equal. apply functional_extensionality; intros b.
    rewrite <- (Q12 k Hk pat b).
    destruct (Q1 k pat b && Q2 k pat b).
    - now apply HUH.
    - rewrite mmul_I2_l. now apply HH. }
  apply G. apply incl_refl.
Qed.
End MTG.
