From Coq Require Import ZArith Lia.
Open Scope Z_scope.
(* skeleton count of build_unitary (QSD, A.1 only), n = k + 2 qubits *)
Fixpoint cx_build (k : nat) : Z :=
  match k with
  | O => 3
  | S k' => let n := Z.of_nat (S k') + 2 in
            (* left mux + ucry(CZ, last omitted) + right mux;  mux = 2 builds + UCRZ *)
            2 * (2 * cx_build k' + 2 ^ (n - 1)) + (2 ^ (n - 1) - 1)
  end.
Definition blocks (k : nat) : Z := 4 ^ Z.of_nat k.
Definition cx_build_a2 (k : nat) : Z := cx_build k - (blocks k - 1).

Lemma cx_build_closed k : let n := Z.of_nat k + 2 in 48 * cx_build k = 26 * 4 ^ n - 72 * 2 ^ n + 16.
Proof.
  induction k as [|k IH]; intros n.
  - reflexivity.
  - subst n. cbn [cx_build]. cbv zeta.
    replace (Z.of_nat (S k) + 2 - 1) with (Z.of_nat k + 2) by lia.
    replace (Z.of_nat (S k) + 2) with (Z.succ (Z.of_nat k + 2)) by lia.
    rewrite !Z.pow_succ_r by lia. cbv zeta in IH. lia.
Qed.
Lemma cx_build_a2_closed k : let n := Z.of_nat k + 2 in 48 * cx_build_a2 k = 23 * 4 ^ n - 72 * 2 ^ n + 64.
Proof.
  intros n. unfold cx_build_a2, blocks. pose proof (cx_build_closed k) as H. cbv zeta in H. subst n.
  replace (4 ^ (Z.of_nat k + 2)) with (16 * 4 ^ Z.of_nat k) by (rewrite Z.pow_add_r by lia; lia).
  replace (4 ^ (Z.of_nat k + 2)) with (16 * 4 ^ Z.of_nat k) in H by (rewrite Z.pow_add_r by lia; lia).
  lia.
Qed.
Eval vm_compute in (cx_build 1, cx_build_a2 1, cx_build_a2 2, cx_build_a2 3).
