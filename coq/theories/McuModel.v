(* C04, MCU (the approximate multi-controlled gate): the sweeps of Ldmcu without the gate from control 0 to the target.
   Exact operator: on the target, W^(2^(T-1) [all controls 1] - [control 0]) with W the deepest root - the ideal gate followed by
   W^-1 whenever control 0 is set; the distance to the ideal gate is therefore that of W^-1 to the identity. *)
From Coq Require Import Reals Lra List Bool Arith Lia NArith ZArith FunctionalExtensionality Permutation Sorted.
From Coquelicot Require Import Complex.
From QV Require Import Sem Mat2 Toff2 Chain Vchain Cvoqram McxModel McxMulti LinearMcx Resort LdmcuCore LdmcuModel LdmcuInst.
Import ListNotations.
Open Scope nat_scope.

(* pairs with a start per target *)
Definition gpairsf (n : nat) (st : nat -> nat) (z : nat -> Z) : list lg := flat_map (fun t => grp (st t) z t) (seq 0 n).
Definition st_mcu (T t : nat) : nat := if t =? T then 1 else 0.
Definition sweep_desc_mcu (T : nat) : list lg := isort lg (kdesc (T + 1)) (gpairsf (T + 1) (st_mcu T) wt).
Definition mcu_core (T : nat) : list lg :=
  sweep_desc_mcu T ++ sweep_asc (T + 1) nwt ++ sweep_desc T wt' ++ sweep_asc T nwt.

Lemma in_gpairsf n st z g : In g (gpairsf n st z) -> st (gt g) <= gc g /\ gc g < gt g /\ gt g < n.
Proof.
  unfold gpairsf, grp. intros H. apply in_flat_map in H as [t [Ht Hg]]. apply in_seq in Ht.
  apply in_map_iff in Hg as [c [<- Hc]]. apply in_seq in Hc. simpl. lia.
Qed.

Section Sem.
Variable E : nat -> Z -> mat2.
Hypothesis E_add : forall t a b, E t (a + b)%Z = mmul (E t a) (E t b).
Hypothesis E_0 : forall t, E t 0%Z = I2.

Lemma sweep_descf_sem n st z s : lrun E (isort lg (kdesc n) (gpairsf n st z)) s
  = lrun E (flat_map (fun t => grp (st t) z t) (rev (seq 0 n))) s.
Proof.
  rewrite !(lrun_grun E).
  apply (resort lg state (lapp E) comm (comm_ok E E_add E_0) (kdesc n) (fun g => n - gt g)).
  - eapply perm_trans. apply isort_perm. unfold gpairsf.
    apply Permutation_flat_map. apply Permutation_rev.
  - apply isort_sorted.
  - apply (sorted_flat_map (fun t => grp (st t) z t) (fun a => n - a) (fun g => n - gt g)).
    + intros a x _ Hx. unfold grp in Hx. apply in_map_iff in Hx as [c [<- _]]. reflexivity.
    + apply rev_seq_sorted.
  - intros g h Hg Hh NC K1.
    apply (Permutation_in _ (isort_perm lg (kdesc n) _)) in Hg, Hh.
    apply in_gpairsf in Hg, Hh. unfold kdesc in K1.
    assert (D : gt g = gc h \/ gt h = gc g).
    { destruct (Nat.eq_dec (gt g) (gc h)); auto. destruct (Nat.eq_dec (gt h) (gc g)); auto.
      exfalso. apply NC. unfold comm, wfg. lia. }
    lia.
  - intros; apply comm_dec.
Qed.

Variable T : nat.
Hypothesis HT : 1 <= T.
Hypothesis E_full : forall j, 1 <= j -> j < T -> E j (2 ^ Z.of_nat (j - 1))%Z = NX.

Theorem mcu_core_sem psi :
  lrun E (mcu_core T) psi = WG E T (fun b => (bz (ones T b) * 2 ^ Z.of_nat (T - 1) - bz (get b 0))%Z) psi.
Proof.
  rewrite <- (grouped_mcu_sem E E_add E_0 T E_full psi HT).
  unfold mcu_core, sweep_desc_mcu. rewrite !lrun_app.
  rewrite sweep_descf_sem, (sweep_asc_sem E E_add E_0), (sweep_desc_sem E E_add E_0), (sweep_asc_sem E E_add E_0).
  rewrite <- !lrun_app. f_equal.
  rewrite Sl_flat, Sl'_flat. replace (T + 1) with (S T) by lia.
  destruct T as [|m]. lia. replace (S m - 1) with m by lia.
  rewrite (desc_groups (fun t => grp (st_mcu (S m) t) wt t)), (asc_groups (grp 1 nwt)), (desc_groups (grp 0 wt')), (asc_groups (grp 1 nwt)) by reflexivity.
  (* the first group is the target's, without control 0 *)
  rewrite (seq_S m 1), rev_app_distr. cbn [rev app flat_map]. cbn [Nat.add].
  assert (G1 : grp (st_mcu (S m) (S m)) wt (S m) = A0less (S m)).
  { unfold st_mcu. rewrite Nat.eqb_refl. unfold grp, A0less. reflexivity. }
  assert (G2 : flat_map (fun t => grp (st_mcu (S m) t) wt t) (rev (seq 1 m)) = flat_map A (rev (seq 1 m))).
  { apply flat_map_ext_in || idtac.
    assert (X : forall l, (forall t, In t l -> t <= m) -> flat_map (fun t => grp (st_mcu (S m) t) wt t) l = flat_map A l).
    { induction l as [|t l IHl]; intros Hl. reflexivity. cbn [flat_map]. rewrite IHl by (intros; apply Hl; now right).
      f_equal. unfold st_mcu. rewrite (proj2 (Nat.eqb_neq t (S m))) by (specialize (Hl t (or_introl eq_refl)); lia). apply grp_A. }
    apply X. intros t Ht. apply in_rev in Ht. apply in_seq in Ht. lia. }
  rewrite G1, G2.
  rewrite (flat_map_ext (grp 0 wt') A' grp_A'). rewrite !(flat_map_ext (grp 1 nwt) B grp_B).
  rewrite flat_map_app. cbn [flat_map]. rewrite app_nil_r. rewrite <- !app_assoc. reflexivity.
Qed.
End Sem.

(* ---------- the gate with its control pattern (no extra controls: the number of controls equals the base count) ---------- *)
Definition mcu0 (T : nat) (pat : list bool) : list fgate :=
  map inl (xs pat T) ++ map inr (mcu_core T) ++ map inl (xs pat T).

Theorem mcu0_sem (T : nat) (W Wi : mat2) (pat : list bool) (psi : state) :
  1 <= T -> mmul W Wi = I2 -> mmul Wi W = I2 ->
  frun (ELd T W Wi) (mcu0 T pat) psi
  = appf (fun b => mmul (if pmatch pat T b then npow W (2 ^ (T - 1)) else I2)
                        (if Bool.eqb (get b 0) (nth 0 pat true) then Wi else I2)) T psi.
Proof.
  intros HT H1 H2. unfold mcu0. rewrite !frun_app, !frun_inl, frun_inr.
  rewrite (mcu_core_sem (ELd T W Wi)) with (T := T); auto.
  - apply functional_extensionality; intros b. rewrite xs_sem. unfold WG, appf, app1.
    rewrite (xflip_get_ge pat T b T) by lia.
    assert (P : forall v, srun (xs pat T) psi (upd (xflip pat T b) T v) = psi (upd b T v)).
    { intros v. rewrite xs_sem, xflip_upd by lia. now rewrite xflip_invol. }
    rewrite !P. unfold ones. rewrite pmatch_xflip. rewrite (xflip_get_lt pat T b 0) by lia.
    assert (X0 : xorb (get b 0) (xbit pat 0) = Bool.eqb (get b 0) (nth 0 pat true)).
    { unfold xbit. destruct (get b 0), (nth 0 pat true); reflexivity. }
    rewrite X0. unfold ELd. rewrite Nat.eqb_refl.
    assert (Z : Zpow W Wi (bz (pmatch pat T b) * 2 ^ Z.of_nat (T - 1) - bz (Bool.eqb (get b 0) (nth 0 pat true)))
              = mmul (if pmatch pat T b then npow W (2 ^ (T - 1)) else I2)
                     (if Bool.eqb (get b 0) (nth 0 pat true) then Wi else I2)).
    { replace (bz (pmatch pat T b) * 2 ^ Z.of_nat (T - 1) - bz (Bool.eqb (get b 0) (nth 0 pat true)))%Z
        with ((bz (pmatch pat T b) * 2 ^ Z.of_nat (T - 1)) + (- bz (Bool.eqb (get b 0) (nth 0 pat true))))%Z by ring.
      rewrite Zpow_add by auto. f_equal.
      - destruct (pmatch pat T b); unfold bz.
        + rewrite Z.mul_1_l. replace (2 ^ Z.of_nat (T - 1))%Z with (Z.of_nat (2 ^ (T - 1))) by (rewrite Nat2Z.inj_pow; reflexivity).
          now apply Zpow_nat.
        + rewrite Z.mul_0_l. now apply Zpow_0.
      - destruct (Bool.eqb (get b 0) (nth 0 pat true)); unfold bz.
        + unfold Zpow, mix. simpl. apply mat2_eq; simpl; ring.
        + now apply Zpow_0. }
    rewrite Z. reflexivity.
  - intros t a b. unfold ELd. destruct (t =? T). now apply Zpow_add. apply EX_add.
  - intros t. unfold ELd. destruct (t =? T). apply Zpow_0. apply EX_0.
  - intros j Hj1 Hj2. unfold ELd. rewrite (proj2 (Nat.eqb_neq j T)) by lia. apply EX_full.
Qed.

(* the size of the deviation: |e^(i phi) - 1|^2 = 2 - 2 cos phi is at most 2 - 2 cos delta = eps^2 when |phi| <= delta <= pi *)
Open Scope R_scope.
Lemma root_deviation (phi delta eps : R) : Rabs phi <= delta -> delta <= PI -> cos delta = 1 - eps * eps / 2 ->
  (cos phi - 1) * (cos phi - 1) + sin phi * sin phi <= eps * eps.
Proof.
  intros H1 H2 H3.
  assert (E : (cos phi - 1) * (cos phi - 1) + sin phi * sin phi = 2 - 2 * cos phi).
  { pose proof (sin2_cos2 phi) as S. unfold Rsqr in S. nra. }
  rewrite E.
  assert (C : cos delta <= cos phi).
  { rewrite <- (cos_Rabs phi) || idtac.
    assert (Hc : cos phi = cos (Rabs phi)).
    { unfold Rabs. destruct (Rcase_abs phi). now rewrite cos_neg. reflexivity. }
    rewrite Hc. apply cos_decr_1; try lra. apply Rabs_pos. pose proof (Rabs_pos phi). lra. }
  nra.
Qed.
