From Coq Require Import Reals Lra List Bool Arith Lia NArith FunctionalExtensionality.
From Coquelicot Require Import Complex.
From QV Require Import Sem Mat2 Toff2 Chain.
Import ListNotations.
Open Scope R_scope.

Definition cis (x : R) : C := (cos x, sin x).
Lemma cis_add x y : (cis x * cis y = cis (x + y))%C.
Proof. unfold cis. rewrite cos_plus, sin_plus. apply Ceq; simpl; ring. Qed.
Lemma cis_0 : cis 0 = 1. Proof. unfold cis. rewrite cos_0, sin_0. reflexivity. Qed.

Definition Pm (l : R) : mat2 := M2 1 0 0 (cis l).
Definition Hm : mat2 := M2 (/ sqrt 2) (/ sqrt 2) (/ sqrt 2) (- / sqrt 2)%R.

(* diagonal operators *)
Definition dg (d : asg -> C) (psi : state) : state := fun b => (d b * psi b)%C.
Lemma app1_P l q psi : app1 (Pm l) q psi = dg (fun b => if get b q then cis l else 1) psi.
Proof.
  apply functional_extensionality; intros b. unfold app1, Pm, dg.
  generalize (upd_get b q). destruct (get b q); intros E; simpl; rewrite E; ring.
Qed.
(* controlled phase from c to q *)
Definition cp (l : R) (c q : nat) (psi : state) : state :=
  fun b => if get b c then app1 (Pm l) q psi b else psi b.
Lemma cp_dg l c q psi : cp l c q psi = dg (fun b => if get b c && get b q then cis l else 1) psi.
Proof.
  apply functional_extensionality; intros b. unfold cp. rewrite app1_P. unfold dg.
  destruct (get b c), (get b q); simpl; ring.
Qed.
Lemma dg_dg d e psi : dg d (dg e psi) = dg (fun b => (d b * e b)%C) psi.
Proof. apply functional_extensionality; intros b. unfold dg. ring. Qed.

Section PQM.
Variable mq : nat -> nat.     (* memory qubits *)
Variable xq : nat.            (* auxiliary qubit *)
Variable p : nat -> bool.     (* classical pattern *)
Hypothesis mq_inj : forall i j, mq i = mq j -> i = j.
Hypothesis mq_x : forall i, mq i <> xq.

(* layers over i = 0..n-1 *)
Fixpoint xlayer (n : nat) (psi : state) : state :=
  match n with O => psi | S n' => (if p n' then app1 Xm (mq n') else (fun s => s)) (xlayer n' psi) end.
Fixpoint player (l : R) (n : nat) (psi : state) : state :=
  match n with O => psi | S n' => app1 (Pm l) (mq n') (player l n' psi) end.
Fixpoint cplayer (l : R) (n : nat) (psi : state) : state :=
  match n with O => psi | S n' => cp l xq (mq n') (cplayer l n' psi) end.

Fixpoint flipall (n : nat) (b : asg) : asg :=
  match n with O => b | S n' => flipall n' (if p n' then flipq (mq n') b else b) end.
Fixpoint ones (n : nat) (b : asg) : nat :=
  match n with O => O | S n' => (ones n' b + if get b (mq n') then 1 else 0)%nat end.
(* Hamming distance between the memory bits of b and the pattern *)
Fixpoint dist (n : nat) (b : asg) : nat :=
  match n with O => O | S n' => (dist n' b + if xorb (get b (mq n')) (p n') then 1 else 0)%nat end.

Lemma xlayer_sem n : forall psi b, xlayer n psi b = psi (flipall n b).
Proof.
  induction n; intros psi b; simpl; auto.
  destruct (p n); auto. now rewrite app1_X, IHn.
Qed.

Lemma flipq_get_other q b x : x <> q -> get (flipq q b) x = get b x.
Proof. intros; unfold flipq; now apply get_upd_other. Qed.
Lemma flipq_get_same q b : get (flipq q b) q = negb (get b q).
Proof. unfold flipq; apply get_upd_same. Qed.

Lemma flipall_get_m n : forall b i, get (flipall n b) (mq i) = xorb (get b (mq i)) (p i && (i <? n)).
Proof.
  induction n; intros b i; simpl.
  - now rewrite andb_false_r, xorb_false_r.
  - rewrite IHn. destruct (Nat.eq_dec i n) as [->|Hne].
    + assert (E1 : (n <? n) = false) by apply Nat.ltb_irrefl.
      assert (E2 : (n <? S n) = true) by (apply Nat.ltb_lt; lia).
      rewrite E1, E2, andb_false_r, andb_true_r, xorb_false_r.
      destruct (p n).
      * rewrite flipq_get_same. now destruct (get b (mq n)).
      * now rewrite xorb_false_r.
    + assert (E : (i <? S n) = (i <? n)).
      { destruct (Nat.ltb_spec i n), (Nat.ltb_spec i (S n)); auto; lia. }
      rewrite E. destruct (p n); auto. rewrite flipq_get_other; auto.
Qed.
Lemma flipall_get_o n : forall b q, (forall i, (i < n)%nat -> q <> mq i) -> get (flipall n b) q = get b q.
Proof.
  induction n; intros b q H; simpl; auto. rewrite IHn by (intros; apply H; lia).
  destruct (p n); auto. apply flipq_get_other. apply H; lia.
Qed.
Lemma mq_dec n q : {i | (i < n)%nat /\ q = mq i} + {forall i, (i < n)%nat -> q <> mq i}.
Proof.
  induction n.
  - right; intros; lia.
  - destruct IHn as [[i [Hi E]]|H]; [left; exists i; split; auto|].
    destruct (Nat.eq_dec q (mq n)) as [E|E]; [left; exists n; auto|right].
    intros i Hi. destruct (Nat.eq_dec i n); subst; auto. apply H; lia.
Qed.
Lemma flipall_invol n b : flipall n (flipall n b) = b.
Proof.
  apply asg_ext; intros q. destruct (mq_dec n q) as [[i [Hi ->]]|H].
  - rewrite !flipall_get_m. now destruct (get b (mq i)), (p i && (i <? n)).
  - now rewrite !flipall_get_o.
Qed.
Lemma dist_upd_x n b v : dist n (upd b xq v) = dist n b.
Proof. induction n; simpl; auto. rewrite IHn, get_upd_other; auto. Qed.

Lemma ones_flipall n : forall m b, (n <= m)%nat -> ones n (flipall m b) = dist n b.
Proof.
  induction n; intros m b H; simpl; auto.
  rewrite IHn by lia. rewrite flipall_get_m.
  replace (n <? m) with true by (symmetry; apply Nat.ltb_lt; lia). now rewrite andb_true_r.
Qed.

(* the diagonal produced by the two phase layers *)
Lemma player_sem l n psi : player l n psi = dg (fun b => cis (l * INR (ones n b))) psi.
Proof.
  induction n; simpl.
  - apply functional_extensionality; intros b. unfold dg. rewrite Rmult_0_r, cis_0. ring.
  - rewrite IHn, app1_P, dg_dg. f_equal. apply functional_extensionality; intros b.
    rewrite plus_INR. destruct (get b (mq n)); simpl.
    + rewrite cis_add. f_equal. ring.
    + rewrite Rplus_0_r. ring.
Qed.
Lemma cplayer_sem l n psi :
  cplayer l n psi = dg (fun b => if get b xq then cis (l * INR (ones n b)) else 1) psi.
Proof.
  induction n; simpl.
  - apply functional_extensionality; intros b. unfold dg. rewrite Rmult_0_r, cis_0.
    destruct (get b xq); ring.
  - rewrite IHn, cp_dg, dg_dg. f_equal. apply functional_extensionality; intros b.
    rewrite plus_INR. destruct (get b xq), (get b (mq n)); simpl.
    + rewrite cis_add. f_equal. ring.
    + rewrite Rplus_0_r. ring.
    + ring.
    + ring.
Qed.

Definition pqm (n : nat) (psi : state) : state :=
  let a := PI / (2 * INR n) in
  app1 Hm xq (xlayer n (cplayer (2 * a) n (player (- a) n (xlayer n (app1 Hm xq psi))))).


Lemma half_sqrt2 : (/ sqrt 2 * / sqrt 2 = / 2)%R.
Proof. rewrite <- Rinv_mult. now rewrite sqrt_sqrt by lra. Qed.

Theorem pqm_amp n (psi : state) b :
  (forall b', psi (upd b' xq true) = 0) ->
  let a := PI / (2 * INR n) in
  let d := INR (dist n b) in
  pqm n psi (upd b xq false) = (RtoC (cos (a * d)) * psi (upd b xq false))%C /\
  pqm n psi (upd b xq true) = ((0, - sin (a * d))%R * psi (upd b xq false))%C.
Proof.
  intros Hpsi a d. unfold pqm. fold a.
  assert (inner : forall v,
    xlayer n (cplayer (2 * a) n (player (- a) n (xlayer n (app1 Hm xq psi)))) (upd b xq v) =
    ((if v then cis (2 * a * d) else 1) * cis (- a * d) * (mget Hm v false * psi (upd b xq false)))%C).
  { intros v. rewrite xlayer_sem, cplayer_sem, player_sem. unfold dg. rewrite xlayer_sem, flipall_invol.
    rewrite ones_flipall by lia. rewrite dist_upd_x. fold d.
    rewrite flipall_get_o by (intros i _ E; symmetry in E; revert E; apply mq_x).
    rewrite get_upd_same.
    unfold app1. rewrite get_upd_same, !upd_upd, Hpsi. ring. }
  split; unfold app1 at 1; rewrite get_upd_same, !upd_upd, !inner; unfold mget, Hm; simpl.
  - rewrite cis_add. replace (2 * a * d + - a * d) with (a * d) by ring.
    replace (- a * d) with (- (a * d)) by ring. set (x := a * d). set (z := psi (upd b xq false)).
    transitivity (RtoC (/ sqrt 2 * / sqrt 2) * ((cis (- x) + cis x) * z))%C.
    { rewrite RtoC_mult. ring. }
    rewrite half_sqrt2. rewrite Cmult_assoc. f_equal.
    unfold cis. rewrite cos_neg, sin_neg. apply Ceq; simpl; field.
  - rewrite cis_add. replace (2 * a * d + - a * d) with (a * d) by ring.
    replace (- a * d) with (- (a * d)) by ring. set (x := a * d). set (z := psi (upd b xq false)).
    transitivity (RtoC (/ sqrt 2 * / sqrt 2) * ((cis (- x) - cis x) * z))%C.
    { rewrite RtoC_mult, RtoC_opp. ring. }
    rewrite half_sqrt2. rewrite Cmult_assoc. f_equal.
    unfold cis. rewrite cos_neg, sin_neg. apply Ceq; simpl; field.
Qed.
End PQM.
Print Assumptions pqm_amp.
