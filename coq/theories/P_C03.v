(* Property C03 (part 1): index arithmetic of the column-by-column scheme, translated from the source. *)
From Coq Require Import ZArith Bool.
From QV Require Import GenLib Gen_isometry_counts IsoGen.
Open Scope Z_scope.

Theorem C03_a_spec : forall k i, 0 <= i -> _a k i = Z.shiftr k i.
Proof. exact a_spec. Qed.
Print Assumptions C03_a_spec.
Theorem C03_b_spec : forall k i, 0 <= i -> _b k i = k mod 2 ^ i.
Proof. exact b_spec. Qed.
Print Assumptions C03_b_spec.
Theorem C03_k_s_spec : forall k i, 0 <= i -> _k_s k i = Z.b2z (Z.testbit k i).
Proof. exact k_s_spec. Qed.
Print Assumptions C03_k_s_spec.
Example ex_abk : _a 13 2 = 3 /\ _b 13 2 = 1 /\ _k_s 13 2 = 1 /\ _k_s 13 1 = 0.
Proof. vm_compute. auto. Qed.
