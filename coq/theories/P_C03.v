(* Property C03 (part 1): index arithmetic of the column-by-column scheme, translated from the source. *)
From Coq Require Import ZArith Bool List Reals.
From Coquelicot Require Import Complex.
From QV Require Import GenLib Gen_isometry_counts IsoGen KnillPhase.
Import ListNotations.
Open Scope Z_scope.

Theorem C03_a_spec : forall k i, 0 <= i -> _a k i = Z.shiftr k i.
Proof. exact a_spec. Qed.
Print Assumptions C03_a_spec.
Theorem C03_b_spec : forall k i, 0 <= i -> _b k i = k mod 2 ^ i.
Proof. exact b_spec. Qed.
Print Assumptions C03_b_spec.
Theorem C03_k_s_spec : forall k i, 0 <= i -> _k_s k i = Z.b2z (Z.testbit k i).
Proof. exact k_s_spec. Qed.
Print Assumptions C03_k_s_spec.
Example ex_abk : _a 13 2 = 3 /\ _b 13 2 = 1 /\ _k_s 13 2 = 1 /\ _k_s 13 1 = 0.
Proof. vm_compute. auto. Qed.

(* Knill scheme, the phase step: x layer, multi-controlled phase on the last qubit, x layer = phase on |0..0> only *)
Theorem C03_knill_phase : forall (cs : list nat) (t : nat) (theta : R) (psi : Sem.state), NoDup (cs ++ [t]) ->
  krun (map KX (cs ++ [t]) ++ [KMCP theta cs t] ++ map KX (cs ++ [t])) psi
  = fun b => if allzero (cs ++ [t]) b then (cisK theta * psi b)%C else psi b.
Proof. exact knill_phase. Qed.
Print Assumptions C03_knill_phase.
