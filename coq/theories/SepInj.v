(* C09: the index map of the separation matrix is a bijection onto the rows x columns grid.
   sep_index n partition sends the amplitude index k < 2^n to (row, column); here:
   - the row lies below 2^(number of complement axes), the column below 2^(number of partition axes)
     (so the reshaped matrix has exactly the declared shape), and
   - two different indices never land in the same cell (so no amplitude is lost or overwritten).
   Together with C09_index_roundtrip this makes _separation_matrix a rearrangement of the amplitudes. *)
From Coq Require Import List Bool Arith NArith Lia.
From QV Require Import Sep SepModel.
Import ListNotations.

Lemma select_length {A} (mask : list bool) : forall l : list A, length l = length mask ->
  length (select mask l) = length (filter (fun b => b) mask).
Proof.
  induction mask as [|m ms IH]; intros [|x xs] H; simpl in *; try discriminate; auto.
  injection H as H. destruct m; simpl; now rewrite IH.
Qed.

Lemma undigits_acc_lin l : forall acc,
  undigits_acc acc l = (acc * 2 ^ N.of_nat (length l) + undigits l)%N.
Proof.
  unfold undigits. induction l as [|d l IH]; intros acc.
  - simpl. lia.
  - cbn [undigits_acc length]. rewrite IH, (IH (2 * 0 + _)%N).
    rewrite Nat2N.inj_succ, N.pow_succ_r'. destruct d; lia.
Qed.

Lemma undigits_lt l : (undigits l < 2 ^ N.of_nat (length l))%N.
Proof.
  induction l as [|d l IH].
  - unfold undigits. simpl. lia.
  - unfold undigits. cbn [undigits_acc length]. rewrite undigits_acc_lin.
    rewrite Nat2N.inj_succ, N.pow_succ_r'. destruct d; lia.
Qed.

Lemma undigits_inj : forall l l', length l = length l' -> undigits l = undigits l' -> l = l'.
Proof.
  induction l as [|d l IH]; intros [|d' l'] Hlen H; simpl in Hlen; try discriminate; auto.
  injection Hlen as Hlen.
  unfold undigits in H. cbn [undigits_acc] in H. rewrite !undigits_acc_lin in H. rewrite <- Hlen in H.
  pose proof (undigits_lt l) as B. pose proof (undigits_lt l') as B'. rewrite <- Hlen in B'.
  assert (undigits l = undigits l' /\ d = d') as [E ->] by (destruct d, d'; split; try reflexivity; nia).
  f_equal. now apply IH.
Qed.

Lemma mask_of_length n partition : length (mask_of n partition) = n.
Proof. unfold mask_of. now rewrite map_length, seq_length. Qed.

(* shape: rows are indexed by the complement axes, columns by the partition axes *)
Theorem sep_index_range n partition k :
  let m := mask_of n partition in
  (fst (sep_index n partition k) < 2 ^ N.of_nat (length (filter (fun b => b) (map negb m))))%N /\
  (snd (sep_index n partition k) < 2 ^ N.of_nat (length (filter (fun b => b) m)))%N.
Proof.
  intros m. unfold sep_index, sep. cbn [fst snd]. split.
  - rewrite <- (select_length (map negb m) (digits n k)).
    + apply undigits_lt.
    + rewrite map_length, digits_length. unfold m. now rewrite mask_of_length.
  - rewrite <- (select_length m (digits n k)).
    + apply undigits_lt.
    + rewrite digits_length. unfold m. now rewrite mask_of_length.
Qed.

(* no two amplitudes share a cell *)
Theorem sep_index_inj n partition k k' : (k < 2 ^ N.of_nat n)%N -> (k' < 2 ^ N.of_nat n)%N ->
  sep_index n partition k = sep_index n partition k' -> k = k'.
Proof.
  intros Hk Hk' H. unfold sep_index in H. injection H as Hr Hc.
  set (m := mask_of n partition) in *.
  assert (Lk : length (digits n k) = length m) by (rewrite digits_length; unfold m; now rewrite mask_of_length).
  assert (Lk' : length (digits n k') = length m) by (rewrite digits_length; unfold m; now rewrite mask_of_length).
  unfold sep in Hr, Hc. cbn [fst snd] in Hr, Hc.
  apply undigits_inj in Hr; [| rewrite !select_length; auto; now rewrite map_length].
  apply undigits_inj in Hc; [| rewrite !select_length; auto].
  rewrite <- (undo_sep_index n partition k Hk), <- (undo_sep_index n partition k' Hk').
  unfold sep. cbn [fst snd]. fold m. now rewrite Hr, Hc.
Qed.

(* the other direction at index level: digits of a number rebuilt from digits *)
Lemma digits_undigits : forall l, digits (length l) (undigits l) = l.
Proof.
  induction l as [|d l IH] using rev_ind; [reflexivity|].
  rewrite app_length. cbn [length]. rewrite Nat.add_1_r. cbn [digits].
  unfold undigits in *. rewrite undigits_acc_app.
  replace (2 * undigits_acc 0 l + (if d then 1 else 0))%N with (N.b2n d + 2 * undigits_acc 0 l)%N
    by (destruct d; simpl N.b2n; lia).
  assert (E2 : N.div2 (N.b2n d + 2 * undigits_acc 0 l) = undigits_acc 0 l)
    by (rewrite N.div2_div; apply N.add_b2n_double_div2).
  assert (E1 : N.odd (N.b2n d + 2 * undigits_acc 0 l) = d)
    by (rewrite <- N.bit0_odd; apply N.add_b2n_double_bit0).
  now rewrite E1, E2, IH.
Qed.

Lemma merge_length {A} (mask : list bool) : forall rows cols : list A,
  length rows = length (filter negb mask) -> length cols = length (filter (fun b => b) mask) ->
  length (merge mask rows cols) = length mask.
Proof.
  induction mask as [|m ms IH]; intros rows cols Hr Hc; simpl in *; auto.
  destruct m; simpl in *.
  - destruct cols as [|c cs]; simpl in *; try discriminate. injection Hc as Hc. now rewrite IH.
  - destruct rows as [|r rs]; simpl in *; try discriminate. injection Hr as Hr. now rewrite IH.
Qed.

(* composing (row digits, column digits) into an index and separating it again gives the digits back *)
Theorem sep_undo_index n partition (rows cols : list bool) :
  let m := mask_of n partition in
  length rows = length (filter negb m) -> length cols = length (filter (fun b => b) m) ->
  sep_index n partition (undo_digits n partition rows cols) = (undigits rows, undigits cols).
Proof.
  intros m Hr Hc. unfold sep_index, undo_digits, undo. cbn [fst snd]. fold m.
  pose proof (merge_length m rows cols Hr Hc) as L. unfold m in L at 2. rewrite mask_of_length in L.
  assert (D : digits n (undigits (merge m rows cols)) = merge m rows cols)
    by (rewrite <- L at 1; apply digits_undigits).
  cbv zeta. rewrite D, (sep_undo m rows cols Hr Hc). reflexivity.
Qed.
