(* Property C07 (part 1): the rank actually used by low-rank preparation.
   rank_of is REGENERATED FROM entanglement.low_rank_approximation on every run (Gen_rank). *)
From Coq Require Import ZArith NArith Lia QArith List Bool.
From QV Require Import GenLib Gen_rank.
Open Scope N_scope.

Definition cap (r eff : N) : N := if (0 <? r) && (r <? eff) then r else eff.   (* min(r, eff), r = 0 meaning no cap *)

(* the rank is the least power of two that is >= min(r, effective rank) *)
Theorem C07_rank_spec : forall r eff, 1 <= eff ->
  let m := cap r eff in
  exists k, rank_of r eff = 2 ^ k /\ m <= 2 ^ k /\ (forall k', m <= 2 ^ k' -> k <= k').
Proof.
  intros r eff He m. exists (N.log2_up m). unfold rank_of. fold (cap r eff). fold m.
  assert (Hm : 1 <= m).
  { unfold m, cap. destruct ((0 <? r) && (r <? eff)) eqn:E; auto.
    apply andb_prop in E as [E _]. apply N.ltb_lt in E. lia. }
  split; [reflexivity|]. split.
  - destruct (N.eq_dec m 1) as [E|H1]. { rewrite E. change (2 ^ N.log2_up 1) with 1. apply N.le_refl. } apply N.log2_up_spec. lia.
  - intros k' Hk. destruct (N.eq_dec m 1) as [E|H1]. { rewrite E. change (N.log2_up 1) with 0. apply N.le_0_l. }
    apply N.log2_up_le_pow2; lia.
Qed.
Print Assumptions C07_rank_spec.

Theorem C07_cap_is_min : forall r eff, cap r eff = if r =? 0 then eff else N.min r eff.
Proof.
  intros r eff.
  unfold cap. destruct (N.eqb_spec r 0) as [->|H].
  - reflexivity.
  - replace (0 <? r) with true by (symmetry; apply N.ltb_lt; lia). simpl.
    destruct (N.ltb_spec r eff); lia.
Qed.
Print Assumptions C07_cap_is_min.

Example ex_rank : rank_of 0 5 = 8 /\ rank_of 3 5 = 4 /\ rank_of 1 5 = 1 /\ rank_of 7 5 = 8 /\ rank_of 2 2 = 2 /\ rank_of 0 1 = 1.
Proof. vm_compute. repeat split. Qed.
