(* Property C17: probabilistic quantum memory - Hamming-distance cosine law, for the classical-pattern and the
   quantum-pattern variants, every n >= 1, every placement, every memory / pattern state. *)
From Coq Require Import Reals Lra List Bool Arith Lia NArith ZArith.
From Coquelicot Require Import Complex.
From QV Require Import Sem Mat2 Toff2 Chain Pqm PqmModel PqmQuantum.
Import ListNotations.
Open Scope R_scope.

(* For every n >= 1, every placement of memory and auxiliary qubits, every pattern and every memory state psi
   (auxiliary in |0>): the gate list emitted by the model leaves amplitude cos(pi d/2n) a_k on aux = 0 and
   -i sin(pi d/2n) a_k on aux = 1, d = Hamming distance between k and the pattern. *)
Theorem C17_pqm_amplitudes : forall (mq : nat -> nat) (xq : nat) (pat : list bool),
  (forall i j, mq i = mq j -> i = j) -> (forall i, mq i <> xq) ->
  forall (n : nat) (psi : state) (b : asg), (0 < n)%nat ->
  (forall b', psi (upd b' xq true) = 0) ->
  let a := PI / (2 * INR n) in
  let d := INR (dist mq (fun k => nth k pat false) n b) in
  prun (pqm_gates n mq xq pat) psi (upd b xq false) = (RtoC (cos (a * d)) * psi (upd b xq false))%C /\
  prun (pqm_gates n mq xq pat) psi (upd b xq true) = ((0, - sin (a * d))%R * psi (upd b xq false))%C.
Proof.
  intros mq xq pat Hinj Hx n psi b Hn Hpsi a d.
  rewrite !(pqm_gates_sem mq xq pat Hinj) by auto.
  exact (pqm_amp mq xq (fun k => nth k pat false) Hinj Hx n psi b Hpsi).
Qed.
Print Assumptions C17_pqm_amplitudes.

(* consequences for the measurement statistics, pointwise in the memory basis state:
   P(aux = 0, memory = k) = |a_k|^2 cos^2(pi d/2n), and the memory marginal is unchanged *)
Theorem C17_probabilities : forall (mq : nat -> nat) (xq : nat) (pat : list bool),
  (forall i j, mq i = mq j -> i = j) -> (forall i, mq i <> xq) ->
  forall (n : nat) (psi : state) (b : asg), (0 < n)%nat ->
  (forall b', psi (upd b' xq true) = 0) ->
  let a := PI / (2 * INR n) in
  let d := INR (dist mq (fun k => nth k pat false) n b) in
  let out := prun (pqm_gates n mq xq pat) psi in
  (Cmod (out (upd b xq false)))² = (cos (a * d))² * (Cmod (psi (upd b xq false)))² /\
  (Cmod (out (upd b xq false)))² + (Cmod (out (upd b xq true)))² = (Cmod (psi (upd b xq false)))².
Proof.
  intros mq xq pat Hinj Hx n psi b Hn Hpsi a d out.
  destruct (C17_pqm_amplitudes mq xq pat Hinj Hx n psi b Hn Hpsi) as [E0 E1].
  fold a d out in E0, E1. rewrite E0, E1, !Cmod_mult.
  assert (C0 : (Cmod (RtoC (cos (a * d))))² = (cos (a * d))²).
  { rewrite Cmod_R. unfold Rsqr. rewrite <- Rabs_mult. apply Rabs_pos_eq. apply Rle_0_sqr. }
  assert (C1 : (Cmod (0, - sin (a * d)))² = (sin (a * d))²).
  { unfold Cmod. rewrite Rsqr_sqrt; simpl. unfold Rsqr. ring. nra. }
  rewrite !Rsqr_mult, C0, C1. split; [reflexivity|].
  pose proof (sin2_cos2 (a * d)). nra.
Qed.
Print Assumptions C17_probabilities.


(* quantum pattern register pq: on the branch where the pattern register reads p (the pattern bits of the assignment b),
   the amplitudes follow the same law with d = Hamming distance between the memory bits and p; amplitudes of different
   pattern branches never mix, so the pattern register's distribution is unchanged too *)
Theorem C17_pqm_quantum : forall (pq mq : nat -> nat) (xq n : nat),
  (forall k, pq k <> xq) -> (forall k k', pq k <> mq k') ->
  (forall i j, mq i = mq j -> i = j) -> (forall i, mq i <> xq) -> (0 < n)%nat ->
  forall (psi : state) (b : asg),
  (forall b', psi (upd b' xq true) = 0) ->
  let pat := pat0 n (fun k => get b (pq k)) in
  let a := PI / (2 * INR n) in
  let d := INR (dist mq (fun k => nth k pat false) n b) in
  prun (pqm_gates_q n pq mq xq) psi (upd b xq false) = (RtoC (cos (a * d)) * psi (upd b xq false))%C /\
  prun (pqm_gates_q n pq mq xq) psi (upd b xq true) = ((0, - sin (a * d))%R * psi (upd b xq false))%C.
Proof.
  intros pq mq xq n Hpx Hpm Hinj Hmx Hn psi b Hpsi pat a d.
  assert (On : forall v, onpat pq n (fun k => get b (pq k)) (upd b xq v)).
  { intros v k Hk. now rewrite get_upd_other by apply Hpx. }
  rewrite !(quantum_as_classical pq mq xq n Hpx Hpm (fun k => get b (pq k)) psi _ (On _)).
  exact (C17_pqm_amplitudes mq xq pat Hinj Hmx n psi b Hn Hpsi).
Qed.
Print Assumptions C17_pqm_quantum.

(* measurement statistics of the quantum-pattern variant, pointwise in the (pattern, memory) basis state:
   P(aux = 0, pattern = p, memory = k) = |a_{p,k}|^2 cos^2(pi d(p,k)/2n), and the joint (pattern, memory) marginal
   is unchanged *)
Theorem C17_probabilities_quantum : forall (pq mq : nat -> nat) (xq n : nat),
  (forall k, pq k <> xq) -> (forall k k', pq k <> mq k') ->
  (forall i j, mq i = mq j -> i = j) -> (forall i, mq i <> xq) -> (0 < n)%nat ->
  forall (psi : state) (b : asg),
  (forall b', psi (upd b' xq true) = 0) ->
  let pat := pat0 n (fun k => get b (pq k)) in
  let a := PI / (2 * INR n) in
  let d := INR (dist mq (fun k => nth k pat false) n b) in
  let out := prun (pqm_gates_q n pq mq xq) psi in
  (Cmod (out (upd b xq false)))² = (cos (a * d))² * (Cmod (psi (upd b xq false)))² /\
  (Cmod (out (upd b xq false)))² + (Cmod (out (upd b xq true)))² = (Cmod (psi (upd b xq false)))².
Proof.
  intros pq mq xq n Hpx Hpm Hinj Hmx Hn psi b Hpsi pat a d out.
  destruct (C17_pqm_quantum pq mq xq n Hpx Hpm Hinj Hmx Hn psi b Hpsi) as [E0 E1].
  fold pat a d out in E0, E1. rewrite E0, E1, !Cmod_mult.
  assert (C0 : (Cmod (RtoC (cos (a * d))))² = (cos (a * d))²).
  { rewrite Cmod_R. unfold Rsqr. rewrite <- Rabs_mult. apply Rabs_pos_eq. apply Rle_0_sqr. }
  assert (C1 : (Cmod (0, - sin (a * d)))² = (sin (a * d))²).
  { unfold Cmod. rewrite Rsqr_sqrt; simpl. unfold Rsqr. ring. nra. }
  rewrite !Rsqr_mult, C0, C1. split; [reflexivity|].
  pose proof (sin2_cos2 (a * d)). nra.
Qed.
Print Assumptions C17_probabilities_quantum.

(* non-vacuity: memory qubits 0..n-1, auxiliary n, satisfy the placement hypotheses *)
Example ex_placement : (forall i j : nat, i = j -> i = j) /\ (forall n i : nat, (i < n)%nat -> i <> n).
Proof. split; intros; lia. Qed.
