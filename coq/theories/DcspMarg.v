(* C11: marginal of the bottom-up circuit on its output chain.  For a balanced angle tree with pairwise distinct qubits the
   state F t has norm 1 and, summed over all non-output qubits, squared modulus  prod over the path  cos^2 / sin^2 (ay/2):
   the probability of reading k on the output qubits is the product of the branch weights along the path k. *)
From Coq Require Import Reals Lra List Bool Arith Lia NArith FunctionalExtensionality Permutation.
From Coquelicot Require Import Complex.
From QV Require Import Sem Mat2 Toff2 Chain Vchain Cvoqram SumQ Dcsp.
Import ListNotations.
Open Scope R_scope.

Definition Cn2 (z : C) : R := fst z * fst z + snd z * snd z.
Lemma Cn2_mult (a b : C) : Cn2 (a * b)%C = Cn2 a * Cn2 b.
Proof. unfold Cn2. simpl. ring. Qed.
Lemma Cn2_1 : Cn2 (RtoC 1) = 1. Proof. unfold Cn2. simpl. ring. Qed.
Lemma Cn2_0 : Cn2 (RtoC 0) = 0. Proof. unfold Cn2. simpl. ring. Qed.

Definition w0 (ay az : R) : R := Cn2 (phi ay az false).
Definition w1 (ay az : R) : R := Cn2 (phi ay az true).
Lemma w0_cos ay az : w0 ay az = cos (ay / 2) * cos (ay / 2).
Proof.
  unfold w0, phi, Cn2, RZm, RYm. simpl.
  assert (H := sin2_cos2 (az / 2)). unfold Rsqr in H. nra.
Qed.
Lemma w1_sin ay az : w1 ay az = sin (ay / 2) * sin (ay / 2).
Proof.
  unfold w1, phi, Cn2, RZm, RYm. simpl.
  assert (H := sin2_cos2 (az / 2)). unfold Rsqr in H. nra.
Qed.
Lemma w_sum ay az : w0 ay az + w1 ay az = 1.
Proof. rewrite w0_cos, w1_sin. assert (H := sin2_cos2 (ay / 2)). unfold Rsqr in H. lra. Qed.

(* ---------- assignments determined by the bits of a register ---------- *)
Fixpoint place (qs : list nat) (k : list bool) : asg :=
  match qs, k with q :: qs', v :: k' => upd (place qs' k') q v | _, _ => 0%N end.
Lemma get_place_out qs : forall k p, ~ In p qs -> get (place qs k) p = false.
Proof.
  induction qs as [|q qs IH]; intros k p H. apply get_0.
  destruct k as [|v k]. apply get_0. simpl.
  rewrite get_upd_other by (intro E; apply H; left; auto). apply IH. intro I. apply H. now right.
Qed.
Lemma place_get qs x : NoDup qs -> forall p, In p qs -> get (place qs (map (get x) qs)) p = get x p.
Proof.
  induction qs as [|q qs IH]; intros Hn p Hp. destruct Hp.
  inversion Hn; subst. cbn [map place]. destruct (Nat.eq_dec p q) as [->|Hq].
  - apply get_upd_same.
  - rewrite get_upd_other by auto. apply IH; auto. destruct Hp; [congruence|auto].
Qed.

(* a function that ignores every qubit outside qs is determined by the bits of qs (assignments have finite support) *)
Lemma get_above x p : (N.log2 x < N.of_nat p)%N -> get x p = false.
Proof. intros H. Transparent get. unfold get. apply N.bits_above_log2. exact H. Opaque get. Qed.
Lemma agree_on {A} (f : asg -> A) qs : (forall p, ~ In p qs -> indepq p f) ->
  forall x y, (forall p, In p qs -> get x p = get y p) -> f y = f x.
Proof.
  intros Hf x y H.
  set (B := S (Nat.max (N.to_nat (N.log2 x)) (N.to_nat (N.log2 y)))).
  set (L := filter (fun p => negb (existsb (Nat.eqb p) qs)) (seq 0 B)).
  assert (HL : indeps L f).
  { intros p Hp. apply Hf. apply filter_In in Hp as [_ Hp]. apply negb_true_iff in Hp.
    intro I. assert (E : existsb (Nat.eqb p) qs = true) by (apply existsb_exists; exists p; split; auto; apply Nat.eqb_refl).
    congruence. }
  apply (indeps_agree L f HL). intros p Hp.
  destruct (in_dec Nat.eq_dec p qs) as [I|I]. symmetry; now apply H.
  assert (Hge : (B <= p)%nat).
  { destruct (le_lt_dec B p); auto. exfalso. apply Hp. apply filter_In. split. apply in_seq. lia.
    apply negb_true_iff. destruct (existsb (Nat.eqb p) qs) eqn:E; auto.
    apply existsb_exists in E as [q [Hq Eq]]. apply Nat.eqb_eq in Eq. subst. tauto. }
  rewrite !get_above; auto; unfold B in Hge; lia.
Qed.

Lemma F_on_bits qs c x : Forall (glocal qs) c -> NoDup qs ->
  F (ASub qs c) x = F (ASub qs c) (place qs (map (get x) qs)).
Proof.
  intros W Hn. apply (agree_on (F (ASub qs c)) qs).
  - intros p Hp. now apply (F_indep (ASub qs c) W p).
  - intros p Hp. now apply place_get.
Qed.

(* sums over the bit strings of a register *)
Fixpoint sumbits (m : nat) (g : list bool -> R) : R :=
  match m with O => g [] | S m' => sumbits m' (fun k => g (false :: k)) + sumbits m' (fun k => g (true :: k)) end.
Lemma sumq_bits ch : NoDup ch -> forall (g : list bool -> R) b,
  sumq ch (fun x => g (map (get x) ch)) b = sumbits (length ch) g.
Proof.
  induction ch as [|c ch IH]; intros Hn g b. reflexivity.
  inversion Hn; subst. cbn [sumq length sumbits].
  assert (E : forall v, sumq ch (fun x => g (map (get x) (c :: ch))) (upd b c v) = sumbits (length ch) (fun k => g (v :: k))).
  { intros v. rewrite <- (IH H2 (fun k => g (v :: k)) (upd b c v)).
    rewrite sumq_indep_arg by auto. rewrite (sumq_indep_arg ch _ c v) by auto.
    apply sumq_ext. intros x. cbn [map]. rewrite get_upd_same. reflexivity. }
  now rewrite !E.
Qed.

(* probability of the path read at the positions ch *)
Fixpoint prob (t : atree) (ch : list nat) (b : asg) : R :=
  match t with
  | ALeaf => 1
  | ANode _ ay az l r =>
      match ch with
      | c :: ch' => if get b c then w1 ay az * prob r ch' b else w0 ay az * prob l ch' b
      | [] => 1
      end
  | ASub qs c => Cn2 (F (ASub qs c) (place qs (map (get b) ch)))
  end.

Lemma map_get_upd_other b p v ch : ~ In p ch -> map (get (upd b p v)) ch = map (get b) ch.
Proof. intros H. apply map_ext_in. intros q Hq. apply get_upd_other. intros ->. auto. Qed.
Lemma prob_indep t : forall ch p, ~ In p ch -> indepq p (prob t ch).
Proof.
  induction t as [|q ay az l IHl r IHr|qs c]; intros ch p Hp b v. reflexivity.
  - destruct ch as [|c ch]. reflexivity. cbn [prob].
    rewrite get_upd_other by (intro E; apply Hp; left; auto).
    rewrite (IHl ch p), (IHr ch p) by (intro I; apply Hp; now right). reflexivity.
  - cbn [prob]. now rewrite map_get_upd_other.
Qed.
Lemma prob_positions t : forall ch ch' b b', map (get b) ch = map (get b') ch' -> prob t ch b = prob t ch' b'.
Proof.
  induction t as [|q ay az l IHl r IHr|qs c]; intros ch ch' b b' H. reflexivity.
  - destruct ch as [|c ch]; destruct ch' as [|c' ch']; try discriminate. reflexivity.
    simpl in H. injection H as Hc Hr. cbn [prob]. rewrite Hc. now rewrite (IHl ch ch' b b' Hr), (IHr ch ch' b b' Hr).
  - cbn [prob]. now rewrite H.
Qed.

(* normalisation of the sub-register states (a premise, checked numerically on every run) *)
Fixpoint normed (t : atree) : Prop :=
  match t with
  | ALeaf => True
  | ANode _ _ _ l r => normed l /\ normed r
  | ASub qs c => forall b, sumq qs (fun x => Cn2 (F (ASub qs c) x)) b = 1
  end.

Lemma prob_total t : forall d, balanced d t -> wfsub t -> normed t -> NoDup (qubits t) ->
  forall ch, length ch = d -> NoDup ch -> forall b, sumq ch (prob t ch) b = 1.
Proof.
  induction t as [|q ay az l IHl r IHr|qs c]; intros d Hd W Nm Nq ch Hl Hn b.
  - simpl in Hd. subst. destruct ch; [|discriminate]. reflexivity.
  - destruct d as [|d]; [destruct Hd|]. destruct Hd as [Bl Br]. destruct W as [Wl Wr]. destruct Nm as [Nl Nr].
    cbn [qubits] in Nq. inversion Nq as [|? ? _ Nlr]; subst.
    destruct ch as [|c ch]; [discriminate|]. inversion Hn; subst. simpl in Hl.
    cbn [sumq].
    assert (E0 : forall v, sumq ch (prob (ANode q ay az l r) (c :: ch)) (upd b c v)
                           = (if v then w1 ay az else w0 ay az) * 1).
    { intros v. rewrite sumq_indep_arg by auto.
      rewrite (sumq_ext ch _ (fun x => (if v then w1 ay az else w0 ay az) * (if v then prob r ch x else prob l ch x))).
      - rewrite sumq_scal. f_equal.
        destruct v; [apply (IHr d) | apply (IHl d)]; auto; try lia; [eapply nd_app_r | eapply nd_app_l]; eauto.
      - intros x. cbn [prob]. rewrite get_upd_same. destruct v.
        + now rewrite (prob_indep r ch c) by auto.
        + now rewrite (prob_indep l ch c) by auto. }
    rewrite (E0 false), (E0 true). rewrite !Rmult_1_r. apply w_sum.
  - cbn [balanced qubits wfsub normed prob] in *.
    rewrite (sumq_bits ch Hn (fun k => Cn2 (F (ASub qs c) (place qs k)))).
    assert (Elen : length ch = length qs) by congruence. rewrite Elen. rewrite <- (sumq_bits qs Nq (fun k => Cn2 (F (ASub qs c) (place qs k))) b).
    rewrite <- (Nm b). apply sumq_ext. intros x. now rewrite <- F_on_bits.
Qed.

(* ---------- structure of the qubit lists ---------- *)
Lemma qubits_perm t : Permutation (qubits t) (chain t ++ rest t).
Proof.
  induction t as [|q ay az l IHl r IHr|qs c]; simpl. constructor.
  - constructor. rewrite app_assoc. apply Permutation_app_tail. exact IHl.
  - now rewrite app_nil_r.
Qed.
Lemma rest_sub t p : In p (rest t) -> In p (qubits t).
Proof. intros H. apply (Permutation_in _ (Permutation_sym (qubits_perm t))). apply in_or_app. now right. Qed.
Lemma chain_length t : forall d, balanced d t -> length (chain t) = d.
Proof.
  induction t as [|q ay az l IHl r IHr|qs c]; intros d H; simpl in *; auto.
  destruct d; [destruct H|]. destruct H as [Hl _]. f_equal. now apply IHl.
Qed.

(* ---------- re-indexing a sum through the swaps of two chains ---------- *)
Lemma swapall_cons a c ps x : swapall ((a, c) :: ps) x = swapq a c (swapall ps x).
Proof. reflexivity. Qed.

Lemma sumq_swapall : forall (ps : list (nat * nat)) (qs : list nat) (f : asg -> R),
  NoDup (map fst ps ++ map snd ps ++ qs) ->
  forall b, sumq (map snd ps ++ qs) (fun x => f (swapall ps x)) b = sumq (map fst ps ++ qs) f (swapall ps b).
Proof.
  induction ps as [|[a c] ps IH]; intros qs f Hn b. reflexivity.
  cbn [map fst snd app] in *.
  (* distinctness facts *)
  inversion Hn as [|? ? Ha Hn1]; subst.
  assert (Hac : a <> c) by (intro E; apply Ha; apply in_or_app; right; left; auto).
  assert (P1 : Permutation (map fst ps ++ c :: map snd ps ++ qs) (c :: map fst ps ++ map snd ps ++ qs))
    by (symmetry; apply Permutation_middle).
  assert (Hn2 : NoDup (c :: map fst ps ++ map snd ps ++ qs)) by (eapply Permutation_NoDup; eauto).
  inversion Hn2 as [|? ? Hc Hn3]; subst.
  assert (Ha' : ~ In a (map fst ps ++ map snd ps ++ qs)).
  { intro I. apply Ha. apply (Permutation_in _ (Permutation_sym P1)). now right. }
  (* move c behind the other summed qubits, apply the induction hypothesis with qs := c :: qs *)
  assert (E1 : sumq (c :: map snd ps ++ qs) (fun x => f (swapall ((a, c) :: ps) x)) b
               = sumq (map snd ps ++ c :: qs) (fun x => f (swapq a c (swapall ps x))) b).
  { apply sumq_perm. apply Permutation_middle. }
  rewrite E1.
  rewrite (IH (c :: qs) (fun y => f (swapq a c y))).
  2:{ eapply Permutation_NoDup; [|exact Hn2].
      rewrite app_assoc. etransitivity. apply Permutation_middle. rewrite <- app_assoc. reflexivity. }
  rewrite (sumq_perm (map fst ps ++ c :: qs) (c :: map fst ps ++ qs)) by (symmetry; apply Permutation_middle).
  rewrite sumq_swap_one; auto.
  - intro I. apply Ha'. apply in_app_or in I as [I|I]; apply in_or_app; [now left | right; apply in_or_app; now right].
  - intro I. apply Hc. apply in_app_or in I as [I|I]; apply in_or_app; [now left | right; apply in_or_app; now right].
Qed.

Lemma map_get_swapall : forall ps x, NoDup (map fst ps ++ map snd ps) ->
  map (get (swapall ps x)) (map snd ps) = map (get x) (map fst ps).
Proof.
  induction ps as [|[a c] ps IH]; intros x Hn. reflexivity.
  cbn [map fst snd app] in Hn. inversion Hn as [|? ? Ha Hn1]; subst.
  assert (Hac : a <> c) by (intro E; apply Ha; apply in_or_app; right; left; auto).
  assert (Hn2' : NoDup (c :: map fst ps ++ map snd ps))
    by (apply (Permutation_NoDup (Permutation_sym (Permutation_middle _ _ _))) in Hn1; exact Hn1).
  inversion Hn2' as [|? ? Hc Hn2]; subst.
  assert (Ha2 : ~ In a (map fst ps ++ map snd ps)).
  { intro I. apply Ha. apply in_app_or in I as [I|I]; apply in_or_app; [now left | right; now right]. }
  rewrite swapall_cons. cbn [map fst snd]. f_equal.
  - rewrite get_swapq by auto. rewrite (proj2 (Nat.eqb_neq c a)) by auto. rewrite Nat.eqb_refl.
    apply get_swapall_other. intros [a' c'] Hp. simpl. split; intros ->; apply Ha2; apply in_or_app.
    + left. now apply (in_map fst) in Hp.
    + right. now apply (in_map snd) in Hp.
  - rewrite <- (IH x Hn2). apply map_ext_in. intros p Hp.
    apply get_swapq_other; intros ->.
    + apply Ha2. apply in_or_app. now right.
    + apply Hc. apply in_or_app. now right.
Qed.

Lemma combine_fst {A B} (l1 : list A) (l2 : list B) : length l1 = length l2 -> map fst (combine l1 l2) = l1.
Proof. revert l2. induction l1 as [|a l1 IH]; intros [|b l2] H; simpl in *; try discriminate; auto. f_equal. apply IH. lia. Qed.
Lemma combine_snd {A B} (l1 : list A) (l2 : list B) : length l1 = length l2 -> map snd (combine l1 l2) = l2.
Proof. revert l2. induction l1 as [|a l1 IH]; intros [|b l2] H; simpl in *; try discriminate; auto. f_equal. apply IH. lia. Qed.

Lemma sumq_ext_fix q qs f g : ~ In q qs -> forall b, (forall x, get x q = get b q -> f x = g x) -> sumq qs f b = sumq qs g b.
Proof.
  induction qs as [|a r IH]; intros Hq b H; simpl. apply H. reflexivity.
  assert (q <> a) by (intro E; apply Hq; left; auto).
  rewrite !(IH (fun I => Hq (or_intror I))); auto; intros x Hx; apply H; rewrite Hx; now apply get_upd_other.
Qed.

(* ---------- the marginal ---------- *)
Definition dens (t : atree) (x : asg) : R := Cn2 (F t x).
Definition nrm (t : atree) (b : asg) : R := sumq (qubits t) (dens t) b.
Definition mar (t : atree) (b : asg) : R := sumq (rest t) (dens t) b.

Lemma dens_indep t p : wfsub t -> ~ In p (qubits t) -> indepq p (dens t).
Proof. intros W H b v. unfold dens. now rewrite (F_indep t W p H). Qed.

Lemma w1_zero ay az : rz0 ay = true -> w1 ay az = 0.
Proof. intros H. apply rz0_true in H. subst. rewrite w1_sin. replace (0 / 2) with 0 by field. rewrite sin_0. ring. Qed.

Theorem marginal : forall t d, balanced d t -> wfsub t -> normed t -> NoDup (qubits t) ->
  forall b, nrm t b = 1 /\ mar t b = prob t (chain t) b.
Proof.
  induction t as [|q ay az l IHl r IHr|qs c]; intros d Hd W Nm Hn.
  3:{ intros b. cbn [wfsub normed qubits] in *. split. apply Nm.
      unfold mar, dens. cbn [rest chain prob sumq]. now rewrite <- F_on_bits. }
  - intros b. unfold nrm, mar, dens. simpl. rewrite Cn2_1. auto.
  - destruct d as [|d]; [destruct Hd|]. destruct Hd as [Bl Br]. destruct W as [Wl Wr]. destruct Nm as [Nml Nmr].
    cbn [qubits] in Hn. inversion Hn as [|? ? Hq Hlr]; subst.
    assert (Nl : NoDup (qubits l)) by (eapply nd_app_l; eauto).
    assert (Nr : NoDup (qubits r)) by (eapply nd_app_r; eauto).
    assert (Hql : ~ In q (qubits l)) by (intro I; apply Hq; apply in_or_app; now left).
    assert (Hqr : ~ In q (qubits r)) by (intro I; apply Hq; apply in_or_app; now right).
    assert (Dlr : forall p, In p (qubits l) -> In p (qubits r) -> False) by (intros p; apply nd_app_disj; auto).
    specialize (IHl d Bl Wl Nml Nl). specialize (IHr d Br Wr Nmr Nr).
    assert (Lc : length (chain l) = length (chain r)) by (rewrite (chain_length l d), (chain_length r d); auto).
    (* the density of the node *)
    assert (Dn : forall x, dens (ANode q ay az l r) x
                 = (if get x q then w1 ay az else w0 ay az) * (dens l (sig q ay l r x) * dens r (sig q ay l r x))).
    { intros x. unfold dens. cbn [F]. rewrite !Cn2_mult.
      rewrite get_sig_other by (intro I; first [apply Hql; now apply chain_sub | apply Hqr; now apply chain_sub]).
      unfold w0, w1. destruct (get x q); ring. }
    (* marginal at every point *)
    assert (M : forall b, mar (ANode q ay az l r) b = prob (ANode q ay az l r) (chain (ANode q ay az l r)) b).
    { intros b. unfold mar. cbn [rest chain prob].
      assert (HqS : ~ In q (rest l ++ qubits r)).
      { intro I. apply in_app_or in I as [I|I]; [apply Hql; now apply rest_sub | now apply Hqr]. }
      (* unswapped form of the summand *)
      assert (U : forall w, sumq (rest l ++ qubits r) (fun x => w * (dens l x * dens r x)) b
                            = w * (mar l b * nrm r b)).
      { intros w. rewrite sumq_scal. f_equal. unfold mar, nrm. apply sumq_prod.
        - intros p Hp. apply dens_indep; auto. intro I. eapply Dlr; eauto.
        - intros p Hp. apply dens_indep; auto. intro I. eapply Dlr; eauto. now apply rest_sub.
        - intros p Hp I. eapply Dlr; eauto. now apply rest_sub. }
      destruct (get b q) eqn:G.
      + destruct (rz0 ay) eqn:Z.
        * (* no swaps, and the |1> branch has weight 0 *)
          rewrite (sumq_ext_fix q _ _ (fun x => w1 ay az * (dens l x * dens r x)) HqS).
          -- rewrite U. rewrite (w1_zero ay az Z). ring.
          -- intros x Hx. rewrite Dn, Hx, G. unfold sig. now rewrite Z.
        * (* swapped *)
          set (ps := pairs l r).
          assert (Pf : map fst ps = chain l) by (apply combine_fst; auto).
          assert (Ps : map snd ps = chain r) by (apply combine_snd; auto).
          pose (Gf := fun y : asg => w1 ay az * (dens l y * dens r y)).
          rewrite (sumq_ext_fix q _ _ (fun x => Gf (swapall ps x)) HqS).
          2:{ intros x Hx. rewrite Dn, Hx, G. unfold sig, Gf. rewrite Z, Hx, G. reflexivity. }
          (* bring the summed qubits into the form chain r ++ (rest l ++ rest r) *)
          assert (P1 : Permutation (rest l ++ qubits r) (chain r ++ (rest l ++ rest r))).
          { rewrite (qubits_perm r). rewrite !app_assoc. apply Permutation_app_tail. apply Permutation_app_comm. }
          rewrite (sumq_perm _ _ _ P1). rewrite <- Ps.
          assert (NDall : NoDup (map fst ps ++ map snd ps ++ (rest l ++ rest r))).
          { rewrite Pf, Ps. eapply Permutation_NoDup; [|exact Hlr].
            rewrite (qubits_perm l), (qubits_perm r). rewrite <- !app_assoc. apply Permutation_app_head.
            rewrite !app_assoc. apply Permutation_app_tail. apply Permutation_app_comm. }
          rewrite (sumq_swapall ps (rest l ++ rest r) Gf NDall).
          rewrite Pf. rewrite app_assoc. unfold Gf.
          rewrite sumq_scal. rewrite sumq_prod.
          -- rewrite (sumq_perm _ _ _ (Permutation_sym (qubits_perm l))).
             fold (nrm l (swapall ps b)). fold (mar r (swapall ps b)).
             rewrite (proj1 (IHl _)), (proj2 (IHr _)).
             rewrite (prob_positions r (chain r) (chain l) (swapall ps b) b).
             ++ ring.
             ++ rewrite <- Ps, <- Pf. apply map_get_swapall.
                rewrite app_assoc in NDall. now apply nd_app_l in NDall.
          -- intros p Hp. apply dens_indep; auto. intro I. eapply Dlr; eauto. now apply rest_sub.
          -- intros p Hp. apply dens_indep; auto. intro I. eapply Dlr; eauto.
             apply (Permutation_in _ (Permutation_sym (qubits_perm l))). exact Hp.
          -- intros p Hp I. eapply Dlr; [|apply rest_sub; exact I].
             apply (Permutation_in _ (Permutation_sym (qubits_perm l))). exact Hp.
      + rewrite (sumq_ext_fix q _ _ (fun x => w0 ay az * (dens l x * dens r x)) HqS).
        * rewrite U. rewrite (proj2 (IHl b)), (proj1 (IHr b)). ring.
        * intros x Hx. rewrite Dn, Hx, G. unfold sig. destruct (rz0 ay); auto. now rewrite Hx, G. }
    intros b. split; [|apply M].
    (* the norm: sum the marginal over the chain *)
    unfold nrm. cbn [qubits].
    assert (P2 : Permutation (q :: qubits l ++ qubits r) (chain (ANode q ay az l r) ++ rest (ANode q ay az l r))).
    { apply (qubits_perm (ANode q ay az l r)). }
    rewrite (sumq_perm _ _ _ P2), sumq_app.
    rewrite (sumq_ext _ _ (prob (ANode q ay az l r) (chain (ANode q ay az l r)))) by (intros x; apply M).
    apply (prob_total _ (S d)).
    + split; auto.
    + split; auto.
    + split; auto.
    + cbn [qubits]. constructor; auto.
    + cbn [chain length]. f_equal. now apply chain_length.
    + apply (Permutation_NoDup P2) in Hn. now apply nd_app_l in Hn.
Qed.

(* ---------- from |0..0> ---------- *)
From QV Require Import TopDownWalk.
Definition clearq (qs : list nat) (b : asg) : asg := fold_right (fun q acc => upd acc q false) b qs.
Lemma get_clearq_out qs b p : ~ In p qs -> get (clearq qs b) p = get b p.
Proof.
  induction qs as [|a r IH]; intros H; simpl; auto.
  rewrite get_upd_other by (intro E; apply H; left; auto). apply IH. intro I. apply H. now right.
Qed.
Lemma get_clearq_in qs b p : In p qs -> get (clearq qs b) p = false.
Proof.
  induction qs as [|a r IH]; intros H; simpl. destruct H.
  destruct (Nat.eq_dec p a) as [->|Hp]. apply get_upd_same.
  rewrite get_upd_other by auto. apply IH. destruct H; [congruence|auto].
Qed.
Lemma clearq_indep qs q : In q qs -> forall b v, clearq qs (upd b q v) = clearq qs b.
Proof.
  intros H b v. apply asg_ext. intros p. destruct (in_dec Nat.eq_dec p qs) as [I|I].
  - now rewrite !get_clearq_in.
  - rewrite !get_clearq_out by auto. apply get_upd_other. intros ->. auto.
Qed.
Lemma ket0_split qs b : ket0 b = (Zq qs b * ket0 (clearq qs b))%C.
Proof.
  unfold Zq. destruct (forallb (fun q => negb (get b q)) qs) eqn:E.
  - rewrite Cmult_1_l. f_equal. apply asg_ext. intros p. destruct (in_dec Nat.eq_dec p qs) as [I|I].
    + rewrite get_clearq_in by auto. rewrite forallb_forall in E. apply E in I. now apply negb_true_iff in I.
    + now rewrite get_clearq_out.
  - rewrite Cmult_0_l. unfold ket0. destruct (N.eqb_spec b 0) as [->|H]; auto.
    exfalso. assert (T : forallb (fun q => negb (get 0%N q)) qs = true).
    { apply forallb_forall. intros q _. now rewrite get_0. }
    congruence.
Qed.

Theorem bdsp_marginal t d : balanced d t -> wfsub t -> normed t -> NoDup (qubits t) ->
  forall b, (forall p, ~ In p (qubits t) -> get b p = false) ->
  sumq (rest t) (fun x => Cn2 (drun (bdsp_gates t) ket0 x)) b = prob t (chain t) b.
Proof.
  intros Hd W Nm Hn b Hb.
  set (beta := fun x => ket0 (clearq (qubits t) x)).
  assert (Hbeta : indeps (qubits t) beta) by (intros q Hq x v; unfold beta; now rewrite clearq_indep).
  assert (K : ket0 = fun x => (Zq (qubits t) x * beta x)%C).
  { apply functional_extensionality; intros x. apply ket0_split. }
  rewrite K, (bdsp_frame t beta W Hn Hbeta).
  rewrite (sumq_ext _ _ (fun x => Cn2 (beta x) * dens t x)) by (intros x; rewrite Cn2_mult; unfold dens; ring).
  rewrite sumq_factor.
  - fold (mar t b). rewrite (proj2 (marginal t d Hd W Nm Hn b)).
    assert (B1 : beta b = RtoC 1).
    { unfold beta, ket0. assert (Z : clearq (qubits t) b = 0%N).
      { apply asg_ext. intros p. rewrite get_0. destruct (in_dec Nat.eq_dec p (qubits t)) as [I|I].
        now apply get_clearq_in. rewrite get_clearq_out by auto. now apply Hb. }
      now rewrite Z. }
    rewrite B1, Cn2_1. ring.
  - intros p Hp x v. now rewrite (Hbeta p (rest_sub t p Hp)).
Qed.
