(* C12 / C01 (UCGInitialize): induction over the levels of the disentangling circuit, with the diagonal carried from one
   level to the next.  Level k acts on qubit k with a 2x2 matrix chosen by the higher qubits (the multiplexer built by
   _build_multiplexor) followed by the conjugate of the diagonal UCGate leaves behind.  If every 2x2 matrix maps its pair
   of children to (parent, 0) or (0, parent) according to the target bit (C12_branch0/1, C12_diag0/1; monitored on every
   run), the levels map the vector to the last child times the target basis state. *)
From Coq Require Import Reals Lra List Bool Arith Lia NArith FunctionalExtensionality Classical_Pred_Type.
From Coquelicot Require Import Complex.
From QV Require Import Sem Mat2 Toff2 Chain.
Import ListNotations.
Open Scope nat_scope.

Section Ucg.
Variable tb : nat -> bool.        (* bits of the target index, little endian *)

Definition low_ok (k : nat) (b : asg) : bool := forallb (fun q => Bool.eqb (get b q) (tb q)) (seq 0 k).
Lemma low_ok_S k b : low_ok (S k) b = low_ok k b && Bool.eqb (get b k) (tb k).
Proof. unfold low_ok. rewrite seq_S, forallb_app. simpl. now rewrite andb_true_r. Qed.
Lemma low_ok_upd k b q v : k <= q -> low_ok k (upd b q v) = low_ok k b.
Proof.
  intros H. unfold low_ok.
  induction k as [|k IH]. reflexivity.
  rewrite seq_S, !forallb_app. simpl. rewrite IH by lia. rewrite get_upd_other by lia. reflexivity.
Qed.

(* the state before level k: qubits below k already hold the target bits, the rest holds the children c *)
Definition lstate (k : nat) (c : state) : state := fun b => if low_ok k b then c b else RtoC 0.

(* level k: multiplexed matrix f on qubit k, then the phase d *)
Definition level (k : nat) (f : asg -> mat2) (d : asg -> C) (psi : state) : state :=
  fun b => (d b * appf f k psi b)%C.

(* what the run-time monitor checks for the matrices of one level (p = parents) *)
Definition disentangles (k : nat) (f : asg -> mat2) (c p : state) : Prop :=
  forall b r, (mget (f b) r false * c (upd b k false) + mget (f b) r true * c (upd b k true))%C
              = if Bool.eqb r (tb k) then p b else RtoC 0.

Lemma level_step k f d c p :
  disentangles k f c p ->
  level k f d (lstate k c) = lstate (S k) (fun b => (d b * p b)%C).
Proof.
  intros H. apply functional_extensionality; intros b.
  unfold level, lstate, appf, app1. rewrite !low_ok_upd by lia. rewrite low_ok_S.
  destruct (low_ok k b); cbn [andb].
  - rewrite (H b (get b k)). destruct (Bool.eqb (get b k) (tb k)); ring.
  - ring.
Qed.

(* all levels: a list of (f, d, p), level 0 first *)
Fixpoint levels (k : nat) (ls : list ((asg -> mat2) * (asg -> C) * state)) (psi : state) : state :=
  match ls with
  | [] => psi
  | (f, d, _) :: rest => levels (S k) rest (level k f d psi)
  end.
Fixpoint chain_ok (k : nat) (ls : list ((asg -> mat2) * (asg -> C) * state)) (c : state) : Prop :=
  match ls with
  | [] => True
  | (f, d, p) :: rest => disentangles k f c p /\ chain_ok (S k) rest (fun b => (d b * p b)%C)
  end.
Fixpoint last_children (ls : list ((asg -> mat2) * (asg -> C) * state)) (c : state) : state :=
  match ls with
  | [] => c
  | (f, d, p) :: rest => last_children rest (fun b => (d b * p b)%C)
  end.

Theorem levels_spec : forall ls k c, chain_ok k ls c ->
  levels k ls (lstate k c) = lstate (k + length ls) (last_children ls c).
Proof.
  induction ls as [|[[f d] p] ls IH]; intros k c H; simpl.
  - now rewrite Nat.add_0_r.
  - destruct H as [H1 H2]. rewrite (level_step k f d c p H1). rewrite IH by auto. f_equal. lia.
Qed.

(* from the whole vector: lstate 0 c = c *)
Lemma lstate_0 c : lstate 0 c = c.
Proof. reflexivity. Qed.

(* after n levels on an n-qubit vector (zero outside the first n qubits) only the target basis state is populated *)
Definition tidx (n : nat) : asg := fold_right (fun q acc => upd acc q (tb q)) 0%N (seq 0 n).
Lemma get_0' q : get 0%N q = false.
Proof. Transparent get. unfold get. apply N.bits_0. Opaque get. Qed.
Lemma get_tidx n q : get (tidx n) q = if q <? n then tb q else false.
Proof.
  unfold tidx.
  assert (G : forall r a, get (fold_right (fun q acc => upd acc q (tb q)) 0%N (seq a r)) q
                        = if (a <=? q) && (q <? a + r) then tb q else false).
  { induction r as [|r IHr]; intros a'; simpl.
    - rewrite get_0'. destruct (Nat.leb_spec a' q); simpl; auto. now rewrite (proj2 (Nat.ltb_ge q (a' + 0))) by lia.
    - destruct (Nat.eq_dec q a') as [->|Hq].
      + rewrite get_upd_same. rewrite Nat.leb_refl, (proj2 (Nat.ltb_lt a' (a' + S r))) by lia. reflexivity.
      + rewrite get_upd_other, IHr by auto.
        destruct (Nat.leb_spec (S a') q); destruct (Nat.leb_spec a' q); try lia; simpl; auto.
        replace (a' + S r) with (S a' + r) by lia. reflexivity. }
  rewrite (G n 0). reflexivity.
Qed.

Definition hi_zero (n : nat) (c : state) : Prop := forall b, (exists q, n <= q /\ get b q = true) -> c b = RtoC 0.

Theorem levels_target n ls c : length ls = n -> chain_ok 0 ls c -> hi_zero n (last_children ls c) ->
  forall b, levels 0 ls c b = if N.eqb b (tidx n) then last_children ls c b else RtoC 0.
Proof.
  intros Hl Hc Hz b. rewrite <- (lstate_0 c) at 1. rewrite levels_spec by auto. rewrite Hl. simpl.
  unfold lstate.
  destruct (N.eqb_spec b (tidx n)) as [->|Hb].
  - assert (L : low_ok n (tidx n) = true).
    { unfold low_ok. apply forallb_forall. intros q Hq. apply in_seq in Hq. rewrite get_tidx.
      rewrite (proj2 (Nat.ltb_lt q n)) by lia. apply eqb_reflx. }
    now rewrite L.
  - destruct (low_ok n b) eqn:L; auto.
    (* b agrees with the target on the first n bits but differs: some higher bit is set *)
    apply Hz.
    assert (Hex : exists q, get b q <> get (tidx n) q).
    { apply Classical_Pred_Type.not_all_ex_not. intros A. apply Hb. now apply asg_ext. }
    destruct Hex as [q Hq]. exists q. rewrite get_tidx in Hq.
    destruct (Nat.ltb_spec q n) as [Hlt|Hge].
    + exfalso. unfold low_ok in L. rewrite forallb_forall in L.
      specialize (L q). rewrite in_seq in L. specialize (L (conj (Nat.le_0_l q) Hlt)).
      apply eqb_prop in L. congruence.
    + split; auto. destruct (get b q); congruence.
Qed.
End Ucg.
