From Coq Require Import List Bool Arith Lia.
Import ListNotations.
(* C09: reshape to the bipartition matrix and back, on big-endian digit lists.
   mask j = true  iff axis j belongs to the partition (so the order in which the caller
   lists the partition is irrelevant: the code sorts it). *)
Section Sep.
Context {A : Type}.
Fixpoint select (mask : list bool) (l : list A) : list A :=
  match mask, l with
  | m :: ms, x :: xs => if m then x :: select ms xs else select ms xs
  | _, _ => []
  end.
(* row digits = complement axes in order, column digits = partition axes in order *)
Definition sep (mask : list bool) (digits : list A) : list A * list A :=
  (select (map negb mask) digits, select mask digits).
Fixpoint merge (mask : list bool) (rows cols : list A) : list A :=
  match mask with
  | [] => []
  | true :: ms => match cols with c :: cs => c :: merge ms rows cs | [] => [] end
  | false :: ms => match rows with r :: rs => r :: merge ms rs cols | [] => [] end
  end.
Definition undo (mask : list bool) (rc : list A * list A) : list A := merge mask (fst rc) (snd rc).

Theorem undo_sep mask : forall digits, length digits = length mask -> undo mask (sep mask digits) = digits.
Proof.
  unfold undo, sep; simpl. induction mask as [|m ms IH]; intros [|x xs] H; simpl in *; try discriminate; auto.
  destruct m; simpl; rewrite IH; auto.
Qed.
Theorem sep_undo mask : forall rows cols,
  length rows = length (filter negb mask) -> length cols = length (filter (fun b => b) mask) ->
  sep mask (merge mask rows cols) = (rows, cols).
Proof.
  unfold sep. induction mask as [|m ms IH]; intros rows cols Hr Hc; simpl in *.
  - destruct rows, cols; simpl in *; try discriminate; auto.
  - destruct m; simpl in *.
    + destruct cols as [|c cs]; simpl in *; try discriminate.
      injection Hc as Hc. specialize (IH rows cs Hr Hc). injection IH as E1 E2. now rewrite E1, E2.
    + destruct rows as [|r rs]; simpl in *; try discriminate.
      injection Hr as Hr. specialize (IH rs cols Hr Hc). injection IH as E1 E2. now rewrite E1, E2.
Qed.
Lemma sep_lengths mask : forall digits, length digits = length mask ->
  length (fst (sep mask digits)) + length (snd (sep mask digits)) = length mask.
Proof.
  unfold sep; simpl. induction mask as [|m ms IH]; intros [|x xs] H; simpl in *; try discriminate; auto.
  injection H as H. specialize (IH xs H). destruct m; simpl; lia.
Qed.
End Sep.
(* the partition list, in any order and with the code's sorted() applied, only enters through the mask *)
Definition mask_of (n : nat) (partition : list nat) : list bool :=
  map (fun j => existsb (Nat.eqb j) partition) (seq 0 n).
Example mask_order : mask_of 4 [2; 0] = mask_of 4 [0; 2].
Proof. reflexivity. Qed.
Print Assumptions undo_sep.
