(* C02, QR scheme: the Givens sequence of unitary._build_qr_gate_sequence.  The factors R_1 .. R_k are applied to the matrix in turn
   (G = R_k ... R_1 U) and the circuit applies G first, then the inverses in reverse order: R_1^-1 ... R_k^-1 G = U whenever
   each recorded inverse is a left inverse of its factor (telescoping; any ring, any dimension).  The 2x2 core of a factor:
   rows (conj a, conj b), (b, -a) with (a, b) the normalised pair map the pair to (norm, 0). *)
From mathcomp Require Import all_ssreflect all_algebra.
From mathcomp Require Import ring.
Set Implicit Arguments. Unset Strict Implicit. Unset Printing Implicit Defensive.
Import GRing.Theory.
Local Open Scope ring_scope.

Section Telescope.
Variable (R : ringType) (N : nat).
Implicit Types (U : 'M[R]_N) (ps : seq ('M[R]_N * 'M[R]_N)).     (* pairs (factor, recorded inverse) *)

Definition eliminate U ps : 'M[R]_N := foldl (fun acc p => p.1 *m acc) U ps.
Definition rebuild ps (G : 'M[R]_N) : 'M[R]_N := foldr (fun p acc => p.2 *m acc) G ps.

Theorem telescoping ps : all (fun p => p.2 *m p.1 == 1%:M) ps -> forall U, rebuild ps (eliminate U ps) = U.
Proof.
  elim: ps => [|p ps IH] //= /andP [/eqP Hp Hps] U.
  by rewrite IH // mulmxA Hp mul1mx.
Qed.
End Telescope.

Section Pair.
Variable (F : fieldType) (conj : {rmorphism F -> F}).
Variables a b nrm : F.
Hypothesis unit_pair : a * conj a + b * conj b = 1.
(* x = nrm a, y = nrm b: the entries (col, col) and (row, col) of the matrix *)
Lemma givens_pair : conj a * (nrm * a) + conj b * (nrm * b) = nrm /\ b * (nrm * a) + (- a) * (nrm * b) = 0.
Proof.
  split; last by ring.
  have -> : conj a * (nrm * a) + conj b * (nrm * b) = nrm * (a * conj a + b * conj b) by ring.
  by rewrite unit_pair mulr1.
Qed.
End Pair.
