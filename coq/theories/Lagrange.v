From mathcomp Require Import all_ssreflect all_algebra.
From mathcomp Require Import ring.
Set Implicit Arguments. Unset Strict Implicit. Unset Printing Implicit Defensive.
Import GRing.Theory.
Local Open Scope ring_scope.

Section Lagrange.
Variable (F : fieldType) (conj : {rmorphism F -> F}).
Variable n : nat.
Variables u v : 'I_n -> F.
Definition nsq (z : F) := z * conj z.
Definition A := \sum_i nsq (u i).
Definition B := \sum_i nsq (v i).
Definition S := \sum_i u i * conj (v i).
Definition Sc := \sum_i conj (u i) * v i.

Lemma term i j :
  nsq (u i * v j - u j * v i) =
  nsq (u i) * nsq (v j) - (u i * conj (v i)) * (conj (u j) * v j)
  - (conj (u i) * v i) * (u j * conj (v j)) + nsq (v i) * nsq (u j).
Proof. rewrite /nsq rmorphB !rmorphM /=. ring. Qed.

Lemma sum2D (f g : 'I_n -> 'I_n -> F) :
  \sum_i \sum_j (f i j + g i j) = \sum_i \sum_j f i j + \sum_i \sum_j g i j.
Proof. by rewrite -big_split; apply: eq_bigr => i _; rewrite big_split. Qed.
Lemma sum2B (f g : 'I_n -> 'I_n -> F) :
  \sum_i \sum_j (f i j - g i j) = \sum_i \sum_j f i j - \sum_i \sum_j g i j.
Proof. by rewrite -sumrB; apply: eq_bigr => i _; rewrite sumrB. Qed.
Lemma sum2M (f g : 'I_n -> F) : \sum_i \sum_j f i * g j = (\sum_i f i) * (\sum_j g j).
Proof. by rewrite big_distrlr. Qed.

Theorem lagrange_full :
  \sum_i \sum_j nsq (u i * v j - u j * v i) = A * B + A * B - (S * Sc + S * Sc).
Proof.
  have -> : \sum_i \sum_j nsq (u i * v j - u j * v i) =
            \sum_i \sum_j (nsq (u i) * nsq (v j) - (u i * conj (v i)) * (conj (u j) * v j)
                            - (conj (u i) * v i) * (u j * conj (v j)) + nsq (v i) * nsq (u j)).
    by apply: eq_bigr => i _; apply: eq_bigr => j _; exact: term.
  rewrite sum2D !sum2B !sum2M.
  rewrite -/A -/B -/S -/Sc. ring.
Qed.
End Lagrange.

Print Assumptions lagrange_full.
