(* Property C19 (part 2): reduction of the amplification round to the two-dimensional recurrence, over any field with
   involution: on the span of |g> (normalised flag-0 part of U|0>) and |b> (the rest), with U|0> = sn|g> + cs|b>,
   the round  (U I_s U^dagger) I_t = (I - 2|s><s|)(I - 2P)  maps x|g> + y|b> to the coordinates Ss(It(x,y)) of Grover.v. *)
From mathcomp Require Import all_ssreflect all_algebra.
From QV Require Import GroverSpan.
Set Implicit Arguments. Unset Strict Implicit. Unset Printing Implicit Defensive.
Import GRing.Theory.
Local Open Scope ring_scope.

Theorem C19_round_on_span : forall (F : fieldType) (conj : {rmorphism F -> F}) (N : nat) (g b : 'cV[F]_N),
  ip conj g g = 1 -> ip conj b b = 1 -> ip conj g b = 0 -> ip conj b g = 0 ->
  forall sn cs : F, conj sn = sn -> conj cs = cs ->
  forall P : 'M[F]_N, P *m g = g -> P *m b = 0 ->
  forall x y : F,
  Rs conj g b sn cs (Itv P (x *: g + y *: b))
  = (- x - (sn * - x + cs * y + (sn * - x + cs * y)) * sn) *: g + (y - (sn * - x + cs * y + (sn * - x + cs * y)) * cs) *: b.
Proof. move=> F conj N g b gg bb gb bg sn cs Hs Hc P Pg Pb x y. exact: round_on_span. Qed.
Print Assumptions C19_round_on_span.

Theorem C19_reflection : forall (F : fieldType) (N : nat) (U Ud E0 : 'M[F]_N), U *m Ud = 1%:M ->
  U *m (1%:M - (E0 + E0)) *m Ud = 1%:M - (U *m E0 *m Ud + U *m E0 *m Ud).
Proof. move=> F N U Ud E0. exact: reflect_conj. Qed.
Print Assumptions C19_reflection.
