From Coq Require Import Reals Lra List Bool Arith Lia NArith FunctionalExtensionality.
From Coquelicot Require Import Complex.
From QV Require Import Sem Mat2 Toff2 Chain Vchain.
Import ListNotations.
Open Scope R_scope.

(* ---------- relative-phase V-chain: chain (S j) followed by chain j ---------- *)
Section RelPhase.
Variables cq aq : nat -> nat.
Hypothesis cq_aq : forall i j, cq i <> aq j.
Hypothesis aq_inj : forall i j, aq i = aq j -> i = j.
Notation chain := (chain cq aq).
Notation cperm := (cperm cq aq).
Notation csign := (csign cq aq).
Notation isX := (isX cq).
Notation isZ := (isZ cq).

(* here the "target" is aq (S j) *)
Theorem relphase_spec j psi b :
  trun (chain j) (trun (chain (S j)) psi) b =
  ((if isZ (S j) b then sgn (get b (aq (S j))) else 1) *
   psi (if isX (S j) b then flipq (aq (S j)) b else b))%C.
Proof.
  rewrite !chain_mono by auto. unfold mono.
  set (b' := cperm j b).
  assert (Hinv : cperm j b' = b).
  { unfold b'. apply cperm_invol; auto. }
  cbn [Chain.cperm Chain.csign].
  assert (HX : isX (S j) b' = isX (S j) b) by (apply allc_cperm; auto).
  assert (HZ : isZ (S j) b' = isZ (S j) b).
  { unfold b'. apply isZ_cperm; auto. }
  assert (HG : get b' (aq (S j)) = get b (aq (S j))).
  { unfold b'. apply Chain.cperm_get; auto. intros i Hi E; apply aq_inj in E; lia. }
  rewrite HX, HZ, HG, Hinv.
  assert (S1 : (csign j b * csign j b' = 1)%C).
  { apply (csign_pair cq aq j j); auto.
    - intros i Hi. unfold b'. apply isZ_cperm; auto.
    - intros i Hi Hz. unfold b'. rewrite cperm_get_a by auto.
      rewrite (isZ_isX cq i b Hz). apply xorb_false_r. }
  rewrite !Cmult_assoc, S1. ring.
Qed.
End RelPhase.

(* ---------- abstract composition  G ; S ; G ; S  (Lemma 9 of Iten et al.) ---------- *)
Section Lemma9.
Variables anc tgt : nat.
Hypothesis anc_tgt : anc <> tgt.
Variables P1 Z1 P2 : asg -> bool.      (* read control qubits only *)
Hypothesis P1_anc : forall b, P1 (flipq anc b) = P1 b.
Hypothesis P1_tgt : forall b, P1 (flipq tgt b) = P1 b.
Hypothesis Z1_anc : forall b, Z1 (flipq anc b) = Z1 b.
Hypothesis Z1_tgt : forall b, Z1 (flipq tgt b) = Z1 b.
Hypothesis P2_anc : forall b, P2 (flipq anc b) = P2 b.
Hypothesis P2_tgt : forall b, P2 (flipq tgt b) = P2 b.
Hypothesis excl : forall b, Z1 b = true -> P1 b = false.
Variables G S : state -> state.
Hypothesis G_spec : forall psi b,
  G psi b = ((if Z1 b then sgn (get b anc) else 1) * psi (if P1 b then flipq anc b else b))%C.
Hypothesis S_spec : forall psi b,
  S psi b = psi (if P2 b && get b anc then flipq tgt b else b).

Lemma fl_other q b x : x <> q -> get (flipq q b) x = get b x.
Proof. intros; unfold flipq; now apply get_upd_other. Qed.
Lemma fl_same q b : get (flipq q b) q = negb (get b q).
Proof. unfold flipq; apply get_upd_same. Qed.
Lemma fl_fl q b : flipq q (flipq q b) = b.
Proof. unfold flipq. rewrite get_upd_same, upd_upd, negb_involutive. apply upd_get. Qed.
Lemma fl_comm q r b : q <> r -> flipq q (flipq r b) = flipq r (flipq q b).
Proof.
  intros H. unfold flipq. rewrite !get_upd_other by auto. apply upd_comm. auto.
Qed.

Theorem lemma9 psi b :
  S (G (S (G psi))) b = psi (if P1 b && P2 b then flipq tgt b else b).
Proof.
  rewrite S_spec, G_spec, S_spec, G_spec.
  destruct (P1 b) eqn:E1, (P2 b) eqn:E2, (Z1 b) eqn:EZ, (get b anc) eqn:Ea;
    try (rewrite (excl b EZ) in E1; discriminate);
    cbn [andb];
    repeat first
      [ rewrite P1_anc | rewrite P1_tgt | rewrite Z1_anc | rewrite Z1_tgt | rewrite P2_anc | rewrite P2_tgt
      | rewrite E1 | rewrite E2 | rewrite EZ | rewrite Ea
      | rewrite fl_same | rewrite (fl_other tgt _ anc) by auto | rewrite (fl_other anc _ tgt) by auto
      | progress cbn [andb negb] ].
  all: rewrite ?(fl_comm anc tgt) by auto; rewrite ?fl_fl; unfold sgn;
       destruct (psi b) as [re im] eqn:Epsi; try (apply Ceq; simpl; ring).
  all: destruct (psi (flipq tgt b)) as [re' im']; apply Ceq; simpl; ring.
Qed.
End Lemma9.

Print Assumptions lemma9.
Print Assumptions relphase_spec.
