From Coq Require Import Reals Lra List Bool Arith Lia NArith FunctionalExtensionality.
From Coquelicot Require Import Complex.
From QV Require Import Sem Mat2 Toff2 Chain UcrPlaced.
Import ListNotations.
Open Scope R_scope.

Definition cis (x : R) : C := (cos x, sin x).
Lemma Cvo_get0 q : get 0%N q = false.
Proof. Transparent get. unfold get. apply N.bits_0. Opaque get. Qed.

(* one level of top-down preparation, semantically: multiplexed RY then multiplexed RZ on target t,
   acting on a state that vanishes whenever the target (or any other "still zero" qubit) is set *)
Section Level.
Variable t : nat.
Variable cq : nat -> nat.
Hypothesis cq_t : forall i, cq i <> t.
Variable k : nat.
Variables ay az : nat -> R.

Definition level (psi : state) : state := muxp t cq RotZ k az (muxp t cq RotY k ay psi).

Lemma level_on_zero (psi : state) b :
  (forall b', get b' t = true -> psi b' = 0) ->
  level psi b =
  ((if get b t then RtoC (sin (ay (pidx cq k b) / 2)) * cis (az (pidx cq k b) / 2)
    else RtoC (cos (ay (pidx cq k b) / 2)) * cis (- (az (pidx cq k b) / 2))) * psi (upd b t false))%C.
Proof.
  intros Hz. unfold level, muxp, app1.
  rewrite !pidx_upd_t by auto. rewrite !get_upd_same, !upd_upd.
  rewrite (Hz (upd b t true)) by apply get_upd_same.
  unfold Rm, RZm, RYm, mget, cis; simpl.
  destruct (get b t); simpl; rewrite ?cos_neg, ?sin_neg; apply Ceq; simpl; ring.
Qed.
End Level.

(* ---------- the whole top-down walk on n qubits ---------- *)
Section TopDown.
Variable n : nat.
Variables ay az : nat -> nat -> R.          (* level -> node index -> angle *)

Definition tq (l : nat) : nat := (n - 1 - l)%nat.
Definition cql (l : nat) (i : nat) : nat := (n - l + (i - 1))%nat.

Fixpoint walk (l : nat) (psi : state) : state :=
  match l with
  | O => psi
  | S l' => level (tq l') (cql l') l' (ay l') (az l') (walk l' psi)
  end.

(* amplitude tree produced by the angles *)
Fixpoint amp (l : nat) (j : nat) : C :=
  match l with
  | O => 1
  | S l' => let p := (j / 2)%nat in
            (amp l' p * (if Nat.odd j then RtoC (sin (ay l' p / 2)) * cis (az l' p / 2)
                         else RtoC (cos (ay l' p / 2)) * cis (- (az l' p / 2))))%C
  end.

Definition lidx (l : nat) (b : asg) : nat := pidx (cql l) l b.

Definition zero_region (l : nat) (q : nat) : Prop := (q < n - l)%nat \/ (n <= q)%nat.
Definition Inv (l : nat) (psi : state) : Prop :=
  (forall b q, zero_region l q -> get b q = true -> psi b = 0) /\
  (forall b, (forall q, zero_region l q -> get b q = false) -> psi b = amp l (lidx l b)).

Lemma cql_t l i : (l < n)%nat -> cql l i <> tq l.
Proof. unfold cql, tq. lia. Qed.

(* index recurrence: the new qubit is the least significant bit of the next level's index *)
Lemma pidx_ext cq cq' k b : (forall i, (1 <= i <= k)%nat -> cq i = cq' i) -> pidx cq k b = pidx cq' k b.
Proof. induction k; intros H; simpl; auto. rewrite IHk, H by (intros; try apply H; lia). reflexivity. Qed.
Lemma pidx_shift cq cq' c0 k b :
  cq' 1%nat = c0 -> (forall i, (1 <= i)%nat -> cq' (S i) = cq i) ->
  pidx cq' (S k) b = ((if get b c0 then 1 else 0) + 2 * pidx cq k b)%nat.
Proof.
  intros H1 HS. induction k.
  - simpl. rewrite H1. destruct (get b c0); lia.
  - change (pidx cq' (S (S k)) b) with (pidx cq' (S k) b + (if get b (cq' (S (S k))) then 2 ^ S k else 0))%nat.
    rewrite IHk, HS by lia. simpl pidx. destruct (get b (cq (S k))); simpl; lia.
Qed.
Lemma lidx_S l b : (l < n)%nat -> lidx (S l) b = ((if get b (tq l) then 1 else 0) + 2 * lidx l b)%nat.
Proof.
  intros Hl. unfold lidx. apply pidx_shift.
  - unfold cql, tq. lia.
  - intros i Hi. unfold cql. lia.
Qed.

Lemma walk_inv psi0 : Inv 0 psi0 -> forall l, (l <= n)%nat -> Inv l (walk l psi0).
Proof.
  intros H0. induction l as [|l IH]; intros Hl; [exact H0|].
  destruct (IH ltac:(lia)) as [Iz Ia]. cbn [walk].
  set (psi := walk l psi0) in *. set (t := tq l).
  assert (Ht : forall b', get b' t = true -> psi b' = 0).
  { intros b' Hb. apply (Iz b' t); auto. left. unfold t, tq. lia. }
  assert (Hcq : forall i, cql l i <> t) by (intros; apply cql_t; lia).
  split.
  - intros b q Hq Hg. rewrite level_on_zero by auto.
    assert (Hqt : q <> t) by (unfold t, tq; destruct Hq; lia).
    rewrite (Iz (upd b t false) q).
    + ring.
    + destruct Hq; [left | right]; lia.
    + now rewrite get_upd_other.
  - intros b Hb. rewrite level_on_zero by auto.
    rewrite (Ia (upd b t false)).
    + unfold lidx at 1. rewrite pidx_upd_t by auto. fold (lidx l b).
      rewrite lidx_S by lia. fold t. cbn [amp].
      set (j := lidx l b).
      destruct (get b t).
      * replace ((1 + 2 * j) / 2)%nat with j.
        2:{ apply Nat.div_unique with 1%nat; lia. }
        replace (Nat.odd (1 + 2 * j)) with true.
        2:{ symmetry. rewrite Nat.odd_add, Nat.odd_mul. reflexivity. }
        ring.
      * replace ((0 + 2 * j) / 2)%nat with j.
        2:{ apply Nat.div_unique with 0%nat; lia. }
        replace (Nat.odd (0 + 2 * j)) with false.
        2:{ symmetry. rewrite Nat.odd_add, Nat.odd_mul. reflexivity. }
        ring.
    + intros q Hq. destruct (Nat.eq_dec q t) as [->|Hqt].
      * apply get_upd_same.
      * rewrite get_upd_other by auto. apply Hb.
        destruct Hq; [left | right]; unfold t, tq in *; lia.
Qed.

(* start from |0...0> *)
Definition ket0 : state := fun b => if N.eqb b 0 then 1 else 0.
Lemma Inv0_ket0 : Inv 0 ket0.
Proof.
  split.
  - intros b q _ Hg. unfold ket0. destruct (N.eqb_spec b 0); auto. subst.
    rewrite Cvo_get0 in Hg. discriminate.
  - intros b Hb. unfold ket0. simpl.
    assert (b = 0%N).
    { apply asg_ext. intros q. rewrite Cvo_get0. apply Hb. unfold zero_region. lia. }
    subst. reflexivity.
Qed.

Theorem topdown_amplitudes b :
  (forall q, (n <= q)%nat -> get b q = false) ->
  walk n ket0 b = amp n (lidx n b).
Proof.
  intros Hb. destruct (walk_inv ket0 Inv0_ket0 n (le_n n)) as [_ Ia].
  apply Ia. intros q [Hq|Hq]; [lia | auto].
Qed.
End TopDown.
Print Assumptions topdown_amplitudes.
