(* Property C03 (part 2): Knill's product formula.  For orthogonal idempotents E_i = |v_i><v_i| that sum to the identity,
   prod_i (1 + (lam_i - 1) E_i) = sum_i lam_i E_i; each factor is (prepare v_i)^-1 ; phase lam_i on |0..0> ; (prepare v_i).
   The orthogonality premise is exactly what np.linalg.eig violated on degenerate spectra (repaired by the Schur basis);
   it is monitored numerically on every run.  Over any field. *)
From mathcomp Require Import all_ssreflect all_algebra.
From QV Require Import Knill IsoClose IsoPair.
Set Implicit Arguments. Unset Strict Implicit. Unset Printing Implicit Defensive.
Import GRing.Theory.
Local Open Scope ring_scope.

Theorem C03_knill_product : forall (F : fieldType) (n : nat) (E : 'I_n -> 'M[F]_n) (lam : 'I_n -> F),
  (forall i j, i != j -> E i *m E j = 0) -> (forall i, E i *m E i = E i) -> \sum_i E i = 1%:M ->
  \big[mulmx/1%:M]_(i <- enum 'I_n) factor E lam i = \sum_i lam i *: E i.
Proof. move=> F n E lam H1 H2 H3. exact: knill_product. Qed.
Print Assumptions C03_knill_product.

(* the closing step of the column-by-column scheme (see IsoClose.v) *)
Theorem C03_ccd_closing : forall (R : ringType) (N M : nat) (G Ginv D Dinv : 'M[R]_N) (V J : 'M[R]_(N, M)) (Phi : 'M[R]_M),
  Ginv *m G = 1%:M -> G *m V = J *m Phi -> Dinv *m J = J *m Phi -> (Ginv *m Dinv) *m J = V.
Proof. move=> R N M G Ginv D Dinv V J Phi H1 H2 H3. exact: (ccd_closing H1 H2 H3). Qed.
Print Assumptions C03_ccd_closing.

(* one Knill factor as a circuit: prepare^-1, phase on the basis state z, prepare *)
Theorem C03_knill_factor : forall (R : comRingType) (n : nat) (P Pinv : 'M[R]_n) (z : 'I_n) (c : R),
  P *m Pinv = 1%:M ->
  P *m (1%:M + c *: delta_mx z z) *m Pinv = 1%:M + c *: (col z P *m row z Pinv).
Proof. move=> R n P Pinv z c H. exact: knill_factor. Qed.
Print Assumptions C03_knill_factor.

(* column-by-column scheme, the zeroing step: the one-qubit gate of isometry._unitary for the pair (c1, c2) = nrm (p1, p2) with
   |p1|^2 + |p2|^2 = 1 has rows (conj p1, conj p2) and (-p2, p1) (basis = 0; swapped for basis = 1): it maps the pair to (nrm, 0) *)
Theorem C03_ccd_pair_gate : forall (F : fieldType) (conj : {rmorphism F -> F}) (p1 p2 nrm : F),
  p1 * conj p1 + p2 * conj p2 = 1 ->
  u00 conj p1 * (nrm * p1) + u01 conj p2 * (nrm * p2) = nrm /\ u10 p2 * (nrm * p1) + u11 p1 * (nrm * p2) = 0.
Proof. move=> F conj p1 p2 nrm H. exact: pair_to_first. Qed.
Print Assumptions C03_ccd_pair_gate.

Theorem C03_ccd_pair_unitary : forall (F : fieldType) (conj : {rmorphism F -> F}), (forall x, conj (conj x) = x) ->
  forall p1 p2 : F, p1 * conj p1 + p2 * conj p2 = 1 ->
  [/\ u00 conj p1 * conj (u00 conj p1) + u01 conj p2 * conj (u01 conj p2) = 1,
      u00 conj p1 * conj (u10 p2) + u01 conj p2 * conj (u11 p1) = 0,
      u10 p2 * conj (u00 conj p1) + u11 p1 * conj (u01 conj p2) = 0 &
      u10 p2 * conj (u10 p2) + u11 p1 * conj (u11 p1) = 1].
Proof. move=> F conj K p1 p2 H. exact: pair_unitary_rows. Qed.
Print Assumptions C03_ccd_pair_unitary.
