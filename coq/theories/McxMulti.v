(* C05, several targets: McxVchainDirty(k, num_target_qubit = nt) flips ALL its targets iff all controls are 1, and leaves
   every borrowed qubit as it was.  The multi-target Toffoli of mcx.py conjugates the single-target one with fans of CNOTs
   along the targets; the closing fan commutes with the second half of the chain (disjoint qubits), so the gate is
   fan_l ; (single-target V-chain on the first target) ; fan_r, and X on the head of a CNOT chain spreads to the whole chain. *)
From Coq Require Import Reals Lra List Bool Arith Lia NArith FunctionalExtensionality FinFun.
From Coquelicot Require Import Complex.
From QV Require Import Sem Mat2 Toff2 Chain Vchain Cvoqram McxModel.
Import ListNotations.
Open Scope nat_scope.

(* ---------- gates on disjoint qubits commute ---------- *)
Definition sq (g : sgate) : list nat :=
  match g with SX q => [q] | SU _ t => [t] | SCX c t => [c; t] | SMCX cs t => t :: cs end.
Definition sfun (g : sgate) : asg -> mat2 :=
  match g with
  | SX _ => fun _ => Xm | SU neg _ => fun _ => RYm (if neg then (- th)%R else th)
  | SCX c _ => fun b => Xpow (get b c) | SMCX cs _ => fun b => Xpow (allq cs b)
  end.
Definition stgt (g : sgate) : nat := match g with SX q => q | SU _ t => t | SCX _ t => t | SMCX _ t => t end.
Lemma sapp_appf g psi : sapp g psi = appf (sfun g) (stgt g) psi.
Proof. now destruct g. Qed.
Lemma sfun_indep g u : ~ In u (sq g) -> indep u (sfun g).
Proof.
  intros H b v. destruct g as [q|neg t|c t|cs t]; simpl in *; auto.
  - rewrite get_upd_other; auto.
  - unfold allq. f_equal.
    induction cs as [|a cs IH]; auto. simpl. rewrite get_upd_other by (intro E; apply H; right; left; auto).
    f_equal. apply IH. intros [E|I]; apply H; [now left | right; now right].
Qed.
Lemma appf_comm f g t u psi : t <> u -> indep u f -> indep t g ->
  appf f t (appf g u psi) = appf g u (appf f t psi).
Proof.
  intros Htu Hf Hg. apply functional_extensionality; intros b. unfold appf, app1.
  rewrite !Hf, !Hg. rewrite !(get_upd_other b t _ u), !(get_upd_other b u _ t) by auto.
  rewrite !(upd_comm b t _ u) by auto. ring.
Qed.
Definition disj (g h : sgate) : Prop := forall p, In p (sq g) -> ~ In p (sq h).
Lemma stgt_in g : In (stgt g) (sq g).
Proof. destruct g; simpl; auto. Qed.
Lemma sapp_comm g h psi : disj g h -> sapp g (sapp h psi) = sapp h (sapp g psi).
Proof.
  intros D. rewrite !sapp_appf. apply appf_comm.
  - intros E. apply (D (stgt g) (stgt_in g)). rewrite E. apply stgt_in.
  - apply sfun_indep. intro I. apply (D (stgt h)); auto. apply stgt_in.
  - apply sfun_indep. apply D, stgt_in.
Qed.
Lemma srun_comm_one g B psi : (forall h, In h B -> disj g h) -> srun B (sapp g psi) = sapp g (srun B psi).
Proof.
  revert psi. induction B as [|h B IH]; intros psi H. reflexivity.
  rewrite !srun_cons. rewrite <- IH by (intros h' Hh'; apply H; now right).
  f_equal. symmetry. apply sapp_comm. apply H. now left.
Qed.
Lemma srun_comm A B psi : (forall g h, In g A -> In h B -> disj g h) -> srun (A ++ B) psi = srun (B ++ A) psi.
Proof.
  revert psi. induction A as [|g A IH]; intros psi H. now rewrite app_nil_r.
  cbn [app]. rewrite srun_cons, IH by (intros g' h Hg Hh; apply H; auto; now right).
  rewrite !srun_app, srun_cons. f_equal. apply srun_comm_one. intros h Hh. apply H; auto. now left.
Qed.

(* ---------- classical gate lists as permutations of the basis ---------- *)
Definition cxp (c t : nat) (b : asg) : asg := if get b c then flipq t b else b.
Lemma sapp_cx c t psi : sapp (SCX c t) psi = fun b => psi (cxp c t b).
Proof.
  apply functional_extensionality; intros b. unfold sapp, appf, cxp. destruct (get b c); simpl.
  apply app1_X. apply app1_I2.
Qed.
Definition cxs (ps : list (nat * nat)) : list sgate := map (fun p => SCX (fst p) (snd p)) ps.
Definition rp (ps : list (nat * nat)) (b : asg) : asg := fold_right (fun p acc => cxp (fst p) (snd p) acc) b ps.
Lemma srun_cxs ps psi : srun (cxs ps) psi = fun b => psi (rp ps b).
Proof.
  revert psi. induction ps as [|[c t] ps IH]; intros psi. reflexivity.
  cbn [cxs map]. rewrite srun_cons, sapp_cx. fold (cxs ps). rewrite IH. reflexivity.
Qed.

(* the fans of mcx.py as lists of pairs *)
Fixpoint fanr_p (ts : list nat) : list (nat * nat) :=
  match ts with a :: ((b :: _) as r) => (a, b) :: fanr_p r | _ => [] end.
Lemma fan_r_pairs ts : fan_r ts = cxs (fanr_p ts).
Proof.
  unfold fan_r. induction ts as [|a [|b r] IH]; try reflexivity.
  cbn [length Nat.sub fanr_p cxs map] in *. rewrite Nat.sub_0_r in *.
  cbn [seq map nth fst snd]. f_equal.
  rewrite <- seq_shift, map_map. rewrite <- IH. apply map_ext. intros i. reflexivity.
Qed.
Lemma rev_seq0' m : rev (seq 0 m) = map (fun q => m - 1 - q) (seq 0 m).
Proof.
  induction m as [|m IH]. reflexivity.
  rewrite seq_S at 1. rewrite rev_app_distr. cbn [rev app]. rewrite IH. cbn [seq map].
  rewrite <- seq_shift, map_map. f_equal; try lia; try (apply map_ext; intros q; lia).
Qed.
Lemma fan_l_rev ts : fan_l ts = rev (fan_r ts).
Proof.
  unfold fan_l, fan_r. set (m := length ts - 1).
  rewrite <- map_rev, rev_seq0', map_map. apply map_ext_in. intros i Hi. apply in_seq in Hi.
  replace (length ts - 2 - i) with (m - 1 - i) by (unfold m; lia).
  replace (length ts - 1 - i) with (S (m - 1 - i)) by (unfold m; lia). reflexivity || (f_equal; f_equal; lia).
Qed.

(* ---------- X on the head of a chain of CNOTs spreads along the chain ---------- *)
Lemma cxp_invol c t b : c <> t -> cxp c t (cxp c t b) = b.
Proof.
  intros H. unfold cxp. destruct (get b c) eqn:E.
  - rewrite flq_other, E by auto. apply flipq_flipq.
  - now rewrite E.
Qed.
Lemma flipq_comm' q t b : q <> t -> flipq q (flipq t b) = flipq t (flipq q b).
Proof.
  intros H. apply asg_ext. intros x.
  destruct (Nat.eq_dec x q) as [Eq|Hq]; destruct (Nat.eq_dec x t) as [Et|Ht]; subst; try congruence;
    repeat first [rewrite flq_same | rewrite flq_other by auto]; reflexivity.
Qed.
Lemma cxp_flip_other c t q b : q <> c -> q <> t -> cxp c t (flipq q b) = flipq q (cxp c t b).
Proof.
  intros Hc Ht. unfold cxp. rewrite flq_other by auto. destruct (get b c); auto. apply flipq_comm'. auto.
Qed.
Lemma cxp_spread c t z : c <> t -> cxp c t (flipq c (cxp c t z)) = flipq c (flipq t z).
Proof.
  intros H. unfold cxp. destruct (get z c) eqn:E.
  - rewrite flq_same, flq_other, E by auto. reflexivity.
  - rewrite flq_same, E. cbn [negb]. apply flipq_comm'. auto.
Qed.
Lemma rp_app l1 l2 b : rp (l1 ++ l2) b = rp l1 (rp l2 b).
Proof. unfold rp. now rewrite fold_right_app. Qed.
Lemma rp_flip_other ps q b : (forall p, In p ps -> q <> fst p /\ q <> snd p) -> rp ps (flipq q b) = flipq q (rp ps b).
Proof.
  induction ps as [|[c t] ps IH]; intros H. reflexivity.
  simpl. rewrite IH by (intros p Hp; apply H; now right).
  destruct (H (c, t) (or_introl eq_refl)) as [Hc Ht]. now apply cxp_flip_other.
Qed.
Lemma rp_get_other ps b p : (forall pr, In pr ps -> p <> snd pr) -> get (rp ps b) p = get b p.
Proof.
  induction ps as [|[c t] ps IH]; intros H. reflexivity.
  simpl. unfold cxp. destruct (get (rp ps b) c).
  - rewrite flq_other by (apply (H (c, t)); now left). apply IH. intros pr Hpr. apply H. now right.
  - apply IH. intros pr Hpr. apply H. now right.
Qed.
Lemma fanr_in ts pr : In pr (fanr_p ts) -> In (fst pr) ts /\ In (snd pr) ts.
Proof.
  revert pr. induction ts as [|a [|b r] IH]; intros pr H; simpl in H; try tauto.
  destruct H as [<-|H]. simpl. auto.
  destruct (IH pr H) as [H1 H2]. split; now right.
Qed.
Lemma flips_out l : forall q b, ~ In q l -> flipq q (flips l b) = flips l (flipq q b).
Proof.
  induction l as [|x l IH]; intros q b H; simpl. reflexivity.
  rewrite IH by (intro E; apply H; now right). f_equal. apply flipq_comm'. intro E. apply H. left. auto.
Qed.

Lemma fan_spread : forall ts, NoDup ts -> forall b,
  rp (rev (fanr_p ts)) (rp (fanr_p ts) b) = b /\
  (forall t0 r, ts = t0 :: r -> rp (rev (fanr_p ts)) (flipq t0 (rp (fanr_p ts) b)) = flips ts b).
Proof.
  induction ts as [|t0 [|t1 r] IH]; intros Hn b.
  - split. reflexivity. intros; discriminate.
  - split. reflexivity. intros t r E. injection E as <- <-. reflexivity.
  - inversion Hn as [|? ? H0 Hn']; subst.
    assert (H01 : t0 <> t1) by (intro E; apply H0; left; auto).
    destruct (IH Hn' b) as [IHa IHb].
    assert (Hout : forall p, In p (rev (fanr_p (t1 :: r))) -> t0 <> fst p /\ t0 <> snd p).
    { intros p Hp. apply in_rev in Hp. destruct (fanr_in _ _ Hp) as [H1 H2]. split; intros E; apply H0; now rewrite E. }
    change (fanr_p (t0 :: t1 :: r)) with ((t0, t1) :: fanr_p (t1 :: r)).
    cbn [rev]. split.
    + rewrite !rp_app. cbn [rp fold_right fst snd]. fold (rp (fanr_p (t1 :: r)) b).
      rewrite cxp_invol by auto. exact IHa.
    + intros t r' E. injection E as <- <-.
      rewrite !rp_app. cbn [rp fold_right fst snd]. fold (rp (fanr_p (t1 :: r)) b).
      rewrite cxp_spread by auto. fold (rp (rev (fanr_p (t1 :: r)))). rewrite rp_flip_other by exact Hout.
      rewrite (IHb t1 r eq_refl). change (flips (t0 :: t1 :: r) b) with (flips (t1 :: r) (flipq t0 b)).
      apply flips_out. exact H0.
Qed.

(* ---------- the V-chain with nt targets ---------- *)
Section Multi.
Variable j : nat.
Let k := j + 3.
Let na := j + 1.
Variable nt : nat.
Hypothesis nt_pos : 1 <= nt.

Definition bnd (B : nat) (g : sgate) : Prop := forall p, In p (sq g) -> p < B.
Lemma bnd_toffoli cn c0 c1 t B : c0 < B -> c1 < B -> t < B -> Forall (bnd B) (toffoli cn c0 c1 t).
Proof.
  intros H0 H1 Ht. unfold toffoli. repeat rewrite Forall_app. repeat split; destruct cn; repeat constructor;
    intros p Hp; simpl in Hp; intuition subst; auto.
Qed.
Lemma chain_bounded : Forall (bnd (k + na)) (chain_gates j).
Proof.
  unfold chain_gates, TRs, TLs. rewrite !Forall_app. repeat split.
  - apply Forall_flat_map. apply Forall_forall. intros i Hi. apply in_seq in Hi.
    apply bnd_toffoli; unfold cq0, aq0, k, na; lia.
  - apply bnd_toffoli; unfold cq0, aq0, k, na; lia.
  - apply Forall_flat_map. apply Forall_forall. intros i Hi. apply in_seq in Hi.
    apply bnd_toffoli; unfold cq0, aq0, k, na; lia.
Qed.

Let ts := targets j nt.
Lemma ts_head : nth 0 ts 0 = k + na.
Proof. unfold ts, targets. destruct nt; [lia|]. simpl. fold k. fold na. lia. Qed.
Lemma ts_ge p : In p ts -> k + na <= p.
Proof. unfold ts, targets. intros H. apply in_map_iff in H as [m [<- _]]. fold k. fold na. lia. Qed.
Lemma ts_nodup : NoDup ts.
Proof. unfold ts, targets. apply Injective_map_NoDup. intros a b E; lia. apply seq_NoDup. Qed.
Lemma ts_cons : exists r, ts = (k + na) :: r.
Proof.
  unfold ts, targets. destruct nt as [|m]; [lia|]. exists (map (fun m0 => j + 3 + (j + 1) + m0) (seq 1 m)).
  simpl. fold k. fold na. f_equal. lia.
Qed.

Theorem vchain_multi_exact psi b :
  srun (general j nt false false) psi b
  = psi (if all_controls j b then flips ts b else b).
Proof.
  assert (G1 : general j 1 false false
               = [SMCX [cq0 (k - 1); aq0 j (na - 1)] (k + na)] ++ chain_gates j
                 ++ [SMCX [cq0 (k - 1); aq0 j (na - 1)] (k + na)] ++ chain_gates j).
  { unfold general, first_gate, toffoli_mt, targets, fan_l, fan_r. cbn [seq map length Nat.sub app nth].
    fold k. fold na. replace (k + na + 0) with (k + na) by lia. reflexivity. }
  assert (E : srun (general j nt false false) psi = srun (fan_l ts ++ general j 1 false false ++ fan_r ts) psi).
  { rewrite G1. unfold general, first_gate, toffoli_mt. fold ts. fold k. fold na. rewrite ts_head.
    rewrite <- !app_assoc. rewrite !srun_app.
    rewrite <- (srun_app (fan_r ts) (chain_gates j)), <- (srun_app (chain_gates j) (fan_r ts)). apply srun_comm.
    intros g h Hg Hh p Hp Hq.
    assert (P1 : k + na <= p).
    { rewrite fan_r_pairs in Hg. apply in_map_iff in Hg as [pr [<- Hpr]]. destruct (fanr_in _ _ Hpr) as [A B].
      simpl in Hp. destruct Hp as [<-|[<-|[]]]; now apply ts_ge. }
    assert (P2 : p < k + na).
    { pose proof chain_bounded as CB. rewrite Forall_forall in CB. now apply (CB h Hh). }
    lia. }
  rewrite E, !srun_app.
  rewrite fan_r_pairs, srun_cxs.
  rewrite vchain_general_exact.
  rewrite fan_l_rev, fan_r_pairs. unfold cxs. rewrite <- map_rev. fold (cxs (rev (fanr_p ts))). rewrite srun_cxs.
  set (z := rp (fanr_p ts) b).
  assert (AC : all_controls j z = all_controls j b).
  { unfold all_controls.
    unfold z. fold k.
    assert (H : forall c, In c (seq 0 k) -> get (rp (fanr_p ts) b) c = get b c).
    { intros c Hc. apply in_seq in Hc. apply rp_get_other. intros pr Hpr Ec.
      destruct (fanr_in _ _ Hpr) as [_ Hs]. apply ts_ge in Hs. lia. }
    induction (seq 0 k) as [|c l IH]; auto. simpl. rewrite H by (now left). f_equal. apply IH. intros; apply H; now right. }
  rewrite AC. destruct (fan_spread ts ts_nodup b) as [Fa Fb].
  destruct (all_controls j b).
  - destruct ts_cons as [r Er]. fold z in Fb.
    replace (j + 3 + (j + 1)) with (k + na) by (unfold k, na; lia).
    f_equal. unfold z. exact (Fb (k + na) r Er).
  - f_equal. exact Fa.
Qed.
End Multi.

(* ---------- every control pattern ---------- *)
From QV Require Import LinearMcx.
Lemma xflip_flips pat k l : (forall q, In q l -> k <= q) -> forall b, xflip pat k (flips l b) = flips l (xflip pat k b).
Proof.
  induction l as [|q l IH]; intros H b. reflexivity.
  cbn [flips]. rewrite IH by (intros; apply H; now right). f_equal. apply xflip_flipq. apply H. now left.
Qed.

Theorem vchain_multi_pattern j nt pat psi b : 1 <= nt -> (1 <= j \/ 2 <= nt) ->
  srun (vchain (j + 3) nt pat false false) psi b
  = psi (if pmatch pat (j + 3) b then flips (targets j nt) b else b).
Proof.
  intros Hnt Hsp. unfold vchain. replace (j + 3) with (S (S (S j))) at 2 by lia. cbn [negb andb].
  assert (E : (j =? 0) && (nt <? 2) = false).
  { destruct Hsp as [H|H]. rewrite (proj2 (Nat.eqb_neq j 0)) by lia. reflexivity.
    rewrite (proj2 (Nat.ltb_ge nt 2)) by lia. apply andb_false_r. }
  rewrite E.
  rewrite !srun_app, xs_sem, (vchain_multi_exact j nt Hnt), xs_sem. unfold all_controls.
  replace (j + 3) with (j + 3) by reflexivity. rewrite pmatch_xflip.
  destruct (pmatch pat (j + 3) b).
  - rewrite <- xflip_flips. now rewrite xflip_invol.
    intros q Hq. unfold targets in Hq. apply in_map_iff in Hq as [m [<- _]]. lia.
  - now rewrite xflip_invol.
Qed.
