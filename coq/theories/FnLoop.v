(* C18: the gate list FnPointsModel.fn_gates, run from |0..0>, leaves amplitude -(1/sqrt m) e^{2 pi i s / N'} on every
   listed input (x register), zero elsewhere, all work qubits back in |0> - for every n >= 2, every non-empty list of
   pairwise distinct n-bit inputs in any order, every output assignment and every N'. *)
From Coq Require Import Reals Lra List Bool Arith Lia NArith ZArith FunctionalExtensionality.
From Coquelicot Require Import Complex.
From QV Require Import Sem Mat2 Toff2 Chain Vchain Cvoqram TopDownWalk FnPointsModel FnSem FnBits.
Import ListNotations.
Open Scope nat_scope.

(* pairwise relations on lists *)
Fixpoint pw {A} (R : A -> A -> Prop) (l : list A) : Prop :=
  match l with [] => True | a :: r => Forall (R a) r /\ pw R r end.
Lemma pw_app {A} (R : A -> A -> Prop) l1 l2 :
  pw R l1 -> pw R l2 -> Forall (fun a => Forall (R a) l2) l1 -> pw R (l1 ++ l2).
Proof.
  induction l1 as [|a l1 IH]; simpl; intros H1 H2 H12; auto.
  destruct H1 as [Ha H1]. inversion H12; subst. split.
  - apply Forall_app. split; auto.
  - apply IH; auto.
Qed.
Lemma pw_rev {A} (R : A -> A -> Prop) l : (forall a b, R a b -> R b a) -> pw R l -> pw R (rev l).
Proof.
  intros Sym. induction l as [|a l IH]; simpl; auto. intros [Ha Hl].
  apply pw_app; auto. simpl; auto.
  apply Forall_forall. intros b Hb. constructor; auto. apply Sym.
  rewrite Forall_forall in Ha. apply Ha. now apply in_rev.
Qed.

Section Loop.
Variable n : nat.
Hypothesis Hn : 2 <= n.
Variable Nv : R.
Notation c0 := (c0 n).
Notation c1 := (c1 n).
Notation E := (E n).
Notation eqx := (eqx n).

Lemma andz_sym x z i : andz x z i = andz z x i.
Proof.
  unfold andz.
  induction (seq 0 (S i)) as [|j l IH]; simpl; auto. rewrite IH. f_equal.
  destruct (bit x j), (bit z j); reflexivity.
Qed.
Lemma andz_refl x i : andz x x i = true.
Proof.
  unfold andz. apply forallb_forall. intros j _. apply eqb_reflx.
Qed.

(* ---------- structural facts about the gate list ---------- *)
Lemma classical_fan z0 z js : forallb classical (fan n z0 z js) = true.
Proof.
  induction js as [|j js IH]; auto. unfold fan in *. cbn [flat_map]. rewrite forallb_app, IH.
  now destruct (xorb (bit z0 j) (bit z j)).
Qed.
Lemma classical_ff z : forallb classical (ff n z) = true.
Proof. unfold ff. now destruct (bit z 0), (bit z 1). Qed.
Lemma classical_ladder z ks : forallb classical (flat_map (ladder_step n z) ks) = true.
Proof.
  induction ks as [|k ks IH]; auto. cbn [flat_map]. rewrite forallb_app, IH.
  unfold ladder_step. now destruct (bit z k).
Qed.
Lemma classical_genblock z0 z : forallb classical (genblock n z0 z) = true.
Proof. unfold genblock. rewrite !forallb_app, classical_fan. reflexivity. Qed.
Lemma classical_resetblock z : forallb classical (resetblock n z) = true.
Proof.
  unfold resetblock, headblock. rewrite !forallb_app, !classical_ff, !classical_ladder. reflexivity.
Qed.

Lemma wf_fan z0 z js : Forall wfg (fan n z0 z js).
Proof.
  unfold fan. apply Forall_flat_map. apply Forall_forall. intros j _.
  destruct (xorb (bit z0 j) (bit z j)); constructor; auto. simpl. unfold FnPointsModel.c1, rx. lia.
Qed.
Lemma wf_ff z : Forall wfg (ff n z).
Proof. unfold ff. destruct (bit z 0), (bit z 1); repeat constructor. Qed.
Lemma wf_head z : Forall wfg (headblock n z).
Proof.
  unfold headblock. rewrite !Forall_app. repeat split; try apply wf_ff.
  constructor; auto. simpl. unfold rx, g. lia.
Qed.
Lemma wf_ladder z ks : (forall k, In k ks -> 2 <= k) -> Forall wfg (flat_map (ladder_step n z) ks).
Proof.
  intros H. apply Forall_flat_map. apply Forall_forall. intros k Hk. apply H in Hk.
  unfold ladder_step. destruct (bit z k); repeat constructor; simpl; unfold rx, g; lia.
Qed.
Lemma wf_point z0 z idx s : Forall wfg (point n z0 z idx s).
Proof.
  rewrite (point_blocks n). unfold genblock, resetblock. rewrite !Forall_app.
  repeat split; try apply wf_fan; try apply wf_head.
  - repeat constructor.
  - repeat constructor; simpl; unfold FnPointsModel.c1, FnPointsModel.c0; lia.
  - repeat constructor; simpl; unfold FnPointsModel.c1, FnPointsModel.c0; lia.
  - apply wf_ladder. intros k Hk. apply in_seq in Hk. lia.
  - repeat constructor; simpl; unfold g, FnPointsModel.c0; lia.
  - apply wf_ladder. intros k Hk. apply in_rev, in_seq in Hk. lia.
Qed.
Lemma wf_points : forall pl z0, Forall wfg (points n z0 pl).
Proof.
  induction pl as [|[idx [z s]] pl IH]; intros z0; cbn [points]. constructor.
  apply Forall_app. split. apply wf_point. apply IH.
Qed.
Lemma wf_fn_gates ps : Forall wfg (fn_gates n ps).
Proof. unfold fn_gates. apply Forall_app. split. apply wf_points. repeat constructor. Qed.

Lemma get_c0_E x a b : get (E x a b) c0 = a. Proof. apply (get_c0 n Hn). Qed.
Lemma get_c1_E x a b : get (E x a b) c1 = b. Proof. apply (get_c1 n Hn). Qed.
Lemma upd_c1_E x a b v : upd (E x a b) c1 v = E x a v. Proof. apply (upd_c1 n Hn). Qed.
Lemma flip_c1_E x a b : flipq c1 (E x a b) = E x a (negb b). Proof. apply (flip_c1 n Hn). Qed.

(* ---------- one point ---------- *)
Definition savedok (z : list bool) (e : entry) : Prop := exists zq, snd e = E zq false true /\ eqx zq z = false.

Lemma map_fix (f : asg -> asg) (l : list entry) : Forall (fun e => f (snd e) = snd e) l ->
  map (fun e => (fst e, f (snd e))) l = l.
Proof.
  induction 1 as [|[a B] l H _ IH]; simpl; auto. simpl in H. now rewrite H, IH.
Qed.
Lemma flat_fix (f : entry -> list entry) (l : list entry) : Forall (fun e => f e = [e]) l -> flat_map f l = l.
Proof. induction 1 as [|e l H _ IH]; simpl; auto. now rewrite H, IH. Qed.

Lemma point_sim z0 z idx s gen saved : Forall (savedok z) saved ->
  sim Nv (point n z0 z idx s) ((gen, E z0 false false) :: saved)
  = ((m00 (Umat Nv idx s) * gen)%C, E z false false) :: ((m10 (Umat Nv idx s) * gen)%C, E z false true) :: saved.
Proof.
  intros Hs. rewrite (point_blocks n), !sim_app.
  (* generator move *)
  rewrite (sim_classical Nv (genblock n z0 z)) by apply classical_genblock.
  cbn [map fst snd]. rewrite (genblock_gen n Hn). cbn [negb].
  rewrite map_fix.
  2:{ eapply Forall_impl; [|exact Hs]. intros e [zq [Eq _]]. rewrite Eq. apply (genblock_saved n Hn). }
  (* S matrix *)
  unfold sim at 2. cbn [fold_left sim1 flat_map]. rewrite flat_fix.
  2:{ eapply Forall_impl; [|exact Hs]. intros e [zq [Eq _]]. unfold split. rewrite Eq.
      now rewrite get_c0_E. }
  unfold split at 1. cbn [fst snd]. rewrite get_c0_E, get_c1_E, !upd_c1_E.
  cbn [mget app].
  (* comparison ladder and flag reset *)
  rewrite (sim_classical Nv (resetblock n z)) by apply classical_resetblock.
  cbn [map fst snd]. rewrite !(reset_E n Hn).
  unfold FnBits.eqx. rewrite !andz_refl. cbn [xorb].
  rewrite map_fix; [reflexivity|].
  eapply Forall_impl; [|exact Hs]. intros e [zq [Eq Hz]]. rewrite Eq, (reset_E n Hn), Hz. reflexivity.
Qed.

(* ---------- all points ---------- *)
Fixpoint run_pts (pl : list (nat * (list bool * Z))) (gen : C) (z0 : list bool) (saved : list entry) : list entry :=
  match pl with
  | [] => (gen, E z0 false false) :: saved
  | (idx, (z, s)) :: rest =>
      run_pts rest (m00 (Umat Nv idx s) * gen)%C z (((m10 (Umat Nv idx s) * gen)%C, E z false true) :: saved)
  end.
Definition Rd (z z' : list bool) : Prop := eqx z z' = false.
Fixpoint cond (pl : list (nat * (list bool * Z))) (zs : list (list bool)) : Prop :=
  match pl with
  | [] => True
  | (_, (z, _)) :: rest => Forall (fun zq => Rd zq z) zs /\ cond rest (z :: zs)
  end.

Lemma points_sim : forall pl z0 gen saved zs,
  Forall2 (fun zq e => snd e = E zq false true) zs saved -> cond pl zs ->
  sim Nv (points n z0 pl) ((gen, E z0 false false) :: saved) = run_pts pl gen z0 saved.
Proof.
  induction pl as [|[idx [z s]] pl IH]; intros z0 gen saved zs HS HC. reflexivity.
  cbn [points run_pts]. rewrite sim_app. destruct HC as [Hz HC].
  rewrite point_sim.
  - apply (IH z _ _ (z :: zs)); auto.
  - clear - HS Hz. induction HS as [|zq e zs saved He _ IH]; constructor.
    + inversion Hz; subst. exists zq. split; auto.
    + inversion Hz; subst. auto.
Qed.

Definition zsof (pl : list (nat * (list bool * Z))) : list (list bool) := map (fun p => fst (snd p)) pl.
Lemma cond_pw : forall pl zs, pw Rd (zsof pl) -> Forall (fun z => Forall (fun zq => Rd zq z) zs) (zsof pl) -> cond pl zs.
Proof.
  induction pl as [|[idx [z s]] pl IH]; intros zs HP HF; simpl; auto.
  simpl in HP, HF. destruct HP as [Hz HP]. inversion HF; subst. split; auto.
  apply IH; auto.
  rewrite Forall_forall in *. intros z' Hz'. constructor; auto.
Qed.

(* ---------- amplitudes ---------- *)
Lemma cos_half p : cos (ftheta p / 2) = sqrt (INR p / (INR p + 1)).
Proof.
  unfold ftheta. replace (-2 * acos (sqrt (INR p / (INR p + 1))) / 2)%R
    with (- (2 * acos (sqrt (INR p / (INR p + 1))) / 2))%R by field.
  rewrite cos_neg. apply fn_theta. apply pos_INR.
Qed.
Lemma sin_half p : sin (ftheta p / 2) = (- sqrt (1 / (INR p + 1)))%R.
Proof.
  unfold ftheta. replace (-2 * acos (sqrt (INR p / (INR p + 1))) / 2)%R
    with (- (2 * acos (sqrt (INR p / (INR p + 1))) / 2))%R by field.
  rewrite sin_neg. f_equal. apply fn_theta. apply pos_INR.
Qed.

Variable M : R.
Hypothesis HM : (0 < M)%R.
Definition amp (s : Z) : C := (- RtoC (sqrt (1 / M)) * cis (fphi Nv s))%C.

Lemma gen_step k s : (m00 (Umat Nv k s) * RtoC (sqrt (INR (S k) / M)))%C = RtoC (sqrt (INR k / M)).
Proof.
  unfold Umat. cbn [m00]. rewrite cos_half, S_INR, <- RtoC_mult. f_equal.
  apply fn_split; auto. apply pos_INR.
Qed.
Lemma save_step k s : (m10 (Umat Nv k s) * RtoC (sqrt (INR (S k) / M)))%C = amp s.
Proof.
  unfold Umat, amp. cbn [m10]. rewrite sin_half, S_INR.
  destruct (fn_split (INR k) M (pos_INR k) HM) as [_ H2]. rewrite <- H2.
  rewrite RtoC_mult. unfold RtoC at 1. apply injective_projections; simpl; ring.
Qed.

Lemma combine_seq_snoc {A} (ps : list A) (p : A) a :
  combine (seq a (length (ps ++ [p]))) (ps ++ [p]) = combine (seq a (length ps)) ps ++ [(a + length ps, p)].
Proof.
  revert a. induction ps as [|q ps IH]; intros a; simpl. now rewrite Nat.add_0_r.
  rewrite IH. replace (S a + length ps) with (a + S (length ps)) by lia. reflexivity.
Qed.

Lemma run_closed : forall (ps : list (list bool * Z)) z0 saved,
  run_pts (rev (combine (seq 0 (length ps)) ps)) (RtoC (sqrt (INR (length ps) / M))) z0 saved
  = (RtoC (sqrt (INR 0 / M)), E (match ps with [] => z0 | p :: _ => fst p end) false false)
    :: map (fun p => (amp (snd p), E (fst p) false true)) ps ++ saved.
Proof.
  induction ps as [|[z s] ps IH] using rev_ind; intros z0 saved. reflexivity.
  rewrite combine_seq_snoc, rev_app_distr. cbn [rev app run_pts]. rewrite Nat.add_0_l.
  rewrite app_length. cbn [length]. replace (length ps + 1) with (S (length ps)) by lia.
  rewrite gen_step, save_step, IH. rewrite map_app, <- app_assoc. cbn [map app fst snd].
  destruct ps as [|p ps]; reflexivity.
Qed.

Lemma zsof_rev_combine (ps : list (list bool * Z)) :
  zsof (rev (combine (seq 0 (length ps)) ps)) = rev (map fst ps).
Proof.
  unfold zsof. rewrite map_rev. f_equal.
  generalize 0. induction ps as [|p ps IH]; intros a; simpl; auto. now rewrite IH.
Qed.

Lemma E_zero : E (repeat false n) false false = 0%N.
Proof.
  apply asg_ext. intros q. unfold FnBits.E. rewrite (get_Eg n Hn), get_0. unfold ebits.
  destruct (q <? n).
  - unfold bit. apply nth_repeat.
  - destruct (q <? 2 * n - 1); auto. destruct (q =? 2 * n - 1); auto. destruct (q =? 2 * n); auto.
Qed.
Lemma ket0_den : ket0 = den [(RtoC 1, 0%N)].
Proof.
  apply functional_extensionality; intros b. unfold ket0. simpl. unfold delta.
  destruct (N.eqb b 0); simpl; apply injective_projections; simpl; ring.
Qed.
End Loop.

Theorem fn_state (n : nat) (Nv : R) (ps : list (list bool * Z)) : 2 <= n -> ps <> [] ->
  pw (fun z z' => eqx n z z' = false) (map fst ps) ->
  forall b, frun Nv (fn_gates n ps) ket0 b
  = den (map (fun p => ((- RtoC (sqrt (1 / INR (length ps))) * cis (fphi Nv (snd p)))%C, E n (fst p) false false)) ps) b.
Proof.
  intros Hn Hne Hd b.
  assert (HM : (0 < INR (length ps))%R) by (apply lt_0_INR; destruct ps; simpl; [congruence|lia]).
  rewrite ket0_den, (sim_sound Nv _ (wf_fn_gates n Hn ps)).
  unfold fn_gates. rewrite sim_app. rewrite <- (E_zero n Hn).
  rewrite (points_sim n Hn Nv _ _ _ [] []).
  - assert (G1 : RtoC 1 = RtoC (sqrt (INR (length ps) / INR (length ps)))).
    { f_equal. unfold Rdiv. rewrite Rinv_r by lra. now rewrite sqrt_1. }
    rewrite G1, (run_closed n Hn Nv (INR (length ps)) HM). rewrite app_nil_r.
    unfold sim. cbn [fold_left sim1 map fst snd fperm]. rewrite (flip_c1_E n Hn).
    rewrite map_map. cbn [den fst snd negb].
    replace (INR 0 / INR (length ps))%R with 0%R by (simpl; unfold Rdiv; ring). rewrite sqrt_0.
    rewrite Cmult_0_l, Cplus_0_l.
    f_equal. apply map_ext. intros [z s]. cbn [fst snd]. rewrite (flip_c1_E n Hn). reflexivity.
  - constructor.
  - apply cond_pw.
    + rewrite zsof_rev_combine. apply pw_rev; auto.
      intros z z' H. unfold Rd, FnBits.eqx in *. now rewrite andz_sym.
    + apply Forall_forall. intros z _. constructor.
Qed.

Lemma E_bits (n : nat) (z : list bool) (q : nat) : 2 <= n ->
  get (E n z false false) q = if q <? n then bit z (n - 1 - q) else false.
Proof.
  intros Hn. unfold E. rewrite (get_Eg n Hn). unfold ebits.
  destruct (q <? n); auto. destruct (q <? 2 * n - 1); auto. destruct (q =? 2 * n - 1); auto. destruct (q =? 2 * n); auto.
Qed.
Lemma ex_pw : pw (fun z z' => eqx 2 z z' = false) (map fst [([false; true], 1%Z); ([true; true], 0%Z); ([false; false], 3%Z)]).
Proof. simpl. repeat split; repeat constructor. Qed.
