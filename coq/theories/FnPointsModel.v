(* C18: executable gate-list model of FnPointsInitialize._define_initialize and the amplitude bookkeeping of its
   S-matrix.  Layout: x register 0..n-1 (used reversed: rx j = n-1-j), g register n..2n-2, c0 = 2n-1, c1 = 2n. *)
From Coq Require Import List Bool Arith ZArith Lia Reals Lra.
Import ListNotations.
Open Scope nat_scope.

Inductive fgate := FX (q : nat) | FCX (c t : nat) | FCCX (a b t : nat)
  | FCU (idx_p : nat) (s : Z) (c t : nat).     (* cu(-2 acos sqrt(p/(p+1)), 2 pi s/N, -2 pi s/N, 0) *)

Section Model.
Variable n : nat.
Definition rx (j : nat) := n - 1 - j.
Definition g (k : nat) := n + k.
Definition c0 := 2 * n - 1.
Definition c1 := 2 * n.
Definition bit (z : list bool) (j : nat) := nth j z false.
Definition ff (z : list bool) : list fgate :=
  (if bit z 0 then [] else [FX (rx 0)]) ++ (if bit z 1 then [] else [FX (rx 1)]).
Definition ladder_step (z : list bool) (k : nat) : list fgate :=
  let xk := if bit z k then [] else [FX (rx k)] in xk ++ [FCCX (rx k) (g (k - 2)) (g (k - 1))] ++ xk.
Definition point (z0 z : list bool) (idx : nat) (s : Z) : list fgate :=
  [FX c1] ++ flat_map (fun j => if xorb (bit z0 j) (bit z j) then [FCX c1 (rx j)] else []) (seq 0 n)
  ++ [FCX c1 c0; FX c1; FCU idx s c0 c1]
  ++ ff z ++ [FCCX (rx 0) (rx 1) (g 0)] ++ ff z
  ++ flat_map (ladder_step z) (seq 2 (n - 2))
  ++ [FCX (g (n - 2)) c0]
  ++ flat_map (ladder_step z) (rev (seq 2 (n - 2)))
  ++ ff z ++ [FCCX (rx 0) (rx 1) (g 0)] ++ ff z.
(* points are processed in REVERSE dictionary order; idx = position in the dictionary *)
Fixpoint points (z0 : list bool) (ps : list (nat * (list bool * Z))) : list fgate :=
  match ps with
  | [] => []
  | (idx, (z, s)) :: rest => point z0 z idx s ++ points z rest
  end.
Definition fn_gates (ps : list (list bool * Z)) : list fgate :=
  points (repeat false n) (rev (combine (seq 0 (length ps)) ps)) ++ [FX c1].
End Model.

(* amplitude bookkeeping of the S matrix: with cos^2(theta/2) = p/(p+1), a generator amplitude sqrt((p+1)/m) splits
   into a stored amplitude of modulus 1/sqrt(m) and a remaining generator amplitude sqrt(p/m) *)
Open Scope R_scope.
Lemma fn_theta p : 0 <= p -> cos (2 * acos (sqrt (p / (p + 1))) / 2) = sqrt (p / (p + 1))
                            /\ sin (2 * acos (sqrt (p / (p + 1))) / 2) = sqrt (1 / (p + 1)).
Proof.
  intros Hp. replace (2 * acos (sqrt (p / (p + 1))) / 2) with (acos (sqrt (p / (p + 1)))) by field.
  assert (H0 : 0 <= p / (p + 1)) by (apply Rmult_le_pos; [lra | left; apply Rinv_0_lt_compat; lra]).
  assert (H1 : p / (p + 1) <= 1).
  { apply (Rmult_le_reg_r (p + 1)); [lra|]. unfold Rdiv. rewrite Rmult_assoc, Rinv_l; lra. }
  assert (S0 : 0 <= sqrt (p / (p + 1))) by apply sqrt_pos.
  assert (S1 : sqrt (p / (p + 1)) <= sqrt 1) by (apply sqrt_le_1_alt; lra). rewrite sqrt_1 in S1.
  split. apply cos_acos; lra.
  rewrite sin_acos by lra. f_equal. unfold Rsqr. rewrite sqrt_sqrt by lra. field. lra.
Qed.
Lemma fn_split p m : 0 <= p -> 0 < m ->
  sqrt (p / (p + 1)) * sqrt ((p + 1) / m) = sqrt (p / m) /\ sqrt (1 / (p + 1)) * sqrt ((p + 1) / m) = sqrt (1 / m).
Proof.
  intros Hp Hm.
  assert (A : 0 <= p / (p + 1)) by (apply Rmult_le_pos; [lra | left; apply Rinv_0_lt_compat; lra]).
  assert (B : 0 <= (p + 1) / m) by (apply Rmult_le_pos; [lra | left; apply Rinv_0_lt_compat; lra]).
  assert (C : 0 <= 1 / (p + 1)) by (apply Rmult_le_pos; [lra | left; apply Rinv_0_lt_compat; lra]).
  split; rewrite <- sqrt_mult by auto; f_equal; field; lra.
Qed.
