From Coq Require Import Reals Lra List Bool Arith Lia NArith FunctionalExtensionality.
From Coquelicot Require Import Complex.
From QV Require Import Sem Mat2 Toff2 Chain.
Import ListNotations.
Open Scope R_scope.

(* exact Toffoli as an operator *)
Definition ccx (c1 c2 t : nat) (psi : state) : state :=
  appf (fun b => Xpow (get b c1 && get b c2)) t psi.
Lemma ccx_sem c1 c2 t psi b :
  ccx c1 c2 t psi b = psi (if get b c1 && get b c2 then flipq t b else b).
Proof. unfold ccx, appf. destruct (get b c1 && get b c2); simpl. apply app1_X. apply app1_I2. Qed.

Section VChain.
Variables cq aq : nat -> nat.
Variable tq : nat.
Hypothesis cq_aq : forall i j, cq i <> aq j.
Hypothesis aq_inj : forall i j, aq i = aq j -> i = j.
Hypothesis tq_c : forall i, tq <> cq i.
Hypothesis tq_a : forall i, tq <> aq i.

Notation chain := (chain cq aq).
Notation cperm := (cperm cq aq).
Notation csign := (csign cq aq).
Notation isX := (isX cq).
Notation isZ := (isZ cq).
Notation allc := (allc cq).

(* one round with top ancilla index j (so j+1 ancillas, j+3 controls): ccx(c_{j+2}, a_j -> t) ; chain j *)
Definition round (j : nat) (psi : state) : state :=
  trun (chain j) (ccx (cq (S (S j))) (aq j) tq psi).

(* ---- facts about cperm / csign ---- *)
Lemma flipq_get_other q b x : x <> q -> get (flipq q b) x = get b x.
Proof. intros; unfold flipq; now apply get_upd_other. Qed.
Lemma flipq_get_same q b : get (flipq q b) q = negb (get b q).
Proof. unfold flipq; apply get_upd_same. Qed.
Lemma flipq_flipq q b : flipq q (flipq q b) = b.
Proof.
  unfold flipq. rewrite get_upd_same, upd_upd, negb_involutive. apply upd_get.
Qed.

Lemma allc_flip_t m b : allc m (flipq tq b) = allc m b.
Proof. induction m; simpl; rewrite ?IHm, flipq_get_other; auto. Qed.
Lemma allc_cperm m j b : allc m (cperm j b) = allc m b.
Proof. apply Chain.allc_cperm; auto. Qed.


Lemma cperm_get_a j : forall i b, (i <= j)%nat ->
  get (cperm j b) (aq i) = xorb (get b (aq i)) (isX i b).
Proof.
  induction j; intros i b Hi.
  - assert (i = 0)%nat by lia; subst. apply cperm_get_top; auto.
  - destruct (Nat.eq_dec i (S j)) as [->|Hne].
    + apply cperm_get_top; auto.
    + cbn [Chain.cperm]. destruct (Chain.isX cq (S j) b).
      * rewrite flipq_get_other by (intros E; apply aq_inj in E; lia). apply IHj; lia.
      * apply IHj; lia.
Qed.
Lemma cperm_get_o j b q : (forall i, (i <= j)%nat -> q <> aq i) -> get (cperm j b) q = get b q.
Proof. apply Chain.cperm_get; auto. Qed.

Lemma aq_dec j q : {i | (i <= j)%nat /\ q = aq i} + {forall i, (i <= j)%nat -> q <> aq i}.
Proof.
  induction j.
  - destruct (Nat.eq_dec q (aq 0)) as [E|E]; [left; exists 0%nat; auto|right].
    intros i Hi. assert (i = 0)%nat by lia. now subst.
  - destruct IHj as [[i [Hi E]]|H]; [left; exists i; split; auto|].
    destruct (Nat.eq_dec q (aq (S j))) as [E|E]; [left; exists (S j); auto|right].
    intros i Hi. destruct (Nat.eq_dec i (S j)); subst; auto. apply H; lia.
Qed.

Lemma isX_flip_t i b : isX i (flipq tq b) = isX i b.
Proof. apply allc_flip_t. Qed.
Lemma isX_cperm i j b : isX i (cperm j b) = isX i b.
Proof. apply allc_cperm. Qed.

Lemma cperm_flip_t j b : cperm j (flipq tq b) = flipq tq (cperm j b).
Proof.
  apply asg_ext; intros q. destruct (aq_dec j q) as [[i [Hi ->]]|H].
  - rewrite cperm_get_a, isX_flip_t by auto.
    rewrite !flipq_get_other by (intros E; symmetry in E; revert E; apply tq_a).
    now rewrite cperm_get_a.
  - rewrite cperm_get_o by auto. destruct (Nat.eq_dec q tq) as [->|Hq].
    + rewrite !flipq_get_same. now rewrite cperm_get_o.
    + rewrite !flipq_get_other by auto. now rewrite cperm_get_o.
Qed.

Lemma cperm_invol j b : cperm j (cperm j b) = b.
Proof.
  apply asg_ext; intros q. destruct (aq_dec j q) as [[i [Hi ->]]|H].
  - rewrite !cperm_get_a, isX_cperm by auto. now destruct (get b (aq i)), (isX i b).
  - now rewrite !cperm_get_o.
Qed.

Lemma isZ_isX i b : isZ i b = true -> isX i b = false.
Proof.
  destruct i; unfold Chain.isZ, Chain.isX; cbn [Chain.allc]; intros H.
  - destruct (get b (cq 0)); simpl in *; auto; discriminate.
  - destruct (Chain.allc cq i b && get b (cq (S i))); simpl in *; try discriminate.
    destruct (get b (cq (S (S i)))); simpl in *; auto; discriminate.
Qed.
Lemma isZ_cperm i j b : isZ i (cperm j b) = isZ i b.
Proof.
  destruct i; unfold Chain.isZ; rewrite ?allc_cperm, !cperm_get_o; auto; intros; apply cq_aq.
Qed.
Lemma isZ_flip_t i b : isZ i (flipq tq b) = isZ i b.
Proof.
  destruct i; unfold Chain.isZ; rewrite ?allc_flip_t, !flipq_get_other; auto.
Qed.

Lemma sgn_sq v : (sgn v * sgn v = 1)%C.
Proof. destruct v; unfold sgn; apply Ceq; simpl; ring. Qed.

(* csign at b and at the image of b agree bit-for-bit where they matter, so the product is 1 *)
Lemma csign_pair j : forall k b b', (j <= k)%nat ->
  (forall i, (i <= j)%nat -> isZ i b' = isZ i b) ->
  (forall i, (i <= j)%nat -> isZ i b = true -> get b' (aq i) = get b (aq i)) ->
  (csign j b * csign j b' = 1)%C.
Proof.
  induction j; intros k b b' Hk HZ HG; cbn [Chain.csign].
  - rewrite HZ by lia. destruct (Chain.isZ cq 0 b) eqn:E.
    + rewrite HG by (auto; lia). apply sgn_sq.
    + apply Ceq; simpl; ring.
  - rewrite HZ by lia.
    assert (IH : (csign j b * csign j b' = 1)%C).
    { apply (IHj k); try lia; intros; [apply HZ|apply HG]; auto; lia. }
    destruct (Chain.isZ cq (S j) b) eqn:E.
    + rewrite HG by (auto; lia).
      transitivity ((csign j b * csign j b') * (sgn (get b (aq (S j))) * sgn (get b (aq (S j)))))%C.
      ring. rewrite IH, sgn_sq. ring.
    + transitivity (csign j b * csign j b')%C. ring. exact IH.
Qed.


Theorem two_rounds j psi b :
  round j (round j psi) b =
  psi (if isX j b && get b (cq (S (S j))) then flipq tq b else b).
Proof.
  unfold round. rewrite !chain_mono by auto. unfold mono.
  rewrite !ccx_sem.
  set (c := cq (S (S j))). set (a := aq j).
  rewrite (cperm_get_o j b c) by (intros; apply cq_aq).
  assert (Ha : get (cperm j b) a = xorb (get b a) (isX j b)) by (apply cperm_get_a; lia).
  rewrite Ha.
  set (b1 := if get b c && xorb (get b a) (isX j b) then flipq tq (cperm j b) else cperm j b).
  assert (Hb1 : cperm j b1 = if get b c && xorb (get b a) (isX j b) then flipq tq b else b).
  { unfold b1. destruct (get b c && _); now rewrite ?cperm_flip_t, cperm_invol. }
  assert (Hc1 : get (cperm j b1) c = get b c).
  { rewrite Hb1. destruct (get b c && _); rewrite ?flipq_get_other; auto; apply not_eq_sym, tq_c. }
  assert (Ha1 : get (cperm j b1) a = get b a).
  { rewrite Hb1. destruct (get b c && _); rewrite ?flipq_get_other; auto; apply not_eq_sym, tq_a. }
  rewrite Hc1, Ha1, Hb1.
  assert (S1 : (csign j b * csign j b1 = 1)%C).
  { apply (csign_pair j j); auto.
    - intros i Hi. unfold b1. destruct (get b c && _); now rewrite ?isZ_flip_t, isZ_cperm.
    - intros i Hi HZ. unfold b1.
      assert (G : get (cperm j b) (aq i) = get b (aq i)).
      { rewrite cperm_get_a by auto. rewrite (isZ_isX i b HZ). apply xorb_false_r. }
      destruct (get b c && _); rewrite ?flipq_get_other; auto; apply not_eq_sym, tq_a. }
  rewrite Cmult_assoc, S1, Cmult_1_l.
  f_equal.
  destruct (get b c), (get b a), (isX j b); cbn [andb xorb]; rewrite ?flipq_flipq; reflexivity.
Qed.
End VChain.
Print Assumptions two_rounds.
