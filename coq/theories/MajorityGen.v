(* The degree list computed by qclib.gates.majority.operate (translated from the source on every run:
   Gen_majority.majority_degrees) is the triangular list `degrees`, hence realises the majority function. *)
From Coq Require Import ZArith List Bool Arith Lia.
From QV Require Import GenLib Majority Gen_majority.
Import ListNotations.

Lemma zsum_binom_parity K w :
  zsum (map (fun k => binomZ (Z.of_nat w) k) (map Z.of_nat K))
  = Z.of_nat (fold_right (fun k acc => (binom w k + acc)%nat) 0%nat K).
Proof.
  induction K as [|k K IH]; simpl. reflexivity.
  rewrite zsum_cons, IH, binomZ_nat. lia.
Qed.
Lemma Zodd_of_nat n : Z.odd (Z.of_nat n) = Nat.odd n.
Proof.
  induction n as [|n IH]. reflexivity.
  rewrite Nat2Z.inj_succ, Z.odd_succ, Nat.odd_succ, <- Z.negb_odd, <- Nat.negb_odd, IH. reflexivity.
Qed.
Lemma mod2_odd n : (Z.of_nat n mod 2 =? 1)%Z = Nat.odd n.
Proof.
  rewrite <- Zodd_of_nat. rewrite Zmod_odd. destruct (Z.odd (Z.of_nat n)); reflexivity.
Qed.

Section Step.
Variable nmin : nat.
Definition zstep (K : list Z) (weight : Z) : list Z :=
  let parity := ((zsum (map (fun k => binomZ weight k) K)) mod 2)%Z in
  if negb (parity =? Z.b2z (weight >=? Z.of_nat nmin))%Z then K ++ [weight] else K.

Lemma fold_tri ws : forall K,
  fold_left zstep (map Z.of_nat ws) (map Z.of_nat K) = map Z.of_nat (tri nmin ws K).
Proof.
  induction ws as [|w ws IH]; intros K; simpl. reflexivity.
  unfold zstep at 2. rewrite zsum_binom_parity.
  set (s := fold_right (fun k acc => (binom w k + acc)%nat) 0%nat K).
  assert (P : parity_at K w = Nat.odd s) by reflexivity.
  assert (G : (Z.of_nat w >=? Z.of_nat nmin)%Z = (nmin <=? w)%nat).
  { destruct (Nat.leb_spec nmin w); [apply Z.geb_le|]; lia. }
  rewrite G, P. pose proof (mod2_odd s) as M.
  assert (M2 : (Z.of_nat s mod 2 = 0 \/ Z.of_nat s mod 2 = 1)%Z).
  { pose proof (Z.mod_pos_bound (Z.of_nat s) 2 ltac:(lia)). lia. }
  destruct (Nat.odd s) eqn:O, (nmin <=? w)%nat eqn:L; simpl Z.b2z; simpl Bool.eqb; cbv iota.
  - replace (Z.of_nat s mod 2 =? 1)%Z with true. simpl. apply IH.
  - replace (Z.of_nat s mod 2 =? 0)%Z with false.
    2:{ symmetry. apply Z.eqb_neq. destruct M2 as [E|E]; rewrite E in M; simpl in M; try discriminate; lia. }
    simpl. change [Z.of_nat w] with (map Z.of_nat [w]). rewrite <- map_app. apply IH.
  - replace (Z.of_nat s mod 2 =? 1)%Z with false. simpl.
    change [Z.of_nat w] with (map Z.of_nat [w]). rewrite <- map_app. apply IH.
  - replace (Z.of_nat s mod 2 =? 0)%Z with true.
    2:{ symmetry. apply Z.eqb_eq. destruct M2 as [E|E]; auto. rewrite E in M. simpl in M. discriminate. }
    simpl. apply IH.
Qed.
End Step.

Lemma ceil_half n : ceil_div (Z.of_nat n * 1) (1 * 2) = Z.of_nat ((n + 1) / 2).
Proof.
  unfold ceil_div. replace (Z.of_nat n * 1 + 1 * 2 - 1)%Z with (Z.of_nat (n + 1)) by lia.
  change (1 * 2)%Z with (Z.of_nat 2). now rewrite <- Nat2Z.inj_div.
Qed.

Theorem majority_degrees_tri n : majority_degrees (Z.of_nat n) = map Z.of_nat (degrees n).
Proof.
  unfold majority_degrees, degrees. cbv zeta.
  rewrite ceil_half. replace (Z.of_nat n + 1)%Z with (Z.of_nat (S n)) by lia.
  rewrite zrange_0_nat. change (@nil Z) with (map Z.of_nat []).
  exact (fold_tri ((n + 1) / 2) (seq 0 (S n)) []).
Qed.

(* ---------- the emitted circuit, classically ---------- *)
(* operate() appends, for every degree k in the list and every k-subset j of the controls
   (itertools.combinations order = combs), one mcx(j, target) *)
Definition majority_mcxs (controls : list nat) : list (list nat) :=
  flat_map (fun k => combs (Z.to_nat k) controls) (majority_degrees (zlen controls)).

Section Classical.
Variable set : nat -> bool.
(* number of emitted MCX gates whose controls are all 1 *)
Definition fired (controls : list nat) : nat := length (filter (allset set) (majority_mcxs controls)).

Lemma fired_sum controls :
  fired controls = fold_right (fun k acc => (binom (weight set controls) k + acc)%nat) 0%nat (degrees (length controls)).
Proof.
  unfold fired, majority_mcxs, zlen. rewrite majority_degrees_tri.
  induction (degrees (length controls)) as [|k K IH]; simpl. reflexivity.
  rewrite filter_app, app_length, IH, Nat2Z.id. f_equal. apply fires_binom.
Qed.

Theorem majority_flip_iff controls :
  Nat.odd (fired controls) = (length controls <=? 2 * weight set controls)%nat.
Proof.
  rewrite fired_sum. change (Nat.odd _) with (parity_at (degrees (length controls)) (weight set controls)).
  rewrite degrees_majority, half_iff. reflexivity.
  unfold weight. induction controls as [|x l IH]; simpl. lia. destruct (set x); simpl; lia.
Qed.
End Classical.
