(* Property C02 (QR scheme): every block that qclib/unitary.py emits for one factor of the Givens sequence - Gray-code moves
   (fully controlled X gates, zero-controls written as X ; . ; X), the fully controlled 2x2 gate on the last differing qubit, the
   moves undone - acts as the two-level operator on the two basis states, identity elsewhere, for every register width, every
   path accepted by the checker path_ok (evaluated by the harness on the path the code took) and every 2x2 matrix, whatever the
   qubits above the register hold.  The product of the two-level factors is compared with the input matrix numerically. *)
From Coq Require Import Reals List Bool Arith NArith.
From Coquelicot Require Import Complex.
From QV Require Import Sem Mat2 Toff2 SparseSim TwoLevel.
Import ListNotations.

Theorem C02_qr_block : forall (M : nat -> mat2), M 0 = Xm ->
  forall (n : nat) (L : list step) (d : nat) (p col row : asg) (psi : state),
  path_ok n L d p col row = true ->
  mrun M (blockg n L d p) psi = two_level n col row (M 1) psi.
Proof. exact blockg_two_level. Qed.
Print Assumptions C02_qr_block.

(* the operator form: conjugating a two-level operator by self-inverse basis permutations gives a two-level operator *)
Theorem C02_qr_block_ops : forall (n : nat) (L : list step) (d : nat) (p : asg) (M : mat2) (col row : asg) (psi : state),
  path_ok n L d p col row = true -> Block n L d p M psi = two_level n col row M psi.
Proof. intros n L. exact (Block_two_level n L). Qed.
Print Assumptions C02_qr_block_ops.

(* a fully controlled X with zero-controls is the transposition of two basis states of the register *)
Theorem C02_qr_move : forall (M : nat -> mat2), M 0 = Xm -> forall (n m : nat) (p : asg) (psi : state), (m < n)%nat ->
  mrun M (cgate 0 n m p) psi = Pt (tau n m p) psi.
Proof. exact move_sem. Qed.
Print Assumptions C02_qr_move.

(* the block generated from the two basis states alone (the lowest differing qubit moves first, as in the code): for every width and
   every pair of distinct basis states whose highest differing qubit reads 0 in the column state (col < row), with no checker left *)
Theorem C02_qr_block_all : forall (M : nat -> mat2) (n : nat) (col row : asg) (psi : state), M 0 = Xm ->
  qr_pre n col row = true ->
  mrun M (qr_block n col row) psi = two_level n col row (M 1) psi.
Proof. exact qr_block_two_level. Qed.
Print Assumptions C02_qr_block_all.

Theorem C02_qr_gray_path : forall (n : nat) (col row : asg), diffs n col row <> [] ->
  get col (last (diffs n col row) 0) = false -> get row (last (diffs n col row) 0) = true ->
  let r := gray (diffs n col row) col row in
  path_ok n (fst (fst r)) (snd (fst r)) (snd r) col row = true.
Proof. exact gray_path_ok. Qed.
Print Assumptions C02_qr_gray_path.

(* the whole circuit: block k of the sequence uses the matrix M (k + 1); the gate list generated from the list of (col, row) pairs
   alone acts as the composition of the two-level operators, first block first *)
Theorem C02_qr_circuit : forall (M : nat -> mat2) (n : nat), M 0 = Xm -> forall (prs : list (asg * asg)) (k : nat) (psi : state),
  forallb (fun cr => qr_pre n (fst cr) (snd cr)) prs = true ->
  mrun M (qr_circuit n k prs) psi = qr_ops M n k prs psi.
Proof. exact qr_circuit_sem. Qed.
Print Assumptions C02_qr_circuit.

Example ex_pre : qr_pre 3 1%N 6%N = true.
Proof. vm_compute. reflexivity. Qed.

(* the checker accepts real paths: 3 qubits, column state 1 = 001, row state 6 = 110 (all three bits differ): two moves, then
   the gate on qubit 2 *)
Example ex_path : path_ok 3 [(0, 6%N); (1, 1%N)] 2 3%N 1%N 6%N = true.
Proof. vm_compute. reflexivity. Qed.
