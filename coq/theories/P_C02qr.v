(* Property C02 (QR scheme): every block that qclib/unitary.py emits for one factor of the Givens sequence - Gray-code moves
   (fully controlled X gates, zero-controls written as X ; . ; X), the fully controlled 2x2 gate on the last differing qubit, the
   moves undone - acts as the two-level operator on the two basis states, identity elsewhere, for every register width, every
   path accepted by the checker path_ok (evaluated by the harness on the path the code took) and every 2x2 matrix, whatever the
   qubits above the register hold.  The product of the two-level factors is compared with the input matrix numerically. *)
From Coq Require Import Reals List Bool Arith NArith.
From Coquelicot Require Import Complex.
From QV Require Import Sem Mat2 Toff2 SparseSim TwoLevel.
Import ListNotations.

Theorem C02_qr_block : forall (M : nat -> mat2), M 0 = Xm ->
  forall (n : nat) (L : list step) (d : nat) (p col row : asg) (psi : state),
  path_ok n L d p col row = true ->
  mrun M (blockg n L d p) psi = two_level n col row (M 1) psi.
Proof. exact blockg_two_level. Qed.
Print Assumptions C02_qr_block.

(* the operator form: conjugating a two-level operator by self-inverse basis permutations gives a two-level operator *)
Theorem C02_qr_block_ops : forall (n : nat) (L : list step) (d : nat) (p : asg) (M : mat2) (col row : asg) (psi : state),
  path_ok n L d p col row = true -> Block n L d p M psi = two_level n col row M psi.
Proof. intros n L. exact (Block_two_level n L). Qed.
Print Assumptions C02_qr_block_ops.

(* a fully controlled X with zero-controls is the transposition of two basis states of the register *)
Theorem C02_qr_move : forall (M : nat -> mat2), M 0 = Xm -> forall (n m : nat) (p : asg) (psi : state), (m < n)%nat ->
  mrun M (cgate 0 n m p) psi = Pt (tau n m p) psi.
Proof. exact move_sem. Qed.
Print Assumptions C02_qr_move.

(* the checker accepts real paths: 3 qubits, column state 1 = 001, row state 6 = 110 (all three bits differ): two moves, then
   the gate on qubit 2 *)
Example ex_path : path_ok 3 [(0, 6%N); (1, 1%N)] 2 3%N 1%N 6%N = true.
Proof. vm_compute. reflexivity. Qed.
