(* C04, Ldmcu: the two one-parameter groups behind the gates (RX rotations on the controls, integer powers of the deepest root
   of U on the target), the control pattern by X conjugation, and the end-to-end statement. *)
From Coq Require Import Reals Lra List Bool Arith Lia NArith ZArith FunctionalExtensionality.
From Coquelicot Require Import Complex.
From QV Require Import Sem Mat2 Toff2 Chain Vchain Cvoqram McxModel LinearMcx LdmcuCore LdmcuModel.
Import ListNotations.

(* ---------- RX ---------- *)
Open Scope R_scope.
Definition RXm (th : R) : mat2 := M2 (RtoC (cos (th / 2))) (0, - sin (th / 2)) (0, - sin (th / 2)) (RtoC (cos (th / 2))).
Lemma RXm_add x y : mmul (RXm x) (RXm y) = RXm (x + y).
Proof.
  unfold RXm. replace ((x + y) / 2) with (x / 2 + y / 2) by field. rewrite cos_plus, sin_plus. crush_m2.
Qed.
Lemma RXm_0 : RXm 0 = I2.
Proof. unfold RXm, I2. replace (0 / 2) with 0 by field. rewrite cos_0, sin_0. crush_m2. Qed.
Lemma RXm_PI : RXm PI = NX.
Proof. unfold RXm, NX. rewrite cos_PI2, sin_PI2. crush_m2. Qed.
(* the unit on control qubit t is RX(pi / 2^(t-1)) *)
Definition EX (t : nat) (z : Z) : mat2 := RXm (PI * IZR z / 2 ^ (t - 1)).
Lemma EX_add t a b : EX t (a + b)%Z = mmul (EX t a) (EX t b).
Proof.
  unfold EX. rewrite RXm_add. f_equal. rewrite plus_IZR. field. apply pow_nonzero. lra.
Qed.
Lemma EX_0 t : EX t 0%Z = I2.
Proof. unfold EX. replace (PI * 0 / 2 ^ (t - 1)) with 0. apply RXm_0. field. apply pow_nonzero. lra. Qed.
Lemma EX_full t : EX t (2 ^ Z.of_nat (t - 1))%Z = NX.
Proof.
  unfold EX. rewrite <- pow_IZR. replace (PI * 2 ^ (t - 1) / 2 ^ (t - 1)) with PI. apply RXm_PI.
  field. apply pow_nonzero. lra.
Qed.

(* ---------- integer powers of an invertible 2x2 matrix ---------- *)
Open Scope nat_scope.
Section Pow.
Variables W Wi : mat2.
Hypothesis WWi : mmul W Wi = I2.
Hypothesis WiW : mmul Wi W = I2.
Fixpoint npow (M : mat2) (n : nat) : mat2 := match n with O => I2 | S n' => mmul M (npow M n') end.
Lemma npow_add M a b : npow M (a + b) = mmul (npow M a) (npow M b).
Proof. induction a as [|a IH]; simpl. now rewrite mmul_I2_l. now rewrite IH, mmul_assoc. Qed.
Lemma npow_S_r M a : npow M (S a) = mmul (npow M a) M.
Proof. replace (S a) with (a + 1) by lia. rewrite npow_add. simpl. now rewrite mmul_I2_r. Qed.
Definition mix (a b : nat) : mat2 := mmul (npow W a) (npow Wi b).
Lemma mix_cancel a b : mix (S a) (S b) = mix a b.
Proof.
  unfold mix. rewrite npow_S_r. cbn [npow]. rewrite <- !mmul_assoc. f_equal. rewrite (mmul_assoc W), WWi. now rewrite mmul_I2_l.
Qed.
Lemma mix_shift k a b : mix (a + k) (b + k) = mix a b.
Proof. induction k as [|k IH]. now rewrite !Nat.add_0_r. rewrite !Nat.add_succ_r. now rewrite mix_cancel. Qed.
Lemma W_npow_Wi b : mmul W (npow Wi b) = mmul (npow Wi b) W.
Proof.
  induction b as [|b IH]; simpl. now rewrite mmul_I2_l, mmul_I2_r.
  rewrite mmul_assoc, WWi, mmul_I2_l. rewrite <- mmul_assoc, <- IH, mmul_assoc, WiW. now rewrite mmul_I2_l.
Qed.
Lemma npow_comm a b : mmul (npow Wi b) (npow W a) = mmul (npow W a) (npow Wi b).
Proof.
  induction a as [|a IH]; simpl. now rewrite mmul_I2_l, mmul_I2_r.
  rewrite <- mmul_assoc, <- IH. rewrite !mmul_assoc. f_equal. symmetry. apply W_npow_Wi.
Qed.
Lemma mix_mul a b c d : mmul (mix a b) (mix c d) = mix (a + c) (b + d).
Proof.
  unfold mix. rewrite !npow_add. rewrite <- !mmul_assoc. f_equal. rewrite !mmul_assoc. f_equal. apply npow_comm.
Qed.
Definition Zpow (z : Z) : mat2 := mix (Z.to_nat z) (Z.to_nat (- z)).
Lemma mix_Zpow a b : mix a b = Zpow (Z.of_nat a - Z.of_nat b).
Proof.
  unfold Zpow. destruct (le_lt_dec b a) as [H|H].
  - replace (Z.to_nat (Z.of_nat a - Z.of_nat b)) with (a - b) by lia.
    replace (Z.to_nat (- (Z.of_nat a - Z.of_nat b))) with 0 by lia.
    rewrite <- (mix_shift b (a - b) 0). f_equal; lia.
  - replace (Z.to_nat (Z.of_nat a - Z.of_nat b)) with 0 by lia.
    replace (Z.to_nat (- (Z.of_nat a - Z.of_nat b))) with (b - a) by lia.
    rewrite <- (mix_shift a 0 (b - a)). f_equal; lia.
Qed.
Lemma Zpow_add x y : Zpow (x + y) = mmul (Zpow x) (Zpow y).
Proof.
  unfold Zpow at 2 3. rewrite mix_mul, mix_Zpow. f_equal. lia.
Qed.
Lemma Zpow_0 : Zpow 0 = I2.
Proof. unfold Zpow, mix. simpl. apply mmul_I2_l. Qed.
Lemma Zpow_nat n : Zpow (Z.of_nat n) = npow W n.
Proof. unfold Zpow, mix. replace (Z.to_nat (- Z.of_nat n)) with 0 by lia. rewrite Nat2Z.id. simpl. apply mmul_I2_r. Qed.
End Pow.

(* ---------- the whole gate ---------- *)
Definition ELd (T : nat) (W Wi : mat2) (t : nat) (z : Z) : mat2 := if t =? T then Zpow W Wi z else EX t z.

Definition fgate := (sgate + lg)%type.
Definition fapp (E : nat -> Z -> mat2) (g : fgate) (psi : state) : state :=
  match g with inl s => sapp s psi | inr g => lapp E g psi end.
Definition frun (E : nat -> Z -> mat2) (l : list fgate) (psi : state) : state := fold_left (fun s g => fapp E g s) l psi.
Lemma frun_app E l1 l2 psi : frun E (l1 ++ l2) psi = frun E l2 (frun E l1 psi).
Proof. unfold frun. now rewrite fold_left_app. Qed.
Lemma frun_inl E l psi : frun E (map inl l) psi = srun l psi.
Proof. revert psi. induction l as [|g l IH]; intros psi; auto. cbn [map frun fold_left fapp]. apply IH. Qed.
Lemma frun_inr E l psi : frun E (map inr l) psi = lrun E l psi.
Proof. revert psi. induction l as [|g l IH]; intros psi; auto. cbn [map frun fold_left fapp]. apply IH. Qed.

(* Ldmcu(U, T controls, ctrl_state): X on the 0-controls, the four sweeps, X again *)
Definition ldmcu (T : nat) (pat : list bool) : list fgate :=
  map inl (xs pat T) ++ map inr (ldmcu_core T) ++ map inl (xs pat T).

Lemma xflip_upd pat k q b v : k <= q -> xflip pat k (upd b q v) = upd (xflip pat k b) q v.
Proof.
  intros H. apply asg_ext. intros x. destruct (Nat.eq_dec x q) as [->|Hx].
  - rewrite get_upd_same, xflip_get_ge by auto. now rewrite get_upd_same.
  - rewrite get_upd_other by auto. destruct (Nat.lt_ge_cases x k).
    + rewrite !xflip_get_lt by auto. now rewrite get_upd_other by auto.
    + rewrite !xflip_get_ge by auto. now rewrite get_upd_other by auto.
Qed.

Theorem ldmcu_sem (T : nat) (W Wi : mat2) (pat : list bool) (psi : state) :
  1 <= T -> mmul W Wi = I2 -> mmul Wi W = I2 ->
  frun (ELd T W Wi) (ldmcu T pat) psi
  = appf (fun b => if pmatch pat T b then npow W (2 ^ (T - 1)) else I2) T psi.
Proof.
  intros HT H1 H2. unfold ldmcu. rewrite !frun_app, !frun_inl, frun_inr.
  rewrite (ldmcu_core_sem (ELd T W Wi)) with (T := T); auto.
  - apply functional_extensionality; intros b. rewrite xs_sem. unfold appf, app1.
    rewrite xflip_get_ge by lia.
    assert (P : forall v, srun (xs pat T) psi (upd (xflip pat T b) T v) = psi (upd b T v)).
    { intros v. rewrite xs_sem, xflip_upd by lia. now rewrite xflip_invol. }
    rewrite !P. unfold ones. rewrite pmatch_xflip.
    unfold ELd. rewrite Nat.eqb_refl.
    replace (2 ^ Z.of_nat (T - 1))%Z with (Z.of_nat (2 ^ (T - 1))) by (rewrite Nat2Z.inj_pow; reflexivity).
    rewrite Zpow_nat by auto. reflexivity.
  - intros t a b. unfold ELd. destruct (t =? T). now apply Zpow_add. apply EX_add.
  - intros t. unfold ELd. destruct (t =? T). apply Zpow_0. apply EX_0.
  - intros j Hj1 Hj2. unfold ELd. rewrite (proj2 (Nat.eqb_neq j T)) by lia. apply EX_full.
Qed.
