(* C10 / C13: number of entangling gates in the model of qclib.gates.ucr.ucr - the building block of the QSD/CSD estimates:
   a multiplexed rotation on k controls emits 2^k - 1 entanglers, plus one when the trailing entangler is requested,
   whatever the angles (the leaf-skip rule only drops rotations). *)
From Coq Require Import List Bool Arith Lia.
From QV Require Import Sem UcrModel.
Import ListNotations.

Definition is_ent {A} (g : pgate A) : bool := match g with PEnt _ _ _ => true | _ => false end.
Definition count_ent {A} (l : list (pgate A)) : nat := length (filter is_ent l).
Lemma count_ent_app {A} (l1 l2 : list (pgate A)) : count_ent (l1 ++ l2) = count_ent l1 + count_ent l2.
Proof. unfold count_ent. now rewrite filter_app, app_length. Qed.
Lemma count_ent_rev {A} (l : list (pgate A)) : count_ent (rev l) = count_ent l.
Proof.
  induction l as [|g l IH]; auto. simpl. rewrite count_ent_app, IH. unfold count_ent. simpl. destruct (is_ent g); simpl; lia.
Qed.

Section Count.
Context {A : Type} (o : aops A).
Lemma ucr_nl_count r e : forall k (a : nat -> A), count_ent (ucr_nl_g o r e k a) = 2 ^ k - 1.
Proof.
  induction k as [|k IH]; intros a.
  - simpl. destruct (askip o (a 0)); reflexivity.
  - cbn [ucr_nl_g]. rewrite !count_ent_app, count_ent_rev, !IH.
    change (count_ent [PEnt e (S k) 0]) with 1.
    assert (1 <= 2 ^ k) by (clear; induction k; simpl; lia). simpl. lia.
Qed.
Theorem ucr_count r e k (a : nat -> A) last : 1 <= k ->
  count_ent (ucr_g o r e k a last) = if last then 2 ^ k else 2 ^ k - 1.
Proof.
  intros Hk. unfold ucr_g. rewrite count_ent_app, ucr_nl_count. destruct k; [lia|].
  assert (1 <= 2 ^ S k) by (clear; induction k; simpl in *; lia).
  destruct last.
  - change (count_ent [PEnt e (S k) 0]) with 1. lia.
  - change (count_ent (@nil (pgate A))) with 0. lia.
Qed.
End Count.
