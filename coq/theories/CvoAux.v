(* C06: CVO-QRAM WITH auxiliary qubits (the default mode).  The multi-controlled U of every pattern is realised by a ladder
   of relative-phase Toffolis (Qiskit rccx) over clean ancillas, the controlled U on the top ancilla, and the same ladder
   in reverse.  On states whose ancillas are |0> this equals the ideal multi-controlled U (mcuvchain_sem); ancillas stay
   clean through the whole loop, so the gate list of CvoModel.cvo_gates n true denotes the CVO-QRAM loop of CvoLoop. *)
From Coq Require Import Reals Lra List Bool Arith Lia NArith FunctionalExtensionality FinFun.
From Coquelicot Require Import Complex.
From QV Require Import Sem Mat2 Toff2 Chain Vchain UcrPlaced TopDownWalk Cvoqram CvoLoop CvoModel CvoGates.
Import ListNotations.
Open Scope nat_scope.

(* ---------- ladders of rccx gates as monomial operators ---------- *)
Definition tri := (nat * nat * nat)%type.
Definition tperm (g : tri) (x : asg) : asg := let '(a, b, t) := g in rccx_perm a b t x.
Definition tapp3 (g : tri) (psi : state) : state := let '(a, b, t) := g in rccx a b t psi.
Definition mrun (P : list tri) (psi : state) : state := fold_left (fun s g => tapp3 g s) P psi.
Definition fwd (P : list tri) (x : asg) : asg := fold_left (fun y g => tperm g y) P x.
Definition twf (u : nat) (g : tri) : Prop := let '(a, b, t) := g in a <> t /\ b <> t /\ a <> u /\ b <> u /\ t <> u.

Lemma mrun_app P Q psi : mrun (P ++ Q) psi = mrun Q (mrun P psi).
Proof. unfold mrun. now rewrite fold_left_app. Qed.
Lemma fwd_app P Q x : fwd (P ++ Q) x = fwd Q (fwd P x).
Proof. unfold fwd. now rewrite fold_left_app. Qed.

Lemma rccx_perm_invol a b t x : a <> t -> b <> t -> rccx_perm a b t (rccx_perm a b t x) = x.
Proof.
  intros Ha Hb. unfold rccx_perm. destruct (get x a && get x b) eqn:E.
  - rewrite !flq_other, E by auto. apply flipq_flipq.
  - now rewrite E.
Qed.
Lemma Ci_sq : (Ci * - Ci = RtoC 1)%C.
Proof. apply injective_projections; simpl; ring. Qed.
Lemma rccx_invol a b t psi : a <> t -> b <> t -> rccx a b t (rccx a b t psi) = psi.
Proof.
  intros Ha Hb. apply functional_extensionality; intros x. unfold rccx.
  rewrite rccx_perm_invol by auto.
  assert (P : (rccx_phase a b t (rccx_perm a b t x) * rccx_phase a b t x = RtoC 1)%C).
  { unfold rccx_phase, rccx_perm. destruct (get x a) eqn:A, (get x b) eqn:B; cbn [andb];
      rewrite ?flq_other, ?flq_same, ?A, ?B by auto; rewrite ?A, ?B;
      try destruct (get x t); cbn [negb]; apply injective_projections; simpl; ring. }
  replace (rccx_phase a b t (rccx_perm a b t x) * (rccx_phase a b t x * psi x))%C
    with ((rccx_phase a b t (rccx_perm a b t x) * rccx_phase a b t x) * psi x)%C by ring.
  rewrite P. ring.
Qed.

Lemma mrun_rev_cancel u P psi : Forall (twf u) P -> mrun (rev P) (mrun P psi) = psi.
Proof.
  revert psi. induction P as [|[[a b] t] P IH]; intros psi W. reflexivity.
  inversion W as [|? ? Hg WP]; subst. simpl in Hg. destruct Hg as [Ha [Hb _]].
  cbn [rev]. rewrite mrun_app. change (mrun ((a, b, t) :: P) psi) with (mrun P (rccx a b t psi)).
  rewrite IH by auto. cbn [mrun fold_left tapp3]. now apply rccx_invol.
Qed.

(* pointwise form: the reversed ladder reads the state at the forward classical image *)
Fixpoint mphase (P : list tri) (x : asg) : C :=
  match P with
  | [] => RtoC 1
  | (a, b, t) :: rest => (mphase rest (rccx_perm a b t x) * rccx_phase a b t (rccx_perm a b t x))%C
  end.
Lemma mrun_rev_form P : forall psi x, mrun (rev P) psi x = (mphase P x * psi (fwd P x))%C.
Proof.
  induction P as [|[[a b] t] P IH]; intros psi x.
  - simpl. ring.
  - cbn [rev]. rewrite mrun_app. cbn [mrun fold_left tapp3]. unfold rccx at 1.
    fold (mrun (rev P) psi). rewrite IH. cbn [mphase fwd fold_left tperm]. fold (fwd P (rccx_perm a b t x)). ring.
Qed.

(* a one-qubit gate on a qubit the ladder does not touch commutes with it *)
Lemma rccx_perm_upd a b t u x v : a <> u -> b <> u -> t <> u ->
  rccx_perm a b t (upd x u v) = upd (rccx_perm a b t x) u v.
Proof.
  intros Ha Hb Ht. unfold rccx_perm. rewrite !get_upd_other by auto.
  destruct (get x a && get x b); auto. apply flipq_upd. auto.
Qed.
Lemma rccx_phase_upd a b t u x v : a <> u -> b <> u -> t <> u -> rccx_phase a b t (upd x u v) = rccx_phase a b t x.
Proof. intros Ha Hb Ht. unfold rccx_phase. now rewrite !get_upd_other by auto. Qed.
Lemma rccx_perm_get a b t u x : t <> u -> get (rccx_perm a b t x) u = get x u.
Proof. intros Ht. unfold rccx_perm. destruct (get x a && get x b); auto. apply flq_other. auto. Qed.
Lemma rccx_app1 a b t u V psi : a <> u -> b <> u -> t <> u ->
  app1 V u (rccx a b t psi) = rccx a b t (app1 V u psi).
Proof.
  intros Ha Hb Ht. apply functional_extensionality; intros x. unfold rccx, app1.
  rewrite !rccx_perm_upd, !rccx_phase_upd, rccx_perm_get by auto. ring.
Qed.
Lemma mrun_app1 u V P : Forall (twf u) P -> forall psi, app1 V u (mrun P psi) = mrun P (app1 V u psi).
Proof.
  induction P as [|[[a b] t] P IH]; intros W psi. reflexivity.
  inversion W as [|? ? Hg WP]; subst. simpl in Hg. destruct Hg as [_ [_ [Ha [Hb Ht]]]].
  change (mrun ((a, b, t) :: P) psi) with (mrun P (rccx a b t psi)).
  rewrite IH by auto. now rewrite rccx_app1 by auto.
Qed.

(* compute - controlled U on the top ancilla - uncompute *)
Theorem conj_cu u top V P psi : Forall (twf u) P ->
  mrun (rev P) (fun x => if get x top then app1 V u (mrun P psi) x else mrun P psi x)
  = fun x => if get (fwd P x) top then app1 V u psi x else psi x.
Proof.
  intros W. apply functional_extensionality; intros x. rewrite mrun_rev_form.
  destruct (get (fwd P x) top).
  - rewrite (mrun_app1 u V P W). rewrite <- mrun_rev_form. now rewrite (mrun_rev_cancel u).
  - rewrite <- mrun_rev_form. now rewrite (mrun_rev_cancel u).
Qed.

Lemma forallb_map' {A B} (f : B -> bool) (g : A -> B) l : forallb f (map g l) = forallb (fun a => f (g a)) l.
Proof. induction l as [|a l IH]; simpl; auto. now rewrite IH. Qed.
Lemma forallb_nth (F : nat -> bool) l : forallb (fun q => F (nth q l 0)) (seq 0 (length l)) = forallb F l.
Proof.
  induction l as [|a l IH]; auto.
  cbn [length seq forallb]. rewrite <- seq_shift, forallb_map'. cbn [nth]. now rewrite IH.
Qed.

(* ---------- the ladder of CvoModel.mcuvchain ---------- *)
Section Ladder.
Variable n : nat.
Notation memq := (mem n true).
Definition cleanb (x : asg) : Prop := forall i, i < n - 1 -> get x (anc i) = false.

Variable ctl : list nat.
Hypothesis ctl_lt : forall k, In k ctl -> k < n.
Hypothesis ctl_len : 2 <= length ctl.
Let r := rev ctl.
Let len := length ctl.
Hypothesis len_n : len <= n.
Definition rq (q : nat) := nth q r 0.
Definition g_first : tri := (memq (rq 0), memq (rq 1), anc (n - 2)).
Definition g_down (p : nat) : tri := (anc (n - 2 - p), memq (rq (2 + p)), anc (n - 3 - p)).
Definition ladder (k : nat) : list tri := g_first :: map g_down (seq 0 k).

Definition Aand (x : asg) (p : nat) : bool := forallb (fun q => get x (memq (rq q))) (seq 0 (p + 2)).
Lemma Aand_S x p : Aand x (S p) = Aand x p && get x (memq (rq (2 + p))).
Proof.
  unfold Aand. replace (S p + 2) with (S (p + 2)) by lia. rewrite seq_S, forallb_app. cbn [forallb].
  rewrite andb_true_r. replace (0 + (p + 2)) with (2 + p) by lia. reflexivity.
Qed.

Lemma mem_anc k i : memq k <> anc i \/ True. Proof. now right. Qed.

Lemma ladder_get x : cleanb x -> forall k, k <= len - 2 -> forall q,
  get (fwd (ladder k) x) q
  = if (n - 2 - k <=? q - 1) && (q - 1 <=? n - 2) && (1 <=? q) && (q <? n) then Aand x (n - 2 - (q - 1)) else get x q.
Proof.
  intros Hc. induction k as [|k IH]; intros Hk q.
  - unfold ladder. cbn [seq map fwd fold_left tperm g_first]. unfold rccx_perm.
    assert (Hr0 : rq 0 < n) by (apply ctl_lt, in_rev; unfold rq, r; apply nth_In; rewrite rev_length; fold len; lia).
    assert (Hr1 : rq 1 < n) by (apply ctl_lt, in_rev; unfold rq, r; apply nth_In; rewrite rev_length; fold len; lia).
    assert (A0 : Aand x 0 = get x (memq (rq 0)) && get x (memq (rq 1))).
    { unfold Aand. simpl. now rewrite andb_true_r. }
    rewrite Nat.sub_0_r.
    destruct (Nat.leb_spec (n - 2) (q - 1)); destruct (Nat.leb_spec (q - 1) (n - 2));
      destruct (Nat.leb_spec 1 q); destruct (Nat.ltb_spec q n); cbn [andb].
    all: try (destruct (get x (memq (rq 0)) && get x (memq (rq 1))) eqn:E; [rewrite flq_other; auto; unfold anc; lia | reflexivity]).
    assert (Eq : q = anc (n - 2)) by (unfold anc; lia). subst q.
    replace (n - 2 - (anc (n - 2) - 1)) with 0 by (unfold anc; lia). rewrite A0.
    destruct (get x (memq (rq 0)) && get x (memq (rq 1))) eqn:E.
    + rewrite flq_same, Hc by lia. reflexivity.
    + apply Hc. lia.
  - unfold ladder. rewrite seq_S, map_app. cbn [map]. rewrite app_comm_cons, fwd_app. fold (ladder k).
    cbn [fwd fold_left tperm g_down]. unfold rccx_perm. rewrite Nat.add_0_l.
    assert (Hr : rq (2 + k) < n) by (apply ctl_lt, in_rev; unfold rq, r; apply nth_In; rewrite rev_length; fold len; lia).
    (* the two controls, read in the state after k steps *)
    assert (C1 : get (fwd (ladder k) x) (anc (n - 2 - k)) = Aand x k).
    { rewrite IH by lia. unfold anc.
      rewrite (proj2 (Nat.leb_le _ _)), (proj2 (Nat.leb_le (1 + (n - 2 - k) - 1) (n - 2))),
        (proj2 (Nat.leb_le 1 _)), (proj2 (Nat.ltb_lt _ n)) by lia. cbn [andb]. f_equal. lia. }
    assert (C2 : get (fwd (ladder k) x) (memq (rq (2 + k))) = get x (memq (rq (2 + k)))).
    { rewrite IH by lia. unfold mem. rewrite (proj2 (Nat.ltb_ge (n + rq (2 + k)) n)) by lia.
      now rewrite andb_false_r. }
    assert (C3 : get (fwd (ladder k) x) (anc (n - 3 - k)) = false).
    { rewrite IH by lia. unfold anc.
      rewrite (proj2 (Nat.leb_gt (n - 2 - k) (1 + (n - 3 - k) - 1))) by lia. cbn [andb]. apply Hc. lia. }
    rewrite C1, C2.
    destruct (Nat.eq_dec q (anc (n - 3 - k))) as [->|Hq].
    + unfold anc at 3 4 5 6 7.
      rewrite (proj2 (Nat.leb_le (n - 2 - S k) _)), (proj2 (Nat.leb_le (1 + (n - 3 - k) - 1) (n - 2))),
        (proj2 (Nat.leb_le 1 _)), (proj2 (Nat.ltb_lt _ n)) by lia. cbn [andb].
      replace (n - 2 - (1 + (n - 3 - k) - 1)) with (S k) by lia. rewrite Aand_S.
      destruct (Aand x k && get x (memq (rq (2 + k)))).
      * rewrite flq_same, C3. reflexivity.
      * exact C3.
    + assert (G : get (if Aand x k && get x (memq (rq (2 + k))) then flipq (anc (n - 3 - k)) (fwd (ladder k) x)
                       else fwd (ladder k) x) q = get (fwd (ladder k) x) q).
      { destruct (Aand x k && get x (memq (rq (2 + k)))); auto. now apply flq_other. }
      rewrite G, IH by lia.
      unfold anc in Hq.
      destruct (Nat.leb_spec (n - 2 - S k) (q - 1)); destruct (Nat.leb_spec (n - 2 - k) (q - 1));
        destruct (Nat.leb_spec (q - 1) (n - 2)); destruct (Nat.leb_spec 1 q); destruct (Nat.ltb_spec q n);
        cbn [andb]; try reflexivity; lia.
Qed.

Definition top := n - 2 - (len - 2).
Lemma forallb_rev {A} (f : A -> bool) l : forallb f (rev l) = forallb f l.
Proof.
  induction l as [|a l IH]; auto. simpl. rewrite forallb_app, IH. simpl. rewrite andb_true_r. apply andb_comm.
Qed.
Lemma ladder_top x : cleanb x -> get (fwd (ladder (len - 2)) x) (anc top) = forallb (get x) (map memq ctl).
Proof.
  intros Hc. rewrite ladder_get by auto. unfold top, anc.
  rewrite (proj2 (Nat.leb_le _ _)), (proj2 (Nat.leb_le (1 + (n - 2 - (len - 2)) - 1) (n - 2))),
    (proj2 (Nat.leb_le 1 _)), (proj2 (Nat.ltb_lt _ n)) by lia. cbn [andb].
  replace (n - 2 - (1 + (n - 2 - (len - 2)) - 1)) with (len - 2) by lia.
  unfold Aand. replace (len - 2 + 2) with (length r) by (unfold r; rewrite rev_length; fold len; lia).
  rewrite <- (forallb_rev (get x) (map memq ctl)), <- map_rev. fold r.
  rewrite forallb_map'. unfold rq. apply (forallb_nth (fun k => get x (memq k))).
Qed.
End Ladder.

(* ---------- the gate list of the model ---------- *)
Definition tri_gate (g : tri) : cgate := let '(a, b, t) := g in CRCCX a b t.
Lemma crun_tri U P psi : crun U (map tri_gate P) psi = mrun P psi.
Proof.
  revert psi. induction P as [|[[a b] t] P IH]; intros psi. reflexivity.
  cbn [map]. rewrite crun_cons. cbn [tri_gate capp]. rewrite IH. reflexivity.
Qed.
Lemma rev_seq0 m : rev (seq 0 m) = map (fun q => m - 1 - q) (seq 0 m).
Proof.
  induction m as [|m IH]. reflexivity.
  rewrite seq_S at 1. rewrite rev_app_distr. cbn [rev app]. rewrite IH. cbn [seq map].
  rewrite <- seq_shift, map_map. f_equal; try lia; try (apply map_ext; intros q; lia).
Qed.

Section Chain.
Variable n : nat.
Variable ctl : list nat.
Hypothesis ctl_lt : forall k, In k ctl -> k < n.
Hypothesis ctl_len : 2 <= length ctl.
Hypothesis len_n : length ctl <= n.

Lemma mcuvchain_shape j :
  mcuvchain n true j ctl
  = map tri_gate (ladder n ctl (length ctl - 2)) ++ [CU j [anc (top n ctl)] aux]
    ++ map tri_gate (rev (ladder n ctl (length ctl - 2))).
Proof.
  unfold mcuvchain, ladder. cbn [map rev].
  set (len := length ctl). set (r := rev ctl).
  assert (R0 : nth 0 r 0 = nth (len - 1) ctl 0).
  { unfold r. rewrite rev_nth by (fold len; lia). f_equal; fold len; lia. }
  assert (R1 : nth 1 r 0 = nth (len - 2) ctl 0).
  { unfold r. rewrite rev_nth by (fold len; lia). f_equal; fold len; lia. }
  cbn [app]. apply (f_equal2 cons). { reflexivity. }
  rewrite map_map. apply (f_equal2 (@app cgate)). { apply map_ext. intros p. reflexivity. }
  apply (f_equal2 cons). { reflexivity. }
  rewrite map_app. cbn [map]. apply (f_equal2 (@app cgate)).
  - rewrite <- map_rev, rev_seq0, !map_map.
    apply map_ext_in. intros q Hq. apply in_seq in Hq. unfold g_down, tri_gate, rq. fold r. fold len.
    replace (len - 2 - 1 - q) with (len - 3 - q) by lia.
    assert (E : nth (2 + (len - 3 - q)) r 0 = nth q ctl 0).
    { unfold r. rewrite rev_nth by (fold len; lia). f_equal; fold len; lia. }
    rewrite E. reflexivity.
  - unfold g_first, tri_gate, rq. fold r. now rewrite R0, R1.
Qed.
End Chain.

(* ---------- semantics of the ladder-based multi-controlled U, and the loop ---------- *)
Section AuxSem.
Variable U : nat -> mat2.
Variable n : nat.
Let u := 0.
Notation memq := (mem n true).
Definition clean (psi : state) : Prop := forall x, ~ cleanb n x -> psi x = RtoC 0.

Lemma cleanb_dec x : {cleanb n x} + {~ cleanb n x}.
Proof.
  destruct (forallb (fun i => negb (get x (anc i))) (seq 0 (n - 1))) eqn:E.
  - left. intros i Hi. rewrite forallb_forall in E. specialize (E i). rewrite in_seq in E.
    apply negb_true_iff. apply E. lia.
  - right. intros H. assert (T : forallb (fun i => negb (get x (anc i))) (seq 0 (n - 1)) = true).
    { apply forallb_forall. intros i Hi. apply in_seq in Hi. rewrite H by lia. reflexivity. }
    congruence.
Qed.
Lemma cleanb_upd_u x v : cleanb n (upd x u v) -> cleanb n x.
Proof. intros H i Hi. rewrite <- (H i Hi). symmetry. apply get_upd_other. unfold anc, u. lia. Qed.

Lemma clean_app1 psi V x : clean psi -> ~ cleanb n x -> app1 V u psi x = RtoC 0.
Proof.
  intros Hc Hx. unfold app1.
  rewrite (Hc (upd x u false)), (Hc (upd x u true)) by (intros H; apply Hx; now apply (cleanb_upd_u x _ H)). ring.
Qed.

Lemma twf_ladder ctl k : (forall c, In c ctl -> c < n) -> 2 <= length ctl -> length ctl <= n -> k <= length ctl - 2 ->
  Forall (twf u) (ladder n ctl k).
Proof.
  intros Hlt H2 Hn Hk. unfold ladder. constructor.
  - unfold g_first, twf, mem, anc, u. lia.
  - apply Forall_forall. intros g Hg. apply in_map_iff in Hg as [p [<- Hp]]. apply in_seq in Hp.
    unfold g_down, twf, mem, anc, u. lia.
Qed.

Theorem mcuvchain_sem j ctl psi : (forall c, In c ctl -> c < n) -> 2 <= length ctl -> length ctl <= n -> clean psi ->
  crun U (mcuvchain n true j ctl) psi = MCU u (map memq ctl) (U j) psi.
Proof.
  intros Hlt H2 Hn Hc. rewrite mcuvchain_shape by auto.
  rewrite !crun_app, !crun_tri, crun_single. cbn [capp forallb].
  assert (E : (fun b => if get b (anc (top n ctl)) && true
                        then app1 (U j) aux (mrun (ladder n ctl (length ctl - 2)) psi) b
                        else mrun (ladder n ctl (length ctl - 2)) psi b)
              = (fun x => if get x (anc (top n ctl)) then app1 (U j) u (mrun (ladder n ctl (length ctl - 2)) psi) x
                          else mrun (ladder n ctl (length ctl - 2)) psi x)).
  { apply functional_extensionality; intros b. now rewrite andb_true_r. }
  rewrite E, (conj_cu u) by (apply twf_ladder; auto).
  apply functional_extensionality; intros x. unfold MCU, allset.
  destruct (cleanb_dec x) as [Hx|Hx].
  - rewrite (ladder_top n ctl Hlt H2 Hn x Hx). reflexivity.
  - rewrite (clean_app1 psi (U j) x Hc Hx), (Hc x Hx).
    destruct (get (fwd (ladder n ctl (length ctl - 2)) x) (anc (top n ctl))); destruct (forallb (get x) (map memq ctl)); reflexivity.
Qed.

(* ancillas stay clean *)
Lemma clean_MCU ctl V psi : clean psi -> clean (MCU u ctl V psi).
Proof.
  intros Hc x Hx. unfold MCU. rewrite (clean_app1 psi V x Hc Hx), (Hc x Hx). now destruct (allset ctl x).
Qed.
Lemma cleanb_flips l x : (forall q, In q l -> n <= q) -> cleanb n (flips l x) -> cleanb n x.
Proof.
  intros Hl H i Hi. rewrite <- (H i Hi). symmetry. apply flips_get_out. intros I. apply Hl in I. unfold anc in I. lia.
Qed.
Lemma clean_FF ctl psi : (forall q, In q ctl -> n <= q) -> clean psi -> clean (FF u ctl psi).
Proof.
  intros Hl Hc x Hx. unfold FF, sigma. destruct (get x u); [|now apply Hc].
  apply Hc. intros H. apply Hx. now apply (cleanb_flips ctl).
Qed.
Lemma clean_step ctl V psi : (forall q, In q ctl -> n <= q) -> clean psi -> clean (step u ctl V psi).
Proof. intros Hl Hc. unfold step. apply clean_FF; auto. apply clean_MCU. now apply clean_FF. Qed.

Definition ctl_ofa (pat : list bool) : list nat := map memq (controls_of n pat).
Lemma ctl_ofa_ge pat q : In q (ctl_ofa pat) -> n <= q.
Proof. intros H. apply in_map_iff in H as [k [<- _]]. unfold mem. lia. Qed.
Lemma ctl_wfa pat : wfp u (ctl_ofa pat).
Proof.
  unfold wfp, ctl_ofa, mem, controls_of. split.
  - intro I. apply in_map_iff in I as [k [E Hk]]. apply filter_In in Hk as [Hk _]. apply in_seq in Hk. unfold u in E. lia.
  - apply Injective_map_NoDup. intros a b E; lia. apply NoDup_filter, seq_NoDup.
Qed.
Lemma controls_lt pat k : In k (controls_of n pat) -> k < n.
Proof. intros H. apply filter_In in H as [H _]. apply in_seq in H. lia. Qed.
Lemma filter_len {A} (f : A -> bool) l : length (filter f l) <= length l.
Proof. induction l as [|a l IH]; simpl; auto. destruct (f a); simpl; lia. Qed.
Lemma controls_len pat : length (controls_of n pat) <= n.
Proof. unfold controls_of. etransitivity. apply filter_len. now rewrite seq_length. Qed.

Lemma load_aux j pat psi : clean psi ->
  crun U (load n true j (controls_of n pat)) psi = MCU u (ctl_ofa pat) (U j) psi.
Proof.
  intros Hc. unfold load, ctl_ofa.
  destruct (controls_of n pat) as [|c [|c' l]] eqn:E; try reflexivity.
  rewrite <- E. apply mcuvchain_sem; auto.
  - apply controls_lt.
  - rewrite E. simpl. lia.
  - apply controls_len.
Qed.
Lemma ff_aux pat : flip_flop n true (controls_of n pat) = map (fun q => CCX u q) (ctl_ofa pat).
Proof. unfold flip_flop, ctl_ofa. now rewrite map_map. Qed.

Lemma patterns_sem_aux : forall pats j psi, pats <> [] -> clean psi ->
  crun U (patterns n true j pats) psi
  = FFp u (ctl_ofa (last pats [])) (run_pats u U j (map ctl_ofa pats) psi).
Proof.
  induction pats as [|p rest IH]; intros j psi Hne Hc. congruence.
  destruct (ctl_wfa p) as [Wu Wn].
  assert (Cf : clean (FF u (ctl_ofa p) psi)) by (apply clean_FF; auto; apply ctl_ofa_ge).
  destruct rest as [|p' rest'].
  - cbn [patterns last map run_pats]. rewrite ff_aux, crun_app.
    rewrite (ff_sem U u _ Wu Wn), load_aux by auto.
    symmetry. now apply step_FF.
  - change (patterns n true j (p :: p' :: rest'))
      with (flip_flop n true (controls_of n p) ++ load n true j (controls_of n p)
            ++ flip_flop n true (controls_of n p) ++ patterns n true (S j) (p' :: rest')).
    rewrite ff_aux, !crun_app.
    rewrite (ff_sem U u _ Wu Wn psi), load_aux by auto. rewrite (ff_sem U u _ Wu Wn).
    change (FF u (ctl_ofa p) (MCU u (ctl_ofa p) (U j) (FF u (ctl_ofa p) psi))) with (step u (ctl_ofa p) (U j) psi).
    rewrite IH; [reflexivity|discriminate|]. apply clean_step; auto. apply ctl_ofa_ge.
Qed.

Lemma clean_x_ket0 : clean (fun b => RtoC 0 + RtoC 1 * delta b (eu u))%C.
Proof.
  intros x Hx. rewrite delta_neq. ring. intros ->. apply Hx. intros i Hi.
  unfold eu. rewrite get_upd_other by (unfold anc, u; lia). apply get_0.
Qed.

Theorem cvo_gates_aux_spec (pats : list (list bool)) : pats <> [] ->
  (forall i i' p p', (i < i')%nat -> nth_error (map ctl_ofa pats) i = Some p -> nth_error (map ctl_ofa pats) i' = Some p' ->
                     not_fired p' p) ->
  forall b,
  crun U (cvo_gates n true pats) ket0 b
  = (loaded U 0 (map ctl_ofa pats) (RtoC 1) (sigma u (ctl_ofa (last pats [])) b)
     + remaining U 0 (map ctl_ofa pats) (RtoC 1) * delta (sigma u (ctl_ofa (last pats [])) b) (eu u))%C.
Proof.
  intros Hne NF b. unfold cvo_gates. rewrite crun_cons. change (CX0 aux) with (CX0 0). rewrite (x_ket0 U).
  rewrite patterns_sem_aux by (auto; apply clean_x_ket0). unfold FFp. unfold u.
  rewrite (loop_spec 0 U (map ctl_ofa pats) 0 (fun _ => RtoC 0) (RtoC 1)).
  - ring.
  - apply Forall_forall. intros p Hp. apply in_map_iff in Hp as [q [<- _]]. apply ctl_wfa.
  - reflexivity.
  - reflexivity.
  - exact NF.
Qed.
End AuxSem.

Theorem cvo_gates_aux_ordered (U : nat -> mat2) (n : nat) (pats : list (list bool)) : pats <> [] ->
  ordered_b (map (ctl_ofa n) pats) = true ->
  forall b,
  crun U (cvo_gates n true pats) ket0 b
  = (loaded U 0 (map (ctl_ofa n) pats) (RtoC 1) (sigma 0 (ctl_ofa n (last pats [])) b)
     + remaining U 0 (map (ctl_ofa n) pats) (RtoC 1) * delta (sigma 0 (ctl_ofa n (last pats [])) b) (eu 0))%C.
Proof.
  intros Hne Ho b. apply cvo_gates_aux_spec; auto.
  apply (ordered_sound 0); auto. apply Forall_forall. intros p Hp. apply in_map_iff in Hp as [q [<- _]]. apply ctl_wfa.
Qed.
