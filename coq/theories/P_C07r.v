(* Property C07 (part 3): the optimality clause ("which no state of that Schmidt rank can exceed").
   FULL STATEMENT (not proved in full): for psi = sum_i s_i u_i (x) v_i (Schmidt form, s non-increasing) and any unit phi of
   Schmidt rank <= k,  |<phi|psi>|^2 <= sum_{i<k} s_i^2.
   PROVED PART (C07_optimal_truncation_partial): the arithmetic core.  Cauchy-Schwarz and Bessel's inequality give
   |<phi|psi>|^2 <= sum_i s_i^2 w_i  with  w_i = |P u_i|^2 in [0,1]  (P = projector on the left support of phi, rank <= k) and
   sum_i w_i <= k; from there the bound by the k largest s_i^2 is this theorem.  MISSING: the Hilbert-space step (Cauchy-Schwarz,
   Bessel) producing the weights.  The value sum_{i<k} s_i^2 is the one the truncation reaches (C07_overlap_truncated). *)
From Coq Require Import Reals.
From QV Require Import TopK.
Open Scope R_scope.

Theorem C07_optimal_truncation_partial : forall (s w : nat -> R) (r k : nat), (k <= r)%nat ->
  (forall i, (i < r)%nat -> 0 <= s i) ->
  (forall i j, (i <= j)%nat -> (j < r)%nat -> s j <= s i) ->
  (forall i, (i < r)%nat -> 0 <= w i <= 1) ->
  rsum w r <= INR k ->
  rsum (fun i => s i * w i) r <= rsum s k.
Proof. exact topk_bound. Qed.
Print Assumptions C07_optimal_truncation_partial.
