(* Property C07 (part 3): the optimality clause ("which no state of that Schmidt rank can exceed"), in full.
   psi = sum_{i<r} s_i u_i (x) v_i with orthonormal u, orthonormal v, s >= 0 non-increasing (the Schmidt form numpy's SVD
   returns; contract monitored).  phi = sum_{j<k} t_j a_j (x) b_j with orthonormal a, orthonormal b and sum |t_j|^2 = 1: an
   arbitrary unit vector of Schmidt rank <= k, written in its own Schmidt form.  Then |<phi|psi>|^2 <= sum_{i<k} s_i^2 - the value
   the truncation to k terms reaches (C07_overlap_truncated).  Vectors are nat-indexed functions into C with explicit
   dimensions; inner / nrm2 / Cn2 are the finite-sum inner product, squared norm and squared modulus of Bessel.v.
   Proof: Cauchy-Schwarz twice and Bessel's inequality three times (Bessel.v) reduce the claim to the arithmetic bound
   C07_topk_bound. *)
From Coq Require Import Reals Arith.
From Coquelicot Require Import Complex.
From QV Require Import TopK Bessel SchmidtOpt.
Open Scope R_scope.

Theorem C07_optimal_truncation : forall (p q r k : nat) (u v a b : nat -> nat -> C) (s : nat -> R) (t : nat -> C),
  (k <= r)%nat ->
  (forall i l, (i < r)%nat -> (l < r)%nat -> inner p (u i) (u l) = if Nat.eqb i l then RtoC 1 else RtoC 0) ->
  (forall i l, (i < r)%nat -> (l < r)%nat -> inner q (v i) (v l) = if Nat.eqb i l then RtoC 1 else RtoC 0) ->
  (forall i l, (i < k)%nat -> (l < k)%nat -> inner p (a i) (a l) = if Nat.eqb i l then RtoC 1 else RtoC 0) ->
  (forall i l, (i < k)%nat -> (l < k)%nat -> inner q (b i) (b l) = if Nat.eqb i l then RtoC 1 else RtoC 0) ->
  (forall i, (i < r)%nat -> 0 <= s i) ->
  (forall i j, (i <= j)%nat -> (j < r)%nat -> s j <= s i) ->
  nrm2 k t = 1 ->
  Cn2 (overlap p q r k u v a b s t) <= rsum (fun i => s i * s i) k.
Proof. exact schmidt_rank_bound. Qed.
Print Assumptions C07_optimal_truncation.

Theorem C07_cauchy_schwarz : forall d x y, Cn2 (inner d x y) <= nrm2 d x * nrm2 d y.
Proof. exact cauchy_schwarz. Qed.
Print Assumptions C07_cauchy_schwarz.

Theorem C07_bessel : forall (d k : nat) (a : nat -> nat -> C),
  (forall j l, (j < k)%nat -> (l < k)%nat -> inner d (a j) (a l) = if Nat.eqb j l then RtoC 1 else RtoC 0) ->
  forall u, rsum (fun j => Cn2 (inner d (a j) u)) k <= nrm2 d u.
Proof. exact bessel. Qed.
Print Assumptions C07_bessel.

Theorem C07_topk_bound : forall (s w : nat -> R) (r k : nat), (k <= r)%nat ->
  (forall i, (i < r)%nat -> 0 <= s i) ->
  (forall i j, (i <= j)%nat -> (j < r)%nat -> s j <= s i) ->
  (forall i, (i < r)%nat -> 0 <= w i <= 1) ->
  rsum w r <= INR k ->
  rsum (fun i => s i * w i) r <= rsum s k.
Proof. exact topk_bound. Qed.
Print Assumptions C07_topk_bound.
