(* C14, in-circuit purification: the auxiliary register is prepared in sum_a s_a |a>, then for every i the preparation W_i
   of psi_i is applied to the data register controlled on the auxiliary register reading i.  State as a matrix
   Psi[a, x] (a = auxiliary index, x = data index).  Result: row a is s_a * (W_a e_0): the purification of the ensemble. *)
From mathcomp Require Import all_ssreflect all_algebra.
Set Implicit Arguments. Unset Strict Implicit. Unset Printing Implicit Defensive.
Import GRing.Theory.
Local Open Scope ring_scope.

Section InCircuit.
Variable (F : fieldType) (k d : nat).
Variable W : 'I_k -> 'M[F]_d.          (* W i = the circuit preparing psi_i, as an operator on the data register *)
Variable s : 'I_k -> F.                (* amplitudes of the auxiliary register *)
Variable z : 'I_d.                     (* the data basis state |0..0> *)

(* W_i on the data register, controlled on aux = i *)
Definition cstep (i : 'I_k) (Psi : 'M[F]_(k, d)) : 'M[F]_(k, d) :=
  \matrix_(a, x) (if a == i then \sum_y W i x y * Psi a y else Psi a x).
Definition Psi0 : 'M[F]_(k, d) := \matrix_(a, x) (if x == z then s a else 0).
Definition target : 'M[F]_(k, d) := \matrix_(a, x) (s a * W a x z).

Lemma cstep_row_other i Psi a x : a != i -> cstep i Psi a x = Psi a x.
Proof. by move=> H; rewrite mxE (negbTE H). Qed.
Lemma cstep_row_same i Psi x : cstep i Psi i x = \sum_y W i x y * Psi i y.
Proof. by rewrite mxE eqxx. Qed.

Lemma fold_rows (r : seq 'I_k) : uniq r ->
  forall a x, (foldr cstep Psi0 r) a x = if a \in r then s a * W a x z else Psi0 a x.
Proof.
  elim: r => [|i r IH] //= /andP [Hi Hu] a x.
  rewrite in_cons. case E: (a == i) => /=.
  - rewrite (eqP E) cstep_row_same.
    rewrite (eq_bigr (fun y => W i x y * Psi0 i y)).
      rewrite (bigD1 z) //= big1 ?addr0.
        by rewrite mxE eqxx mulrC.
      move=> y Hy. by rewrite mxE (negbTE Hy) mulr0.
    move=> y _. by rewrite IH // (negbTE Hi).
  - rewrite cstep_row_other; last by rewrite E. by rewrite IH.
Qed.

Theorem in_circuit_purification : foldr cstep Psi0 (enum 'I_k) = target.
Proof.
  apply/matrixP => a x. rewrite fold_rows ?enum_uniq //. rewrite mem_enum /=. by rewrite [in RHS]mxE.
Qed.
End InCircuit.
