(* C05: LinearMcx (general branch, k >= 6 controls, all-ones pattern, exact mode).
   The gate list of the model McxModel.linear_mcx - the one compared with qclib's LinearMcx on every run - denotes
   the exact multi-controlled X: target k flipped iff controls 0..k-1 are all 1, the borrowed ancilla k+1 and all
   controls restored, for EVERY input state (superpositions of the borrowed qubit included). *)
From Coq Require Import Reals Lra List Bool Arith Lia NArith FunctionalExtensionality.
From Coquelicot Require Import Complex.
From QV Require Import Sem Mat2 Toff2 Chain Vchain RelPhase McxModel McxPlaced.
Import ListNotations.
Open Scope nat_scope.

Lemma nodup_app_intro {A} (l m : list A) :
  NoDup l -> NoDup m -> (forall x, In x l -> In x m -> False) -> NoDup (l ++ m).
Proof.
  induction l as [|x l IH]; intros Hl Hm D; simpl. exact Hm.
  inversion Hl; subst. constructor.
  - intro I. apply in_app_or in I as [I|I]; [contradiction | apply (D x); [now left | exact I]].
  - apply IH; auto. intros y I1 I2. apply (D y); [now right | exact I2].
Qed.

Lemma map_nth_seq (l : list nat) a n :
  a + n <= length l -> map (fun i => nth i l 0) (seq a n) = firstn n (skipn a l).
Proof.
  revert a l. induction n as [|n IH]; intros a l H. reflexivity.
  cbn [seq map]. rewrite IH by lia.
  assert (a < length l) by lia.
  clear IH. revert l H H0. induction a as [|a IHa]; intros l H H0.
  - destruct l; simpl in *; [lia|]. reflexivity.
  - destruct l as [|x l]; simpl in *; [lia|]. apply IHa; lia.
Qed.

Lemma seq_add a n : seq a n = map (fun i => a + i) (seq 0 n).
Proof.
  revert a. induction n as [|n IH]; intros a. reflexivity.
  cbn [seq map]. f_equal. lia. rewrite (IH (S a)), (IH 1), map_map. apply map_ext. intros; lia.
Qed.

Lemma firstn_len_app {A} (l r : list A) : firstn (length l) (l ++ r) = l.
Proof. induction l; simpl; auto. now rewrite IHl. Qed.
Lemma skipn_len_app {A} (l r : list A) : skipn (length l) (l ++ r) = r.
Proof. induction l; simpl; auto. Qed.
Lemma firstn_app_len {A} (l r : list A) n : length l = n -> firstn n (l ++ r) = l.
Proof. intros <-. apply firstn_len_app. Qed.
Lemma skipn_app_len {A} (l r : list A) n : length l = n -> skipn n (l ++ r) = r.
Proof. intros <-. apply skipn_len_app. Qed.
Lemma firstn_seq_app n m r : firstn n (seq m n ++ r) = seq m n.
Proof. rewrite <- (seq_length n m) at 1. apply firstn_len_app. Qed.
Lemma skipn_seq_app n m r : skipn n (seq m n ++ r) = r.
Proof. rewrite <- (seq_length n m) at 1. apply skipn_len_app. Qed.

Lemma xs_nil k : xs [] k = [].
Proof.
  unfold xs. induction (seq 0 k) as [|i l IH]; simpl; auto. destruct i; simpl; exact IH.
Qed.

Section Linear.
Variable k : nat.
Hypothesis Hk : 6 <= k.
Let nq := k + 2.
Let k2 := (nq + 1) / 2.
Let k1 := k - k2 + 1.
Let t := k.
Let anc := k + 1.

Lemma k2_bounds : 2 * k2 <= k + 3 /\ k + 2 <= 2 * k2.
Proof.
  unfold k2, nq. pose proof (Nat.div_mod (k + 2 + 1) 2 ltac:(lia)).
  pose proof (Nat.mod_upper_bound (k + 2 + 1) 2 ltac:(lia)). lia.
Qed.
Lemma k1_k2 : k1 + k2 = k + 1 /\ 3 <= k1 /\ 4 <= k2 /\ k1 <= k2 /\ k2 <= k1 + 2.
Proof. pose proof k2_bounds. unfold k1. lia. Qed.

Let j1 := k1 - 3.
Let j2 := k2 - 3.
Let l1 := slice 0 k1 ++ slice k1 (k1 + k1 - 2) ++ [anc].
Let l2 := slice k1 k ++ [anc] ++ slice (k1 + 2 - k2) k1 ++ [t].

Definition c1 (i : nat) := nth i l1 0.
Definition a1 (i : nat) := nth (j1 + 3 + i) l1 0.
Definition c2 (i : nat) := nth i l2 0.
Definition a2 (i : nat) := nth (j2 + 3 + i) l2 0.

Lemma l1_len : length l1 = 2 * k1 - 1.
Proof. unfold l1, slice. rewrite !app_length, !seq_length. simpl. pose proof k1_k2. lia. Qed.
Lemma l2_len : length l2 = 2 * k2 - 1.
Proof. unfold l2, slice. rewrite !app_length, !seq_length. simpl. pose proof k1_k2. lia. Qed.

Lemma used_c1 : used_c c1 j1 = seq 0 k1.
Proof.
  pose proof k1_k2. unfold used_c, c1. replace (j1 + 3) with k1 by (unfold j1; lia).
  rewrite map_nth_seq by (rewrite l1_len; lia). cbn [skipn]. unfold l1, slice.
  replace (k1 - 0) with k1 by lia. apply firstn_seq_app.
Qed.
Lemma used_a1 : used_a a1 j1 = seq k1 (k1 - 2).
Proof.
  pose proof k1_k2. unfold used_a, a1.
  assert (E : map (fun i => nth (j1 + 3 + i) l1 0) (seq 0 (j1 + 1)) = map (fun i => nth i l1 0) (seq k1 (k1 - 2))).
  { replace (j1 + 1) with (k1 - 2) by (unfold j1; lia). rewrite (seq_add k1), map_map.
    apply map_ext. intros i. f_equal. unfold j1. lia. }
  rewrite E, map_nth_seq by (rewrite l1_len; lia). unfold l1, slice. replace (k1 - 0) with k1 by lia.
  rewrite skipn_seq_app. replace (k1 + k1 - 2 - k1) with (k1 - 2) by lia. apply firstn_seq_app.
Qed.
Lemma t1_anc : nth (j1 + 3 + (j1 + 1)) l1 0 = anc.
Proof.
  pose proof k1_k2. unfold l1, slice. replace (k1 - 0) with k1 by lia.
  rewrite app_nth2 by (rewrite seq_length; unfold j1; lia). rewrite seq_length.
  rewrite app_nth2 by (rewrite seq_length; unfold j1; lia). rewrite seq_length.
  replace (j1 + 3 + (j1 + 1) - k1 - (k1 + k1 - 2 - k1)) with 0 by (unfold j1; lia). reflexivity.
Qed.

Lemma l2_eq : l2 = seq k1 (k2 - 1) ++ [anc] ++ seq (k1 + 2 - k2) (k2 - 2) ++ [t].
Proof.
  pose proof k1_k2. unfold l2, slice. replace (k - k1) with (k2 - 1) by lia.
  replace (k1 - (k1 + 2 - k2)) with (k2 - 2) by lia. reflexivity.
Qed.
Lemma used_c2 : used_c c2 j2 = seq k1 (k2 - 1) ++ [anc].
Proof.
  pose proof k1_k2. unfold used_c, c2. replace (j2 + 3) with k2 by (unfold j2; lia).
  rewrite map_nth_seq by (rewrite l2_len; lia). cbn [skipn]. rewrite l2_eq.
  rewrite app_assoc. apply firstn_app_len. rewrite app_length, seq_length; simpl; lia.
Qed.
Lemma used_a2 : used_a a2 j2 = seq (k1 + 2 - k2) (k2 - 2).
Proof.
  pose proof k1_k2. unfold used_a, a2.
  assert (E : map (fun i => nth (j2 + 3 + i) l2 0) (seq 0 (j2 + 1)) = map (fun i => nth i l2 0) (seq k2 (k2 - 2))).
  { replace (j2 + 1) with (k2 - 2) by (unfold j2; lia). rewrite (seq_add k2), map_map.
    apply map_ext. intros i. f_equal. unfold j2. lia. }
  rewrite E, map_nth_seq by (rewrite l2_len; lia). rewrite l2_eq.
  rewrite app_assoc, (skipn_app_len (seq k1 (k2 - 1) ++ [anc])) by (rewrite app_length, seq_length; simpl; lia).
  apply firstn_seq_app.
Qed.
Lemma t2_tgt : nth (j2 + 3 + (j2 + 1)) l2 0 = t.
Proof.
  pose proof k1_k2. rewrite l2_eq.
  rewrite app_nth2 by (rewrite seq_length; unfold j2; lia). rewrite seq_length.
  rewrite app_nth2 by (simpl; unfold j2; lia). cbn [length].
  rewrite app_nth2 by (rewrite seq_length; unfold j2; lia). rewrite seq_length.
  replace (j2 + 3 + (j2 + 1) - (k2 - 1) - 1 - (k2 - 2)) with 0 by (unfold j2; lia). reflexivity.
Qed.

Lemma nodup1 : NoDup (used_c c1 j1 ++ used_a a1 j1 ++ [anc]).
Proof.
  pose proof k1_k2. rewrite used_c1, used_a1.
  apply nodup_app_intro; [apply seq_NoDup | |].
  - apply nodup_app_intro; [apply seq_NoDup | repeat constructor; simpl; tauto |].
    intros x I1 [<-|[]]. apply in_seq in I1. unfold anc in I1. lia.
  - intros x I1 I2. apply in_seq in I1. apply in_app_or in I2 as [I2|[<-|[]]].
    + apply in_seq in I2. lia. + unfold anc in I1. lia.
Qed.
Lemma nodup2 : NoDup (used_c c2 j2 ++ used_a a2 j2 ++ [t]).
Proof.
  pose proof k1_k2. rewrite used_c2, used_a2.
  apply nodup_app_intro.
  - apply nodup_app_intro; [apply seq_NoDup | repeat constructor; simpl; tauto |].
    intros x I1 [<-|[]]. apply in_seq in I1. unfold anc in I1. lia.
  - apply nodup_app_intro; [apply seq_NoDup | repeat constructor; simpl; tauto |].
    intros x I1 [<-|[]]. apply in_seq in I1. unfold t in I1. lia.
  - intros x I1 I2. apply in_app_or in I1 as [I1|[E1|[]]]; apply in_app_or in I2 as [I2|[E2|[]]].
    + apply in_seq in I1. apply in_seq in I2. lia.
    + apply in_seq in I1. subst x. subst t. lia.
    + apply in_seq in I2. subst x. subst anc. lia.
    + subst x. subst anc t. lia.
Qed.

Definition Gc : list sgate := general1_p c1 a1 anc j1 true.
Definition Sc : list sgate := general1_p c2 a2 t j2 false.

Lemma vchain_rel_k1 : map (relabel l1) (vchain k1 1 [] true false) = Gc.
Proof.
  pose proof k1_k2. unfold vchain. rewrite xs_nil, app_nil_r. cbn [app].
  replace k1 with (S (S (S j1))) at 1 by (unfold j1; lia). cbn [negb andb].
  rewrite relabel_general1, t1_anc. reflexivity.
Qed.
Lemma vchain_exact_k2 : map (relabel l2) (vchain k2 1 [] false false) = Sc.
Proof.
  pose proof k1_k2. unfold vchain. rewrite xs_nil, app_nil_r. cbn [app].
  replace k2 with (S (S (S j2))) at 1 by (unfold j2; lia). cbn [negb andb].
  replace (j2 =? 0) with false by (symmetry; apply Nat.eqb_neq; unfold j2; lia). cbn [andb].
  rewrite relabel_general1, t2_tgt. reflexivity.
Qed.

Lemma linear_unfold : linear_mcx k [] false = Gc ++ Sc ++ Gc ++ Sc.
Proof.
  unfold linear_mcx. rewrite xs_nil, app_nil_r. cbn [app].
  replace (k + 2 <? 5) with false by (symmetry; apply Nat.ltb_ge; lia).
  replace (k + 2 =? 5) with false by (symmetry; apply Nat.eqb_neq; lia).
  replace (k + 2 =? 6) with false by (symmetry; apply Nat.eqb_neq; lia).
  replace (k + 2 =? 7) with false by (symmetry; apply Nat.eqb_neq; lia).
  fold nq k2 k1 anc t. fold l1.
  change (slice k1 t ++ anc :: slice (k1 + 2 - k2) k1 ++ [t]) with l2.
  now rewrite vchain_rel_k1, vchain_exact_k2.
Qed.

Definition P2 (b : asg) : bool := forallb (fun c => get b c) (seq k1 (k2 - 1)).

Theorem linear_mcx_exact psi b :
  srun (linear_mcx k [] false) psi b
  = psi (if forallb (fun c => get b c) (seq 0 k) then flipq k b else b).
Proof.
  pose proof k1_k2 as K.
  rewrite linear_unfold, !srun_app.
  assert (NA1 : ~ In anc (used_c c1 j1)) by (rewrite used_c1; intro I; apply in_seq in I; unfold anc in I; lia).
  assert (NT1 : ~ In t (used_c c1 j1)) by (rewrite used_c1; intro I; apply in_seq in I; unfold t in I; lia).
  assert (NA2 : ~ In anc (seq k1 (k2 - 1))) by (intro I; apply in_seq in I; unfold anc in I; lia).
  assert (NT2 : ~ In t (seq k1 (k2 - 1))) by (intro I; apply in_seq in I; unfold t in I; lia).
  rewrite (lemma9 anc t ltac:(unfold anc, t; lia) (all_c c1 j1) (zpred c1 a1 anc j1) P2).
  - f_equal. unfold all_c. rewrite used_c1. unfold P2.
    assert (E : seq 0 k = seq 0 k1 ++ seq k1 (k2 - 1)) by (rewrite <- seq_app; f_equal; lia).
    rewrite E, forallb_app. reflexivity.
  - intros b0. now apply all_c_flip.
  - intros b0. now apply all_c_flip.
  - intros b0. now apply zpred_flip.
  - intros b0. now apply zpred_flip.
  - intros b0. unfold P2. now apply forallb_flip.
  - intros b0. unfold P2. now apply forallb_flip.
  - intros b0. apply zpred_excl.
  - intros phi b0. apply (general1_rel c1 a1 anc j1 nodup1).
  - intros phi b0. unfold Sc. rewrite (general1_exact c2 a2 t j2 nodup2).
    f_equal. unfold all_c. rewrite used_c2, forallb_app. unfold P2. cbn [forallb]. now rewrite andb_true_r.
Qed.
End Linear.

(* ---------- control patterns: X conjugation (gates/util.apply_ctrl_state) ---------- *)
Definition xbit (pat : list bool) (i : nat) : bool := negb (nth i pat true).      (* flip control i iff its pattern bit is 0 *)
Fixpoint xflip (pat : list bool) (k : nat) (b : asg) : asg :=
  match k with O => b | S k' => let b' := xflip pat k' b in if xbit pat k' then flipq k' b' else b' end.

Lemma xflip_get_lt pat k : forall b i, i < k -> get (xflip pat k b) i = xorb (get b i) (xbit pat i).
Proof.
  induction k as [|k IH]; intros b i Hi. lia.
  cbn [xflip]. destruct (Nat.eq_dec i k) as [->|Hne].
  - destruct (xbit pat k) eqn:E.
    + rewrite flipq_get_same. rewrite (Chain.cperm_get (fun _ => 0) (fun _ => 0)) || idtac.
      assert (G : forall k' b0, k' <= k -> get (xflip pat k' b0) k = get b0 k).
      { induction k' as [|k' IHk]; intros b0 Hk'. reflexivity. cbn [xflip].
        destruct (xbit pat k'); [rewrite flipq_get_other by lia|]; apply IHk; lia. }
      rewrite G by lia. now destruct (get b k).
    + assert (G : forall k' b0, k' <= k -> get (xflip pat k' b0) k = get b0 k).
      { induction k' as [|k' IHk]; intros b0 Hk'. reflexivity. cbn [xflip].
        destruct (xbit pat k'); [rewrite flipq_get_other by lia|]; apply IHk; lia. }
      rewrite G by lia. now rewrite xorb_false_r.
  - destruct (xbit pat k); [rewrite flipq_get_other by auto|]; apply IH; lia.
Qed.
Lemma xflip_get_ge pat k : forall b q, k <= q -> get (xflip pat k b) q = get b q.
Proof.
  induction k as [|k IH]; intros b q Hq. reflexivity.
  cbn [xflip]. destruct (xbit pat k); [rewrite flipq_get_other by lia|]; apply IH; lia.
Qed.
Lemma xflip_invol pat k b : xflip pat k (xflip pat k b) = b.
Proof.
  apply asg_ext. intros q. destruct (Nat.lt_ge_cases q k).
  - rewrite !xflip_get_lt by auto. now destruct (get b q), (xbit pat q).
  - now rewrite !xflip_get_ge by auto.
Qed.
Lemma xflip_flipq pat k q b : k <= q -> xflip pat k (flipq q b) = flipq q (xflip pat k b).
Proof.
  intros H. apply asg_ext. intros x. destruct (Nat.eq_dec x q) as [->|Hx].
  - rewrite flipq_get_same, !xflip_get_ge by auto. now rewrite flipq_get_same.
  - rewrite flipq_get_other by auto. destruct (Nat.lt_ge_cases x k).
    + rewrite !xflip_get_lt by auto. now rewrite flipq_get_other by auto.
    + rewrite !xflip_get_ge by auto. now rewrite flipq_get_other by auto.
Qed.

Lemma xs_sem pat k : forall psi b, srun (xs pat k) psi b = psi (xflip pat k b).
Proof.
  unfold xs. induction k as [|k IH]; intros psi b. reflexivity.
  rewrite seq_S, flat_map_app, srun_app. cbn [flat_map Nat.add xflip]. unfold xbit.
  destruct (nth k pat true); cbn [negb app].
  - cbn [srun fold_left]. apply IH.
  - rewrite srun_cons. cbn [srun fold_left sapp]. unfold appf. rewrite app1_X, IH. now rewrite xflip_flipq by lia.
Qed.

(* the pattern predicate: control i must read pat_i *)
Definition pmatch (pat : list bool) (k : nat) (b : asg) : bool :=
  forallb (fun i => Bool.eqb (get b i) (nth i pat true)) (seq 0 k).

Lemma pmatch_xflip pat k b : forallb (fun c => get (xflip pat k b) c) (seq 0 k) = pmatch pat k b.
Proof.
  unfold pmatch. apply forallb_ext_in || idtac.
  assert (E : forall l, (forall i, In i l -> i < k) ->
              forallb (fun c => get (xflip pat k b) c) l = forallb (fun i => Bool.eqb (get b i) (nth i pat true)) l).
  { induction l as [|i l IH]; intros H; simpl; auto. rewrite IH by (intros; apply H; now right).
    rewrite xflip_get_lt by (apply H; now left). unfold xbit. f_equal.
    now destruct (get b i), (nth i pat true). }
  apply E. intros i I. apply in_seq in I. lia.
Qed.

(* a circuit that is the exact MCX on the all-ones pattern becomes the MCX on `pat` under X conjugation *)
Theorem ctrl_state_conj pat k tq (c : list sgate) : k <= tq ->
  (forall psi b, srun c psi b = psi (if forallb (fun q => get b q) (seq 0 k) then flipq tq b else b)) ->
  forall psi b, srun (xs pat k ++ c ++ xs pat k) psi b = psi (if pmatch pat k b then flipq tq b else b).
Proof.
  intros Ht Hc psi b. rewrite !srun_app, xs_sem, Hc, xs_sem, pmatch_xflip.
  destruct (pmatch pat k b).
  - now rewrite <- xflip_flipq, xflip_invol by auto.
  - now rewrite xflip_invol.
Qed.

Theorem linear_mcx_pattern k pat psi b : 6 <= k ->
  srun (linear_mcx k pat false) psi b = psi (if pmatch pat k b then flipq k b else b).
Proof.
  intros Hk.
  assert (U : linear_mcx k pat false = xs pat k ++ linear_mcx k [] false ++ xs pat k).
  { unfold linear_mcx. rewrite xs_nil, app_nil_r. reflexivity. }
  rewrite U. apply ctrl_state_conj. lia. intros phi b0. now apply linear_mcx_exact.
Qed.

(* McxVchainDirty with k = j + 3 >= 4 controls, one target, exact mode, any control pattern *)
Theorem vchain_pattern j pat psi b : 1 <= j ->
  srun (vchain (j + 3) 1 pat false false) psi b
  = psi (if pmatch pat (j + 3) b then flipq (j + 3 + (j + 1)) b else b).
Proof.
  intros Hj. unfold vchain. replace (j + 3) with (S (S (S j))) at 2 by lia. cbn [negb andb].
  replace (j =? 0) with false by (symmetry; apply Nat.eqb_neq; lia). cbn [andb].
  apply ctrl_state_conj. lia. intros phi b0. rewrite vchain_general_exact. unfold all_controls. reflexivity.
Qed.
