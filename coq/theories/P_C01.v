(* Property C01 (top-down part).  PARTIAL: the level-by-level walk of top-down preparation maps |0..0> to the
   amplitude tree of its angle tables (every n, every table), and the angle tree computed from a state tree reproduces
   the state's magnitudes and phases relative to the root (zero sub-trees included).  C01_topdown_model composes them with
   C13's multiplexer theorems at list level: the GATE LIST of the executable model (the one compared with
   TopDownInitialize on every run), for every n and every rational angle table, prepares the amplitude tree of its tables -
   all four `any(angles_y)` / `any(angles_z)` branches, the shared omitted CNOT, the reversed RZ multiplexer and the qubit
   placement included.  The Schmidt-based, UCG and isometry-based initializers are tied by monitors and evaluated. *)
From Coq Require Import Reals Lra List Bool Arith NArith.
From Coquelicot Require Import Complex.
From Coq Require Import QArith Qreals.
From QV Require Import Sem Mat2 Toff2 Chain UcrPlaced TopDownWalk AmpTree UcrModel TopDownModel TopDownGlue.
Open Scope R_scope.

Theorem C01_topdown_amplitudes : forall (n : nat) (ay az : nat -> nat -> R) (b : asg),
  (forall q, (n <= q)%nat -> get b q = false) ->
  walk n ay az n ket0 b = amp ay az n (lidx n n b).
Proof. intros n ay az b H. now apply topdown_amplitudes. Qed.
Print Assumptions C01_topdown_amplitudes.

Theorem C01_amp_tree : forall (mag arg : nat -> nat -> R),
  (forall l j, 0 <= mag l j) ->
  (forall l j, mag l j * mag l j = mag (S l) (2*j)%nat * mag (S l) (2*j)%nat + mag (S l) (2*j+1)%nat * mag (S l) (2*j+1)%nat) ->
  (forall l j, arg l j = (arg (S l) (2*j)%nat + arg (S l) (2*j+1)%nat) / 2) ->
  forall l j, (j < 2 ^ l)%nat ->
  (amp (ay mag) (az arg) l j * mag 0%nat 0%nat = mag l j * cis (arg l j - arg 0%nat 0%nat))%C.
Proof. intros mag arg H1 H2 H3 l j Hj. now apply amp_tree. Qed.
Print Assumptions C01_amp_tree.

Theorem C01_topdown_model : forall (n : nat) (ys zs : list (list Q)) (b : asg),
  length ys = n -> length zs = n -> (forall q, (n <= q)%nat -> get b q = false) ->
  run (map (valgate Q2R) (topdown_q0 n ys zs)) ket0 b
  = amp (tab (map (map Q2R) ys)) (tab (map (map Q2R) zs)) n (lidx n n b).
Proof. exact topdown_q0_amplitudes. Qed.
Print Assumptions C01_topdown_model.

(* end to end: if the tables are the angle tree of a state tree (mag, arg) - checked numerically on the logged trees on
   every run - the circuit prepares m_k e^{i(phi_k - phi_root)} (times the root magnitude 1 of a unit vector); the
   global phase phi_root is the one TopDownInitialize adds (also checked per run) *)
Theorem C01_topdown_prepares_state : forall (n : nat) (ys zs : list (list R)) (mag arg : nat -> nat -> R) (b : asg),
  length ys = n -> length zs = n ->
  (forall l j, 0 <= mag l j) ->
  (forall l j, mag l j * mag l j = mag (S l) (2*j)%nat * mag (S l) (2*j)%nat + mag (S l) (2*j+1)%nat * mag (S l) (2*j+1)%nat) ->
  (forall l j, arg l j = (arg (S l) (2*j)%nat + arg (S l) (2*j+1)%nat) / 2) ->
  (forall l j, (l < n)%nat -> (j < 2 ^ l)%nat -> tab ys l j = ay mag l j /\ tab zs l j = az arg l j) ->
  (forall q, (n <= q)%nat -> get b q = false) ->
  (run (map gR (topdown_gates Rops nzR n ys zs 0)) ket0 b * mag 0%nat 0%nat
   = mag n (lidx n n b) * cis (arg n (lidx n n b) - arg 0%nat 0%nat))%C.
Proof. exact topdown_prepares_state. Qed.
Print Assumptions C01_topdown_prepares_state.
