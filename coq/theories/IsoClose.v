(* C03, column-by-column scheme: the closing step.  _ccd multiplies the isometry V from the left by the matrix of every gate
   it emits (G = product of the emitted gates, tracked numerically in `iso`) until `iso` = J * Phi, where J is the
   embedding I_{2^n, 2^m} and Phi a diagonal of phases; it then appends the diagonal gate D with D^-1 J = J Phi and returns
   the inverse circuit.  If G V = J Phi, the returned operator (D G)^-1 = G^-1 D^-1 maps J to V: column k of the embedding,
   i.e. basis state k of the m input qubits, goes to column k of V.  Over any ring. *)
From mathcomp Require Import all_ssreflect all_algebra.
Set Implicit Arguments. Unset Strict Implicit. Unset Printing Implicit Defensive.
Import GRing.Theory.
Local Open Scope ring_scope.

Section Close.
Variable (R : ringType) (N M : nat).
Variables (G Ginv D Dinv : 'M[R]_N) (V J : 'M[R]_(N, M)) (Phi : 'M[R]_M).
Hypothesis GinvG : Ginv *m G = 1%:M.
Hypothesis sweep : G *m V = J *m Phi.          (* what the column sweep reaches (monitored on every run) *)
Hypothesis diag : Dinv *m J = J *m Phi.        (* the appended diagonal gate *)

Theorem ccd_closing : (Ginv *m Dinv) *m J = V.
Proof. by rewrite -mulmxA diag -sweep mulmxA GinvG mul1mx. Qed.
End Close.
