(* C07 / C01, phase 2 of the low-rank circuit: the CNOT fan  cx(b_j, a_j), j < e  copies the e low bits of register b into
   register a: a superposition sum_i s_i |i>_b |0>_a becomes sum_i s_i |i>_b |i>_a (the matrix Psi2 of LowRankAsm.v).
   Stated with the sound sparse simulation of FnSem (entries = amplitude, basis state). *)
From Coq Require Import Reals Lra List Bool Arith Lia NArith ZArith FunctionalExtensionality.
From Coquelicot Require Import Complex.
From QV Require Import Sem Mat2 Toff2 Chain Vchain Cvoqram FnPointsModel FnSem.
Import ListNotations.
Open Scope nat_scope.

Definition fan (ps : list (nat * nat)) : list fgate := map (fun p => FCX (fst p) (snd p)) ps.

(* copying bit by bit: after the fan, every target a_j holds  old a_j xor b_j ; nothing else changes *)
Lemma fan_get : forall ps, NoDup (map snd ps) -> (forall p q, In p ps -> In q ps -> fst p <> snd q) ->
  forall B x, get (cls (fan ps) B) x
  = match find (fun p => Nat.eqb (snd p) x) ps with Some p => xorb (get B x) (get B (fst p)) | None => get B x end.
Proof.
  induction ps as [|[c t] ps IH]; intros Hn Hd B x. reflexivity.
  cbn [map fst snd] in Hn. inversion Hn as [|? ? Ht Hn']; subst.
  cbn [fan map cls fold_left fperm fst snd]. change (fold_left (fun B g => fperm g B) (fan ps) ?b) with (cls (fan ps) b).
  rewrite IH; auto; [|intros p q Hp Hq; apply Hd; now right].
  cbn [find fst snd].
  assert (Hct : c <> t) by (apply (Hd (c, t) (c, t)); now left).
  destruct (Nat.eqb_spec t x) as [->|Htx].
  - assert (F : find (fun p => snd p =? x) ps = None).
    { destruct (find (fun p => snd p =? x) ps) eqn:E; auto. apply find_some in E as [Hin Heq].
      apply Nat.eqb_eq in Heq. exfalso. apply Ht. rewrite <- Heq. now apply in_map. }
    rewrite F. cbn [fst]. destruct (get B c) eqn:Ec.
    + rewrite flq_same. now destruct (get B x).
    + now rewrite xorb_false_r.
  - destruct (find (fun p => snd p =? x) ps) as [[c' t']|] eqn:E.
    + apply find_some in E as [Hin Heq]. simpl in Heq. apply Nat.eqb_eq in Heq. subst t'. cbn [fst].
      assert (Hc' : c' <> t) by (apply (Hd (c', x) (c, t)); [now right | now left]).
      destruct (get B c); [rewrite !flq_other by auto|]; reflexivity.
    + destruct (get B c); [rewrite flq_other by auto|]; reflexivity.
Qed.

(* on a basis state whose target qubits are 0 the fan copies each control bit into its target *)
Theorem fan_copies ps B : NoDup (map snd ps) -> (forall p q, In p ps -> In q ps -> fst p <> snd q) ->
  (forall p, In p ps -> get B (snd p) = false) ->
  forall x, get (cls (fan ps) B) x
  = match find (fun p => Nat.eqb (snd p) x) ps with Some p => get B (fst p) | None => get B x end.
Proof.
  intros Hn Hd Hz x. rewrite fan_get by auto.
  destruct (find (fun p => snd p =? x) ps) as [p|] eqn:E; auto.
  apply find_some in E as [Hin Heq]. apply Nat.eqb_eq in Heq. rewrite <- Heq, (Hz p Hin). apply xorb_false_l.
Qed.

(* the fan as an operator on a finite superposition: amplitudes stay, basis states are copied *)
Theorem fan_den Nv ps (l : list entry) :
  (forall p q, In p ps -> In q ps -> fst p <> snd q) ->
  frun Nv (fan ps) (den l) = den (map (fun e => (fst e, cls (fan ps) (snd e))) l).
Proof.
  intros Hd. rewrite (sim_sound Nv).
  - f_equal. apply sim_classical. unfold fan. rewrite forallb_forall. intros g Hg. apply in_map_iff in Hg as [p [<- _]]. reflexivity.
  - unfold fan. apply Forall_forall. intros g Hg. apply in_map_iff in Hg as [p [<- Hp]]. simpl. now apply (Hd p p).
Qed.
