(* C01: executable gate-list model of qclib.state_preparation.util.tree_walk.top_down for start_level = 0
   (TopDownInitialize), polymorphic in the angle type like UcrModel.  Level l (0-based) has 2^l nodes; its target is
   qubit n-1-l, its controls are qubits n-l .. n-1 (level l-1 .. root), placed as [target] + controls[::-1]. *)
From Coq Require Import List Bool Arith Lia QArith Qabs.
From QV Require Import Sem UcrModel.
Import ListNotations.

Section Generic.
Context {A : Type} (o : aops A) (nz : A -> bool).      (* nz x = bool(x) of a float: x != 0 *)
Variable n : nat.
Definition place (l : nat) (q : nat) : nat := match q with O => n - 1 - l | S q' => n - l + q' end.
Definition relabel_p (f : nat -> nat) (g : pgate A) : pgate A :=
  match g with PRot r x q => PRot r x (f q) | PEnt e c t => PEnt e (f c) (f t) end.
Definition anyb (l : list A) : bool := existsb nz l.

Definition level_gates (l : nat) (ys zs : list A) (d : A) : list (pgate A) :=
  let anyy := anyb ys in let anyz := anyb zs in
  (if anyy then map (relabel_p (place l)) (ucr_g o RotY EntCX l (fun j => nth j ys d) (negb anyz)) else [])
  ++ (if anyz then map (relabel_p (place l)) (rev (ucr_g o RotZ EntCX l (fun j => nth j zs d) (negb anyy))) else []).

(* angle tables: level l -> list of 2^l angles *)
Fixpoint topdown_levels (l : nat) (ys zs : list (list A)) (d : A) : list (pgate A) :=
  match ys, zs with
  | y :: ys', z :: zs' => level_gates l y z d ++ topdown_levels (S l) ys' zs' d
  | _, _ => []
  end.
Definition topdown_gates (ys zs : list (list A)) (d : A) : list (pgate A) := topdown_levels 0 ys zs d.
End Generic.

Definition qnz (x : Q) : bool := negb (Qeq_bool x 0).
Definition topdown_q (n : nat) (ys zs : list (list Q)) : list (pgate Q) := topdown_gates qops qnz n ys zs 0%Q.
(* the same model with the leaf test "skip iff angle = 0" (the one the theorems are about) *)
Definition qops0 : aops Q :=
  {| aadd := Qplus; asub := Qminus; ahalf := fun x => Qred (x / 2); askip := fun x => Qeq_bool x 0 |}.
Definition topdown_q0 (n : nat) (ys zs : list (list Q)) : list (pgate Q) := topdown_gates qops0 qnz n ys zs 0%Q.
