(* C17: executable gate-list model of qclib.memory.pqm.initialize and its tie to Pqm.pqm (classical pattern). *)
From Coq Require Import Reals Lra List Bool Arith Lia NArith ZArith FunctionalExtensionality.
From Coquelicot Require Import Complex.
From QV Require Import Sem Mat2 Toff2 Chain Pqm.
Import ListNotations.
Open Scope nat_scope.

(* angles are num*pi/den *)
Inductive pgate := PH (q : nat) | PX (q : nat) | PCX (c t : nat) | PP (num den : Z) (q : nat) | PCP (num den : Z) (c t : nat).

Definition xs_gates (mq : nat -> nat) (pat : list bool) (ks : list nat) : list pgate :=
  flat_map (fun k => if nth k pat false then [PX (mq k)] else []) ks.
Definition cxs_gates (pq mq : nat -> nat) (ks : list nat) : list pgate := map (fun k => PCX (pq k) (mq k)) ks.

(* is_classical_pattern = True: pattern given as bits; memory qubits mq 0..n-1, auxiliary xq *)
Definition pqm_gates (n : nat) (mq : nat -> nat) (xq : nat) (pat : list bool) : list pgate :=
  [PH xq] ++ xs_gates mq pat (seq 0 n)
  ++ map (fun k => PP (-1) (2 * Z.of_nat n) (mq k)) (seq 0 n)
  ++ map (fun k => PCP 1 (Z.of_nat n) xq (mq k)) (seq 0 n)
  ++ xs_gates mq pat (rev (seq 0 n)) ++ [PH xq].
(* quantum pattern register pq *)
Definition pqm_gates_q (n : nat) (pq mq : nat -> nat) (xq : nat) : list pgate :=
  [PH xq] ++ cxs_gates pq mq (seq 0 n)
  ++ map (fun k => PP (-1) (2 * Z.of_nat n) (mq k)) (seq 0 n)
  ++ map (fun k => PCP 1 (Z.of_nat n) xq (mq k)) (seq 0 n)
  ++ cxs_gates pq mq (rev (seq 0 n)) ++ [PH xq].

Open Scope R_scope.
Definition ang (num den : Z) : R := IZR num * PI / IZR den.
Definition papp (g : pgate) (psi : state) : state :=
  match g with
  | PH q => app1 Hm q psi
  | PX q => app1 Xm q psi
  | PCX c t => appf (fun b => Xpow (get b c)) t psi
  | PP n d q => app1 (Pm (ang n d)) q psi
  | PCP n d c t => cp (ang n d) c t psi
  end.
Definition prun (c : list pgate) (psi : state) : state := fold_left (fun s g => papp g s) c psi.
Lemma prun_app c1 c2 psi : prun (c1 ++ c2) psi = prun c2 (prun c1 psi).
Proof. unfold prun. now rewrite fold_left_app. Qed.

Section Tie.
Variable mq : nat -> nat.
Variable xq : nat.
Variable pat : list bool.
Hypothesis mq_inj : forall i j, mq i = mq j -> i = j.
Hypothesis mq_x : forall i, mq i <> xq.
Let p (k : nat) := nth k pat false.

Lemma xs_asc n psi : prun (xs_gates mq pat (seq 0 n)) psi = xlayer mq p n psi.
Proof.
  induction n as [|n IH]; [reflexivity|].
  rewrite seq_S. unfold xs_gates in *. rewrite flat_map_app, prun_app, IH. cbn [flat_map xlayer Nat.add].
  unfold p. destruct (nth n pat false); reflexivity.
Qed.

Lemma flipq_flipall q n b : (forall i, (i < n)%nat -> q <> mq i) ->
  flipq q (flipall mq p n b) = flipall mq p n (flipq q b).
Proof.
  intros H. apply asg_ext; intros x.
  destruct (Nat.eq_dec x q) as [->|Hx].
  - rewrite flipq_get_same, !(flipall_get_o mq p) by auto. now rewrite flipq_get_same.
  - rewrite flipq_get_other by auto.
    destruct (mq_dec mq n x) as [[i [Hi ->]]|Ho].
    + rewrite !(flipall_get_m mq p mq_inj). now rewrite flipq_get_other by auto.
    + rewrite !(flipall_get_o mq p) by auto. now rewrite flipq_get_other by auto.
Qed.

Lemma xs_desc n psi : prun (xs_gates mq pat (rev (seq 0 n))) psi = xlayer mq p n psi.
Proof.
  revert psi. induction n as [|n IH]; intros psi; [reflexivity|].
  rewrite seq_S, rev_app_distr. cbn [rev app Nat.add]. unfold xs_gates in *. cbn [flat_map].
  rewrite prun_app, IH. cbn [xlayer]. fold (p n). destruct (p n) eqn:E; [|reflexivity].
  cbn [prun fold_left papp].
  apply functional_extensionality; intros b.
  rewrite (xlayer_sem mq p), !app1_X, (xlayer_sem mq p).
  f_equal. apply flipq_flipall. intros i Hi Hq. apply mq_inj in Hq. lia.
Qed.

Lemma p_layer n (l : Z) (d : Z) psi :
  prun (map (fun k => PP l d (mq k)) (seq 0 n)) psi = player mq (ang l d) n psi.
Proof.
  induction n as [|n IH]; [reflexivity|]. rewrite seq_S, map_app, prun_app, IH. reflexivity.
Qed.
Lemma cp_layer n (l d : Z) psi :
  prun (map (fun k => PCP l d xq (mq k)) (seq 0 n)) psi = cplayer mq xq (ang l d) n psi.
Proof.
  induction n as [|n IH]; [reflexivity|]. rewrite seq_S, map_app, prun_app, IH. reflexivity.
Qed.

Theorem pqm_gates_sem n psi : (0 < n)%nat ->
  prun (pqm_gates n mq xq pat) psi = pqm mq xq p n psi.
Proof.
  intros Hn. unfold pqm_gates, pqm. rewrite !prun_app.
  rewrite xs_desc, cp_layer, p_layer, xs_asc.
  cbn [prun fold_left papp].
  assert (Hn' : INR n <> 0) by (apply not_0_INR; lia).
  assert (E1 : ang (-1) (2 * Z.of_nat n) = - (PI / (2 * INR n))).
  { unfold ang. rewrite mult_IZR, <- INR_IZR_INZ. simpl (IZR (-1)). simpl (IZR 2). field. auto. }
  assert (E2 : ang 1 (Z.of_nat n) = 2 * (PI / (2 * INR n))).
  { unfold ang. rewrite <- INR_IZR_INZ. simpl (IZR 1). field. auto. }
  rewrite E1, E2. reflexivity.
Qed.
End Tie.
