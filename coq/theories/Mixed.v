From mathcomp Require Import all_ssreflect all_algebra.
Set Implicit Arguments. Unset Strict Implicit. Unset Printing Implicit Defensive.
Import GRing.Theory.
Local Open Scope ring_scope.

Section Purification.
Variable (F : fieldType) (conj : {rmorphism F -> F}).
Variables (d k : nat).                 (* data dimension, ensemble size *)
Variable psi : 'I_k -> 'cV[F]_d.       (* the pure states, as columns *)
Variable s p : 'I_k -> F.              (* amplitudes sqrt(p_i) and probabilities *)
Hypothesis sp : forall i, s i * conj (s i) = p i.

(* purification as a d x k matrix: column i is s_i * psi_i  (aux index = column) *)
Definition Psi : 'M[F]_(d, k) := \matrix_(a, i) (s i * psi i a 0).
Definition adj m n (A : 'M[F]_(m, n)) : 'M[F]_(n, m) := \matrix_(i, j) conj (A j i).

(* tracing out the auxiliary register = Psi * Psi^dagger ; the ensemble density matrix *)
Definition rho_ens : 'M[F]_d := \sum_i p i *: (psi i *m adj (psi i)).

Theorem partial_trace_purification : Psi *m adj Psi = rho_ens.
Proof.
  apply/matrixP => a b. rewrite /rho_ens !mxE summxE.
  apply: eq_bigr => i _. rewrite !mxE big_ord1 !mxE rmorphM.
  rewrite -(sp i). by rewrite mulrACA mulrA.
Qed.
End Purification.
Print Assumptions partial_trace_purification.
