(* C07 / C01: assembly of the low-rank (Schmidt) circuit, as matrices.  The state on (register b) x (register a) is a
   dB x dA matrix Psi.  Phases 1-2 (singular values on the low qubits of b, copied to a by the CNOT fan) give
   Psi2 = sum_i s_i e_(jb i) e_(ja i)^T; phases 3-4 apply the circuits of U to register b and of V^T to register a, operators
   WB, WA whose columns at the embedded indices are the Schmidt vectors (the isometry property C03, monitored).  The result is
   sum_i s_i u_i v_i^T = U diag(s) V^T restricted to the kept terms: the (truncated) Schmidt form.  Over any ring. *)
From mathcomp Require Import all_ssreflect all_algebra.
Set Implicit Arguments. Unset Strict Implicit. Unset Printing Implicit Defensive.
Import GRing.Theory.
Local Open Scope ring_scope.

Section Asm.
Variable (R : comRingType) (dB dA r : nat).
Variables (jb : 'I_r -> 'I_dB) (ja : 'I_r -> 'I_dA).      (* where basis state i of the e low qubits sits in each register *)
Variable s : 'I_r -> R.
Variables (WB : 'M[R]_dB) (WA : 'M[R]_dA).
Variables (U : 'M[R]_(dB, r)) (V : 'M[R]_(dA, r)).         (* columns = Schmidt vectors (V holds the columns of V^T) *)
Hypothesis colB : forall i, col (jb i) WB = col i U.
Hypothesis colA : forall i, col (ja i) WA = col i V.

Definition Psi2 : 'M[R]_(dB, dA) := \sum_i s i *: (delta_mx (jb i) (ja i)).

Lemma mul_delta (A : 'M[R]_dB) (B : 'M[R]_dA) i j :
  A *m delta_mx i j *m B^T = col i A *m (col j B)^T.
Proof.
  rewrite -(mul_delta_mx (0 : 'I_1) i j) mulmxA -colE -mulmxA. congr (_ *m _).
  by rewrite tr_col rowE.
Qed.

Theorem lowrank_assembly : WB *m Psi2 *m WA^T = \sum_i s i *: (col i U *m (col i V)^T).
Proof.
  rewrite /Psi2 mulmx_sumr mulmx_suml. apply: eq_bigr => i _.
  by rewrite -scalemxAr -scalemxAl mul_delta colB colA.
Qed.
End Asm.
