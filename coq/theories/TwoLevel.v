(* C02, the QR (Givens) scheme of qclib/unitary.py: every factor of the sequence is a two-level unitary, implemented as
     prep_1 ; ... ; prep_k ; multi-controlled U on the last differing qubit ; prep_k ; ... ; prep_1
   where each prep is a fully controlled X (zero-controls written as X ; . ; X) that moves one of the two basis states one Gray-code
   step.  This file proves, for every register width, every path that passes the checker path_ok and every 2x2 matrix, that the
   gate list acts as the two-level operator on the two basis states (identity elsewhere), with any content on the qubits above. *)
From Coq Require Import Reals Lra List Bool Arith Lia NArith FunctionalExtensionality.
From Coquelicot Require Import Complex.
From QV Require Import Sem Mat2 Toff2 Chain Vchain Cvoqram McxModel SparseSim.
Import ListNotations.
Open Scope nat_scope.

(* ---------- permutation operators and two-level operators ---------- *)
Definition Pt (tau : asg -> asg) (psi : state) : state := fun b => psi (tau b).
Definition TL (sigma : asg -> asg) (ix iy : asg -> bool) (M : mat2) (psi : state) : state :=
  fun b => if ix b then (m00 M * psi b + m01 M * psi (sigma b))%C
           else if iy b then (m10 M * psi (sigma b) + m11 M * psi b)%C else psi b.

Lemma TL_conj tau sigma ix iy M psi : (forall b, tau (tau b) = b) ->
  Pt tau (TL sigma ix iy M (Pt tau psi))
  = TL (fun b => tau (sigma (tau b))) (fun b => ix (tau b)) (fun b => iy (tau b)) M psi.
Proof.
  intros Ht. apply functional_extensionality; intros b. unfold Pt, TL. rewrite !Ht. reflexivity.
Qed.

(* ---------- patterns on the low n qubits ---------- *)
(* b agrees with p on the qubits below n other than m *)
Definition agree_ex (n m : nat) (p b : asg) : bool :=
  forallb (fun q => (q =? m) || Bool.eqb (get b q) (get p q)) (seq 0 n).
Definition eqlo (n : nat) (x b : asg) : bool := forallb (fun q => Bool.eqb (get b q) (get x q)) (seq 0 n).
Fixpoint setlo (n : nat) (x b : asg) : asg := match n with O => b | S k => upd (setlo k x b) k (get x k) end.
Definition tau (n m : nat) (p b : asg) : asg := if agree_ex n m p b then flipq m b else b.

Lemma agree_ex_spec n m p b : agree_ex n m p b = true <-> (forall q, q < n -> q <> m -> get b q = get p q).
Proof.
  unfold agree_ex. rewrite forallb_forall. split.
  - intros H q Hq Hm. specialize (H q). rewrite in_seq in H. specialize (H ltac:(lia)).
    apply orb_true_iff in H. destruct H as [H|H]. apply Nat.eqb_eq in H. lia. now apply eqb_prop.
  - intros H q Hq. apply in_seq in Hq. destruct (Nat.eq_dec q m) as [->|Hm].
    + now rewrite Nat.eqb_refl.
    + rewrite (H q) by lia. rewrite eqb_reflx. apply orb_true_r.
Qed.
Lemma eqlo_spec n x b : eqlo n x b = true <-> (forall q, q < n -> get b q = get x q).
Proof.
  unfold eqlo. rewrite forallb_forall. split.
  - intros H q Hq. apply eqb_prop. apply H. apply in_seq. lia.
  - intros H q Hq. apply in_seq in Hq. rewrite (H q) by lia. apply eqb_reflx.
Qed.
Lemma get_setlo n x b q : get (setlo n x b) q = if q <? n then get x q else get b q.
Proof.
  induction n as [|n IH]; cbn [setlo]. reflexivity.
  destruct (Nat.eq_dec q n) as [->|H].
  - rewrite get_upd_same. destruct (Nat.ltb_spec n (S n)); auto; lia.
  - rewrite get_upd_other by auto. rewrite IH.
    destruct (Nat.ltb_spec q n), (Nat.ltb_spec q (S n)); auto; lia.
Qed.

Lemma agree_ex_flip n m p b : agree_ex n m p (flipq m b) = agree_ex n m p b.
Proof.
  unfold agree_ex.
  assert (X : forall l, forallb (fun q => (q =? m) || Bool.eqb (get (flipq m b) q) (get p q)) l
                      = forallb (fun q => (q =? m) || Bool.eqb (get b q) (get p q)) l).
  { induction l as [|q l IH]; cbn [forallb]. reflexivity. rewrite IH. f_equal.
    destruct (Nat.eqb_spec q m) as [->|H]. reflexivity. now rewrite flipq_get_other. }
  apply X.
Qed.
Lemma tau_invol n m p b : tau n m p (tau n m p b) = b.
Proof.
  unfold tau. destruct (agree_ex n m p b) eqn:E.
  - rewrite agree_ex_flip, E. apply flipq_flipq.
  - now rewrite E.
Qed.
Lemma get_tau n m p b q : get (tau n m p b) q = if agree_ex n m p b && (q =? m) then negb (get b q) else get b q.
Proof.
  unfold tau. destruct (agree_ex n m p b); cbn [andb]; auto.
  destruct (Nat.eqb_spec q m) as [->|H]. apply flipq_get_same. now apply flipq_get_other.
Qed.

Lemma bool_dec_eq (a b : bool) : {a = b} + {a <> b}.
Proof. decide equality. Qed.
Lemma forallb_false_ex {A} (f : A -> bool) (l : list A) : forallb f l = false -> exists x, In x l /\ f x = false.
Proof.
  induction l as [|a l IH]; cbn [forallb]; intros H. discriminate.
  apply andb_false_iff in H. destruct H as [H|H].
  - exists a. split; auto. now left.
  - destruct (IH H) as [x [Hx Hf]]. exists x. split; auto. now right.
Qed.
(* a witness of disagreement off m below n *)
Lemma agree_ex_false n m p b : agree_ex n m p b = false -> exists q, q < n /\ q <> m /\ get b q <> get p q.
Proof.
  unfold agree_ex. intros H. apply forallb_false_ex in H. destruct H as [q [Hq Hf]].
  apply in_seq in Hq. apply orb_false_iff in Hf. destruct Hf as [H1 H2].
  apply Nat.eqb_neq in H1. apply eqb_false_iff in H2. exists q. repeat split; auto. lia.
Qed.

Lemma eqlo_false n x b q : q < n -> get b q <> get x q -> eqlo n x b = false.
Proof.
  intros Hq Hd. destruct (eqlo n x b) eqn:E; auto. rewrite eqlo_spec in E. exfalso. apply Hd. now apply E.
Qed.
Lemma negb_swap (a c : bool) : negb a = c -> a = negb c.
Proof. destruct a, c; simpl; congruence. Qed.

(* the transposition acts on the low register only *)
Lemma eqlo_tau n m p x b : m < n -> eqlo n x (tau n m p b) = eqlo n (tau n m p x) b.
Proof.
  intros Hm.
  destruct (agree_ex n m p b) eqn:Eb; destruct (agree_ex n m p x) eqn:Ex.
  - apply eq_iff_eq_true. rewrite !eqlo_spec. split; intros H q Hq; specialize (H q Hq);
      rewrite get_tau in *; rewrite ?Eb, ?Ex in *; cbn [andb] in *;
      destruct (Nat.eqb_spec q m); auto.
    + now apply negb_swap.
    + symmetry. apply negb_swap. now symmetry.
  - destruct (agree_ex_false n m p x Ex) as [q [Hq [Hqm Hd]]].
    rewrite agree_ex_spec in Eb.
    rewrite (eqlo_false n x (tau n m p b) q), (eqlo_false n (tau n m p x) b q); auto.
    + rewrite get_tau, Ex. cbn [andb]. rewrite (Eb q) by auto. auto.
    + rewrite get_tau. rewrite (proj2 (Nat.eqb_neq q m)) by auto. rewrite andb_false_r. rewrite (Eb q) by auto. auto.
  - destruct (agree_ex_false n m p b Eb) as [q [Hq [Hqm Hd]]].
    rewrite agree_ex_spec in Ex.
    rewrite (eqlo_false n x (tau n m p b) q), (eqlo_false n (tau n m p x) b q); auto.
    + rewrite get_tau. rewrite (proj2 (Nat.eqb_neq q m)) by auto. rewrite andb_false_r. rewrite (Ex q) by auto. auto.
    + rewrite get_tau, Eb. cbn [andb]. rewrite (Ex q) by auto. auto.
  - unfold tau. now rewrite Eb, Ex.
Qed.

Lemma agree_ex_setlo n m p x c : agree_ex n m p (setlo n x c) = agree_ex n m p x.
Proof.
  apply eq_iff_eq_true. rewrite !agree_ex_spec. split; intros H q Hq Hqm; specialize (H q Hq Hqm);
    rewrite get_setlo in *; destruct (Nat.ltb_spec q n); auto; lia.
Qed.
Lemma tau_setlo n m p x c : m < n -> tau n m p (setlo n x c) = setlo n (tau n m p x) c.
Proof.
  intros Hm. apply asg_ext. intros q. rewrite get_tau, get_setlo, agree_ex_setlo, get_setlo, get_tau.
  destruct (Nat.ltb_spec q n); auto.
  destruct (Nat.eqb_spec q m). lia. now rewrite andb_false_r.
Qed.
Lemma eqlo_setlo n x c : eqlo n x (setlo n x c) = true.
Proof. apply eqlo_spec. intros q Hq. rewrite get_setlo. destruct (Nat.ltb_spec q n); auto; lia. Qed.
Lemma setlo_eqlo n x b : eqlo n x b = true -> setlo n x b = b.
Proof.
  intros H. rewrite eqlo_spec in H. apply asg_ext. intros q. rewrite get_setlo.
  destruct (Nat.ltb_spec q n); auto. symmetry. now apply H.
Qed.
Lemma setlo_setlo n x y c : setlo n x (setlo n y c) = setlo n x c.
Proof. apply asg_ext. intros q. rewrite !get_setlo. destruct (Nat.ltb_spec q n); auto. Qed.

Lemma setlo_tau n m p x b : m < n -> setlo n x (tau n m p b) = setlo n x b.
Proof.
  intros Hm. apply asg_ext. intros q. rewrite !get_setlo. destruct (Nat.ltb_spec q n); auto.
  rewrite get_tau. destruct (Nat.eqb_spec q m). lia. now rewrite andb_false_r.
Qed.

(* ---------- the block as operators ---------- *)
Definition step := (nat * asg)%type.
Definition CUop (n d : nat) (p : asg) (M : mat2) (psi : state) : state :=
  appf (fun b => if agree_ex n d p b then M else I2) d psi.
Fixpoint Block (n : nat) (L : list step) (d : nat) (p : asg) (M : mat2) (psi : state) : state :=
  match L with
  | [] => CUop n d p M psi
  | (m, q) :: L' => Pt (tau n m q) (Block n L' d p M (Pt (tau n m q) psi))
  end.
(* the checker: every move stays inside the register, and after the moves the two states differ in qubit d only,
   the column state holding 0 there *)
Fixpoint path_ok (n : nat) (L : list step) (d : nat) (p col row : asg) : bool :=
  match L with
  | [] => (d <? n) && agree_ex n d p col && agree_ex n d p row && negb (get col d) && get row d
  | (m, q) :: L' => (m <? n) && path_ok n L' d p (tau n m q col) (tau n m q row)
  end.
Definition two_level (n : nat) (col row : asg) (M : mat2) (psi : state) : state :=
  fun b => if eqlo n col b then (m00 M * psi b + m01 M * psi (setlo n row b))%C
           else if eqlo n row b then (m10 M * psi (setlo n col b) + m11 M * psi b)%C else psi b.

Lemma eqlo_agree n d p x b : d < n -> agree_ex n d p x = true ->
  eqlo n x b = agree_ex n d p b && Bool.eqb (get b d) (get x d).
Proof.
  intros Hd Hx. rewrite agree_ex_spec in Hx. apply eq_iff_eq_true. rewrite andb_true_iff, eqlo_spec, agree_ex_spec. split.
  - intros H. split. intros q Hq Hqd. rewrite H by auto. now apply Hx. rewrite H by auto. apply eqb_reflx.
  - intros [H1 H2] q Hq. destruct (Nat.eq_dec q d) as [->|Hqd]. now apply eqb_prop. rewrite H1, Hx; auto.
Qed.

Lemma CUop_two_level n d p M col row psi :
  path_ok n [] d p col row = true -> CUop n d p M psi = two_level n col row M psi.
Proof.
  cbn [path_ok]. rewrite !andb_true_iff. intros [[[[Hd Hc] Hr] Hc0] Hr1].
  apply Nat.ltb_lt in Hd. apply negb_true_iff in Hc0.
  apply functional_extensionality; intros b. unfold CUop, two_level, appf, app1.
  rewrite (eqlo_agree n d p col b Hd Hc), (eqlo_agree n d p row b Hd Hr), Hc0, Hr1.
  destruct (agree_ex n d p b) eqn:Eb; cbn [andb].
  - assert (S0 : forall v, get b d = negb v -> upd b d v = setlo n (if v then row else col) b).
    { intros v Hv. apply asg_ext. intros q. rewrite get_setlo.
      rewrite agree_ex_spec in Eb, Hc, Hr.
      destruct (Nat.eq_dec q d) as [->|Hq].
      - rewrite get_upd_same. destruct (Nat.ltb_spec d n); [|lia]. destruct v; congruence.
      - rewrite get_upd_other by auto. destruct (Nat.ltb_spec q n); auto.
        rewrite (Eb q) by auto. destruct v; [rewrite Hr | rewrite Hc]; auto. }
    pose proof (upd_get b d) as Eu.
    destruct (get b d) eqn:Ed; cbn [Bool.eqb mget].
    + rewrite (S0 false) by auto. rewrite Eu. reflexivity.
    + rewrite (S0 true) by auto. rewrite Eu. reflexivity.
  - pose proof (upd_get b d) as Eu.
    destruct (get b d) eqn:Ed; cbn [mget I2 m00 m01 m10 m11]; rewrite Eu; ring.
Qed.

Theorem Block_two_level n L : forall d p M col row psi,
  path_ok n L d p col row = true -> Block n L d p M psi = two_level n col row M psi.
Proof.
  induction L as [|[m q] L IH]; intros d p M col row psi H.
  - now apply CUop_two_level.
  - cbn [path_ok] in H. apply andb_true_iff in H. destruct H as [Hm H]. apply Nat.ltb_lt in Hm.
    cbn [Block]. rewrite (IH d p M _ _ _ H).
    apply functional_extensionality; intros b. unfold Pt, two_level.
    rewrite !eqlo_tau, !tau_invol by auto.
    rewrite !tau_setlo, !tau_invol, !setlo_tau by auto. reflexivity.
Qed.

(* ---------- the gate lists (alphabet of SparseSim: X, multi-controlled table entry) ---------- *)
From QV Require Import LinearMcx.
Section Gates.
Variable M : nat -> mat2.
Hypothesis M0 : M 0 = Xm.
Let run := mrun M.

Lemma run_app P Q psi : run (P ++ Q) psi = run Q (run P psi).
Proof. unfold run, mrun. apply fold_left_app. Qed.

Definition mxs (pat : list bool) (k : nat) : list mg :=
  flat_map (fun i => if nth i pat true then [] else [MGX i]) (seq 0 k).
Lemma mxs_sem pat k : forall psi b, run (mxs pat k) psi b = psi (xflip pat k b).
Proof.
  unfold mxs. induction k as [|k IH]; intros psi b. reflexivity.
  rewrite seq_S, flat_map_app, run_app. cbn [flat_map Nat.add xflip]. unfold xbit.
  destruct (nth k pat true); cbn [negb app].
  - cbn [run mrun fold_left]. apply IH.
  - change (run [MGX k] (run (flat_map (fun i => if nth i pat true then [] else [MGX i]) (seq 0 k)) psi) b)
      with (app1 Xm k (run (flat_map (fun i => if nth i pat true then [] else [MGX i]) (seq 0 k)) psi) b).
    rewrite app1_X, IH. now rewrite xflip_flipq by lia.
Qed.

(* pattern of a move: the other qubits must read p, the moved qubit is not touched *)
Definition patl (n m : nat) (p : asg) : list bool := map (fun q => (q =? m) || get p q) (seq 0 n).
Definition others (n m : nat) : list nat := filter (fun q => negb (q =? m)) (seq 0 n).
Definition cgate (i n m : nat) (p : asg) : list mg :=
  mxs (patl n m p) n ++ [MGU i (others n m) m] ++ mxs (patl n m p) n.
Definition blockg_i (i n : nat) (L : list step) (d : nat) (p : asg) : list mg :=
  flat_map (fun s => cgate 0 n (fst s) (snd s)) L ++ cgate i n d p ++ flat_map (fun s => cgate 0 n (fst s) (snd s)) (rev L).
Definition blockg := blockg_i 1.

Lemma nth_patl n m p i : i < n -> nth i (patl n m p) true = (i =? m) || get p i.
Proof.
  intros Hi. unfold patl. set (f := fun q => (q =? m) || get p q).
  rewrite (nth_indep _ true (f 0)) by (rewrite map_length, seq_length; auto).
  rewrite (map_nth f). rewrite seq_nth by auto. reflexivity.
Qed.
Lemma xbit_patl n m p i : i < n -> xbit (patl n m p) i = negb (i =? m) && negb (get p i).
Proof. intros Hi. unfold xbit. rewrite nth_patl by auto. apply negb_orb. Qed.

Lemma allq_others n m p b : m < n -> allq (others n m) (xflip (patl n m p) n b) = agree_ex n m p b.
Proof.
  intros Hm. apply eq_iff_eq_true. unfold allq, others. rewrite forallb_forall, agree_ex_spec. split.
  - intros H q Hq Hqm. specialize (H q). rewrite filter_In, in_seq in H.
    assert (Hin : 0 <= q < 0 + n /\ negb (q =? m) = true) by (split; [lia | apply negb_true_iff; now apply Nat.eqb_neq]).
    specialize (H Hin).
    rewrite xflip_get_lt, xbit_patl in H by auto. rewrite (proj2 (Nat.eqb_neq q m)) in H by auto. cbn [negb andb] in H.
    destruct (get b q), (get p q); cbn in H; congruence.
  - intros H q Hq. apply filter_In in Hq. destruct Hq as [Hq Hqm]. apply in_seq in Hq.
    apply negb_true_iff in Hqm. apply Nat.eqb_neq in Hqm.
    rewrite xflip_get_lt, xbit_patl by lia. rewrite (proj2 (Nat.eqb_neq q m)) by auto. cbn [negb andb].
    rewrite (H q) by lia. now destruct (get p q).
Qed.
Lemma xflip_patl_m n m p b : m < n -> get (xflip (patl n m p) n b) m = get b m.
Proof. intros Hm. rewrite xflip_get_lt, xbit_patl by auto. rewrite Nat.eqb_refl. cbn [negb andb]. apply xorb_false_r. Qed.
Lemma xflip_patl_upd n m p b v : m < n -> xflip (patl n m p) n (upd (xflip (patl n m p) n b) m v) = upd b m v.
Proof.
  intros Hm. apply asg_ext. intros q. destruct (Nat.eq_dec q m) as [->|Hq].
  - rewrite xflip_patl_m by auto. now rewrite !get_upd_same.
  - rewrite get_upd_other by auto. destruct (Nat.lt_ge_cases q n).
    + rewrite xflip_get_lt by auto. rewrite get_upd_other by auto. rewrite xflip_get_lt by auto.
      now destruct (get b q), (xbit (patl n m p) q).
    + rewrite xflip_get_ge by auto. rewrite get_upd_other by auto. now rewrite xflip_get_ge by auto.
Qed.

Lemma cgate_sem i n m p psi : m < n ->
  run (cgate i n m p) psi = appf (fun b => if agree_ex n m p b then M i else I2) m psi.
Proof.
  intros Hm. apply functional_extensionality; intros b. unfold cgate. rewrite !run_app, mxs_sem.
  change (run [MGU i (others n m) m] (run (mxs (patl n m p) n) psi) (xflip (patl n m p) n b))
    with (appf (fun c => if allq (others n m) c then M i else I2) m (run (mxs (patl n m p) n) psi) (xflip (patl n m p) n b)).
  unfold appf, app1. rewrite allq_others, xflip_patl_m by auto. rewrite !mxs_sem, !xflip_patl_upd by auto. reflexivity.
Qed.

Lemma move_sem n m p psi : m < n -> run (cgate 0 n m p) psi = Pt (tau n m p) psi.
Proof.
  intros Hm. rewrite cgate_sem by auto. apply functional_extensionality; intros b. unfold appf, Pt, tau.
  destruct (agree_ex n m p b). rewrite M0. apply app1_X. apply app1_I2.
Qed.

Lemma path_moves n L : forall d p col row, path_ok n L d p col row = true -> Forall (fun s => fst s < n) L.
Proof.
  induction L as [|[m q] L IH]; intros d p col row H. constructor.
  cbn [path_ok] in H. apply andb_true_iff in H. destruct H as [Hm H]. apply Nat.ltb_lt in Hm.
  constructor. exact Hm. eapply IH. exact H.
Qed.

Lemma blockg_i_Block i n L : forall d p psi, Forall (fun s => fst s < n) L -> d < n ->
  run (blockg_i i n L d p) psi = Block n L d p (M i) psi.
Proof.
  induction L as [|[m q] L IH]; intros d p psi HL Hd.
  - unfold blockg_i. cbn [flat_map rev app]. rewrite app_nil_r. now apply cgate_sem.
  - inversion HL as [|s l Hm HL']; subst. cbn [fst] in Hm.
    assert (E : blockg_i i n ((m, q) :: L) d p = cgate 0 n m q ++ blockg_i i n L d p ++ cgate 0 n m q).
    { unfold blockg_i. cbn [flat_map rev fst snd]. rewrite flat_map_app. cbn [flat_map fst snd]. rewrite app_nil_r.
      rewrite <- !app_assoc. reflexivity. }
    rewrite E, !run_app, !move_sem by auto. rewrite IH by auto. reflexivity.
Qed.
Lemma blockg_Block n L d p psi : Forall (fun s => fst s < n) L -> d < n ->
  run (blockg n L d p) psi = Block n L d p (M 1) psi.
Proof. apply blockg_i_Block. Qed.

(* the theorem: a block whose path passes the checker is the two-level operator *)
Theorem blockg_i_two_level i n L d p col row psi : path_ok n L d p col row = true ->
  run (blockg_i i n L d p) psi = two_level n col row (M i) psi.
Proof.
  intros H. rewrite blockg_i_Block.
  - now apply Block_two_level.
  - eapply path_moves. exact H.
  - clear psi. revert col row H. induction L as [|[m q] L IH]; intros col row H; cbn [path_ok] in H.
    + rewrite !andb_true_iff in H. apply Nat.ltb_lt. tauto.
    + apply andb_true_iff in H. destruct H as [_ H]. eapply IH. exact H.
Qed.
Theorem blockg_two_level n L d p col row psi : path_ok n L d p col row = true ->
  run (blockg n L d p) psi = two_level n col row (M 1) psi.
Proof. apply blockg_i_two_level. Qed.
End Gates.

(* ---------- the path that the code takes (unitary._build_qr_circuit): always move the lowest differing qubit ---------- *)
Definition diffs (n : nat) (col row : asg) : list nat := filter (fun q => xorb (get col q) (get row q)) (seq 0 n).
Fixpoint gray (ds : list nat) (col row : asg) : list step * nat * asg :=
  match ds with
  | [] => ([], 0, col)
  | m :: ds' =>
      match ds' with
      | [] => ([], m, col)
      | _ :: _ =>
          let r := if get row m then gray ds' (upd col m true) row else gray ds' col (upd row m true) in
          ((m, if get row m then col else row) :: fst (fst r), snd (fst r), snd r)
      end
  end.

Definition Dspec (n : nat) (ds : list nat) (col row : asg) : Prop :=
  NoDup ds /\ (forall q, In q ds <-> q < n /\ get col q <> get row q).

Lemma diffs_spec n col row : Dspec n (diffs n col row) col row.
Proof.
  unfold Dspec, diffs. split.
  - apply NoDup_filter. apply seq_NoDup.
  - intros q. rewrite filter_In, in_seq. split.
    + intros [H1 H2]. split. lia. destruct (get col q), (get row q); cbn in H2; congruence.
    + intros [H1 H2]. split. lia. destruct (get col q), (get row q); cbn; congruence.
Qed.

Lemma agree_ex_refl n m p : agree_ex n m p p = true.
Proof. apply agree_ex_spec. reflexivity. Qed.
Lemma tau_self n m p : tau n m p p = flipq m p.
Proof. unfold tau. now rewrite agree_ex_refl. Qed.

Lemma gray_ok n : forall ds col row, ds <> [] -> Dspec n ds col row ->
  get col (last ds 0) = false -> get row (last ds 0) = true ->
  path_ok n (fst (fst (gray ds col row))) (snd (fst (gray ds col row))) (snd (gray ds col row)) col row = true.
Proof.
  induction ds as [|m ds IH]; intros col row Hne [Hnd Hin] Hc Hr. congruence.
  destruct ds as [|m2 ds].
  - (* one differing qubit left *)
    cbn [gray fst snd path_ok last] in *.
    assert (Hm : m < n) by (apply (Hin m); now left).
    rewrite (proj2 (Nat.ltb_lt m n) Hm), agree_ex_refl, Hc, Hr. cbn [andb negb].
    rewrite !andb_true_r. apply agree_ex_spec. intros q Hq Hqm.
    destruct (bool_dec_eq (get row q) (get col q)) as [E|E]; auto.
    exfalso. assert (In q [m]) by (apply Hin; split; auto). cbn in H. destruct H; auto.
  - assert (Hm : m < n) by (apply (Hin m); now left).
    assert (Hm2 : m2 < n /\ get col m2 <> get row m2) by (apply (Hin m2); right; now left).
    assert (Hmm2 : m <> m2).
    { inversion Hnd as [|x l Hx Hl]; subst. intros ->. apply Hx. now left. }
    assert (Hdm : get col m <> get row m) by (apply (Hin m); now left).
    assert (Hlast : last (m :: m2 :: ds) 0 = last (m2 :: ds) 0) by reflexivity.
    assert (Hlm : last (m2 :: ds) 0 <> m).
    { inversion Hnd as [|x l Hx Hl]; subst. intros E. apply Hx. rewrite <- E. apply (@exists_last _ (m2 :: ds)) in Hne || idtac.
      clear - E. assert (X : forall (l : list nat) a, In (last (a :: l) 0) (a :: l)).
      { induction l as [|b l IHl]; intros a. now left. right. apply (IHl b). }
      apply X. }
    cbn [gray]. destruct (get row m) eqn:Erm.
    + (* row has 1, column has 0: the column state moves *)
      assert (Ecm : get col m = false) by (destruct (get col m); congruence).
      cbn [fst snd path_ok]. rewrite (proj2 (Nat.ltb_lt m n) Hm). cbn [andb].
      assert (T1 : tau n m col col = upd col m true).
      { rewrite tau_self. unfold flipq. now rewrite Ecm. }
      assert (T2 : tau n m col row = row).
      { unfold tau. destruct (agree_ex n m col row) eqn:E; auto. rewrite agree_ex_spec in E.
        exfalso. apply (proj2 Hm2). symmetry. apply E; [apply Hm2 | auto]. }
      rewrite T1, T2. apply IH.
      * discriminate.
      * split. now inversion Hnd.
        intros q. split.
        -- intros Hq. assert (Hq' : In q (m :: m2 :: ds)) by now right.
           apply Hin in Hq'. destruct Hq' as [Hqn Hqd]. split; auto.
           assert (q <> m). { inversion Hnd as [|x l Hx Hl]; subst. intros ->. now apply Hx. }
           now rewrite get_upd_other.
        -- intros [Hqn Hqd]. destruct (Nat.eq_dec q m) as [->|Hqm].
           ++ rewrite get_upd_same, Erm in Hqd. congruence.
           ++ rewrite get_upd_other in Hqd by auto.
              assert (Hq' : In q (m :: m2 :: ds)) by (apply Hin; auto). destruct Hq'; [congruence | auto].
      * rewrite get_upd_other by auto. now rewrite <- Hlast.
      * now rewrite <- Hlast.
    + (* row has 0, column has 1: the row state moves *)
      assert (Ecm : get col m = true) by (destruct (get col m); congruence).
      cbn [fst snd path_ok]. rewrite (proj2 (Nat.ltb_lt m n) Hm). cbn [andb].
      assert (T1 : tau n m row row = upd row m true).
      { rewrite tau_self. unfold flipq. now rewrite Erm. }
      assert (T2 : tau n m row col = col).
      { unfold tau. destruct (agree_ex n m row col) eqn:E; auto. rewrite agree_ex_spec in E.
        exfalso. apply (proj2 Hm2). apply E; [apply Hm2 | auto]. }
      rewrite T1, T2. apply IH.
      * discriminate.
      * split. now inversion Hnd.
        intros q. split.
        -- intros Hq. assert (Hq' : In q (m :: m2 :: ds)) by now right.
           apply Hin in Hq'. destruct Hq' as [Hqn Hqd]. split; auto.
           assert (q <> m). { inversion Hnd as [|x l Hx Hl]; subst. intros ->. now apply Hx. }
           now rewrite get_upd_other.
        -- intros [Hqn Hqd]. destruct (Nat.eq_dec q m) as [->|Hqm].
           ++ rewrite get_upd_same, Ecm in Hqd. congruence.
           ++ rewrite get_upd_other in Hqd by auto.
              assert (Hq' : In q (m :: m2 :: ds)) by (apply Hin; auto). destruct Hq'; [congruence | auto].
      * now rewrite <- Hlast.
      * rewrite get_upd_other by auto. now rewrite <- Hlast.
Qed.

(* for every pair of distinct basis states of the register, column state below the row state at the highest differing qubit *)
Theorem gray_path_ok n col row : diffs n col row <> [] ->
  get col (last (diffs n col row) 0) = false -> get row (last (diffs n col row) 0) = true ->
  let r := gray (diffs n col row) col row in
  path_ok n (fst (fst r)) (snd (fst r)) (snd r) col row = true.
Proof. intros H1 H2 H3. apply gray_ok; auto. apply diffs_spec. Qed.

(* the whole block from the two basis states alone *)
Definition qr_block (n : nat) (col row : asg) : list mg :=
  let r := gray (diffs n col row) col row in blockg n (fst (fst r)) (snd (fst r)) (snd r).
Definition qr_pre (n : nat) (col row : asg) : bool :=
  match diffs n col row with
  | [] => false
  | _ :: _ => negb (get col (last (diffs n col row) 0)) && get row (last (diffs n col row) 0)
  end.
Theorem qr_block_two_level (M : nat -> mat2) n col row psi : M 0 = Xm -> qr_pre n col row = true ->
  mrun M (qr_block n col row) psi = two_level n col row (M 1) psi.
Proof.
  intros M0 H. unfold qr_pre in H. unfold qr_block.
  apply (blockg_two_level M M0). apply gray_path_ok.
  - destruct (diffs n col row); [discriminate | discriminate].
  - destruct (diffs n col row) eqn:E; [discriminate|]. apply andb_true_iff in H. now apply negb_true_iff.
  - destruct (diffs n col row) eqn:E; [discriminate|]. apply andb_true_iff in H. tauto.
Qed.

(* ---------- the whole circuit: one block per factor of the Givens sequence, block k using the matrix M (k + 1) ---------- *)
Definition qr_block_i (i n : nat) (col row : asg) : list mg :=
  let r := gray (diffs n col row) col row in blockg_i i n (fst (fst r)) (snd (fst r)) (snd r).
Fixpoint qr_circuit (n k : nat) (prs : list (asg * asg)) : list mg :=
  match prs with
  | [] => []
  | (col, row) :: rest => qr_block_i (S k) n col row ++ qr_circuit n (S k) rest
  end.
Fixpoint qr_ops (M : nat -> mat2) (n k : nat) (prs : list (asg * asg)) (psi : state) : state :=
  match prs with
  | [] => psi
  | (col, row) :: rest => qr_ops M n (S k) rest (two_level n col row (M (S k)) psi)
  end.
Theorem qr_circuit_sem (M : nat -> mat2) n : M 0 = Xm -> forall prs k psi,
  forallb (fun cr => qr_pre n (fst cr) (snd cr)) prs = true ->
  mrun M (qr_circuit n k prs) psi = qr_ops M n k prs psi.
Proof.
  intros M0. induction prs as [|[col row] rest IH]; intros k psi H. reflexivity.
  cbn [forallb fst snd] in H. apply andb_true_iff in H. destruct H as [H1 H2].
  cbn [qr_circuit qr_ops].
  assert (A : forall P Q s, mrun M (P ++ Q) s = mrun M Q (mrun M P s)) by (intros; unfold mrun; apply fold_left_app).
  rewrite A. rewrite <- (IH (S k)) by auto. f_equal.
  unfold qr_pre in H1. unfold qr_block_i.
  apply (blockg_i_two_level M M0). apply gray_path_ok.
  - destruct (diffs n col row); [discriminate | discriminate].
  - destruct (diffs n col row) eqn:E; [discriminate|]. apply andb_true_iff in H1. now apply negb_true_iff.
  - destruct (diffs n col row) eqn:E; [discriminate|]. apply andb_true_iff in H1. tauto.
Qed.
