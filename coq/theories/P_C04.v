(* Property C04: multi-controlled one-qubit gates.
   Ldmcsu (linear-depth multi-controlled SU(2)), branches 'main or secondary diagonal real', is proved on the gate list of the
   model (compared with qclib's Ldmcsu on every run) for EVERY number of controls k >= 2 and EVERY control pattern: the circuit
   applies U to the target iff the controls match the pattern (C04_ldmcsu_plain, C04_ldmcsu_hconj) - the four dirty-ancilla
   V-chains (one of them inverted) on their exact qubit lists are C05's theorems for every size, and the 2x2 premise
   (A^dagger X A X)^2 = U is C04_gate_a_fourth_root (checked numerically per run).  The recursion step of Qdmcu (Barenco 7.5) is
   a theorem; the Ldmcu ladder, the eigenbasis branch, LdMcSpecialUnitary, MCU and the multi-target variant are evaluated. *)
From Coq Require Import Reals Lra List Bool Arith ZArith.
From Coquelicot Require Import Complex.
From QV Require Import Sem Mat2 Toff2 Chain Barenco GateA McxModel LinearMcx LdmcsuModel QdmcuModel.
From QV Require LdmcuCore LdmcuModel LdmcuInst AbcModel LdmcsuEig Transpose MultiTarget MultiTargetAll McuModel McuExtra.
Open Scope R_scope.

(* CV(c->t) ; MCX(rest->c) ; CV^dagger(c->t) ; MCX(rest->c) ; C^{rest}V(t)  =  U on t controlled on rest /\ c,
   for any predicate `rest` that reads neither c nor t, whenever V V = U and V is invertible *)
Theorem C04_barenco_step : forall (c t : nat), c <> t ->
  forall (R : asg -> bool), (forall b v, R (upd b c v) = R b) -> (forall b v, R (upd b t v) = R b) ->
  forall U V Vd : mat2, mmul V V = U -> mmul V Vd = I2 -> mmul Vd V = I2 ->
  forall psi,
  CCV t R V (M c R (CVd c t Vd (M c R (CV c t V psi)))) = appf (fun b => mpow U (R b && get b c)) t psi.
Proof. intros c t Hct R Rc Rt U V Vd H1 H2 H3 psi. now apply barenco_step. Qed.
Print Assumptions C04_barenco_step.

(* closed form of Ldmcsu._compute_gate_a (branch x <> 0): in same-axis quaternion coordinates
   Q(a; b, c), Q^2 = Q(a^2-b^2-c^2; 2ab, 2ac), the returned A^dagger = Q(alpha_r; beta, alpha_i) satisfies
   ((A^dagger)^2)^2 = U = Q(zr; x, zi), i.e. (A^dagger X A X)^2 = U since X A X = A^dagger *)
Theorem C04_gate_a_fourth_root : forall zr zi x : R, zr * zr + zi * zi + x * x = 1 -> 0 < zr + 1 ->
  sq3 (sq3 (alpha_r zr, beta zr x, alpha_i zr zi)) = (zr, x, zi).
Proof. intros zr zi x H1 H2. now apply gate_a_fourth_root. Qed.
Print Assumptions C04_gate_a_fourth_root.

Example ex_gate_a_hyp : (3/5) * (3/5) + 0 * 0 + (4/5) * (4/5) = 1 /\ 0 < 3/5 + 1.
Proof. split; lra. Qed.

Open Scope nat_scope.
(* Ldmcsu, secondary diagonal real: no Hadamard conjugation *)
Theorem C04_ldmcsu_plain : forall (k : nat), 2 <= k -> forall (pat : list bool) (A Ad Hd U : mat2),
  mmul Ad A = I2 -> mmul A Ad = I2 ->
  mmul (mmul (mmul Ad Xm) (mmul A Xm)) (mmul (mmul Ad Xm) (mmul A Xm)) = U ->
  forall psi, lrun A Ad Hd (ldmcsu k pat false) psi = appf (fun b => if pmatch pat k b then U else I2) k psi.
Proof. intros k Hk pat A Ad Hd U H1 H2 H3 psi. now apply (ldmcsu_spec_plain k Hk pat A Ad Hd U U). Qed.
Print Assumptions C04_ldmcsu_plain.

(* Ldmcsu, main diagonal real: Hadamard conjugation of the target, (A^dagger X A X)^2 = H U H *)
Theorem C04_ldmcsu_hconj : forall (k : nat), 2 <= k -> forall (pat : list bool) (A Ad Hd U U' : mat2),
  mmul Ad A = I2 -> mmul A Ad = I2 ->
  mmul (mmul (mmul Ad Xm) (mmul A Xm)) (mmul (mmul Ad Xm) (mmul A Xm)) = U' ->
  mmul Hd Hd = I2 -> mmul Hd (mmul U' Hd) = U ->
  forall psi, lrun A Ad Hd (ldmcsu k pat true) psi = appf (fun b => if pmatch pat k b then U else I2) k psi.
Proof. intros k Hk pat A Ad Hd U U' H1 H2 H3 H4 H5 psi. now apply (ldmcsu_spec_hconj k Hk pat A Ad Hd U U'). Qed.
Print Assumptions C04_ldmcsu_hconj.

(* Qdmcu (quadratic depth, Iten et al. Theorem 4): controls 0..k1 with pattern pat, target K, any number of controls,
   V (l+1) a square root of V l (custom_sqrtm iterated), Vd the daggers.  The LinearMcx blocks are the action-only ones. *)
Theorem C04_qdmcu : forall V Vd : nat -> mat2,
  (forall l, mmul (V (S l)) (V (S l)) = V l) -> (forall l, mmul (V l) (Vd l) = I2) -> (forall l, mmul (Vd l) (V l) = I2) ->
  forall (K k1 lvl : nat) (pat : list bool) (psi : state), S k1 <= K ->
  qrun V Vd (qdmcu K k1 lvl pat) psi = appf (fun b => if pmatch pat (S k1) b then V lvl else I2) K psi.
Proof. exact qdmcu_sem. Qed.
Print Assumptions C04_qdmcu.

(* custom_sqrtm: the root taken through the spectral decomposition squares to the matrix *)
Theorem C04_spectral_sqrt : forall (P Q : mat2) (l1 l2 r1 r2 : C),
  mmul P P = P -> mmul Q Q = Q -> mmul P Q = Z2 -> mmul Q P = Z2 -> (r1 * r1 = l1)%C -> (r2 * r2 = l2)%C ->
  mmul (madd (mscal r1 P) (mscal r2 Q)) (madd (mscal r1 P) (mscal r2 Q)) = madd (mscal l1 P) (mscal l2 Q).
Proof. exact spectral_sqrt. Qed.
Print Assumptions C04_spectral_sqrt.

(* the exact LinearMcx, every pattern, every k >= 1 (the action-only variant differs by a controls-only circuit) *)
Theorem C04_linear_mcx_exact : forall (k : nat) (pat : list bool), 1 <= k -> forall psi b,
  srun (linear_mcx k pat false) psi b = psi (if pmatch pat k b then flipq k b else b).
Proof. exact lm_exact. Qed.
Print Assumptions C04_linear_mcx_exact.

(* Ldmcu (linear depth, da Silva & Park): T >= 1 controls 0..T-1 with pattern pat, target T.  The gate list is the one the code
   emits: X on the 0-controls, four sweeps of controlled gates over the pairs (control, target) sorted stably by control + target
   (descending, ascending, descending, ascending), X again.  A controlled gate on a control qubit t is RX(z pi / 2^(t-1)), on the
   target it is W^z, W the deepest root U^(1/2^(T-1)) and Wi its inverse.  The circuit applies W^(2^(T-1)) = U to the target
   exactly on the basis states matching the pattern, and restores every control, phase included. *)
Theorem C04_ldmcu : forall (T : nat) (W Wi : mat2) (pat : list bool) (psi : state),
  1 <= T -> mmul W Wi = I2 -> mmul Wi W = I2 ->
  LdmcuInst.frun (LdmcuInst.ELd T W Wi) (LdmcuInst.ldmcu T pat) psi
  = appf (fun b => if pmatch pat T b then LdmcuInst.npow W (2 ^ (T - 1)) else I2) T psi.
Proof. exact LdmcuInst.ldmcu_sem. Qed.
Print Assumptions C04_ldmcu.

(* the arithmetic at the heart of it: with y_c = x_c xor [x_0 .. x_(c-1) all 1],
   x_0 + sum_(c=1..m) (x_c - y_c) 2^(c-1) = 2^m [x_0 .. x_m all 1] *)
Theorem C04_ldmcu_weights : forall m b,
  (LdmcuCore.wsum LdmcuCore.wt (seq 0 (S m)) b + LdmcuCore.wsum (fun c => (- LdmcuCore.wt c)%Z) (seq 1 m) (LdmcuCore.tau m b)
   = LdmcuCore.bz (LdmcuCore.ones (S m) b) * 2 ^ Z.of_nat m)%Z.
Proof. exact LdmcuCore.weight_identity. Qed.
Print Assumptions C04_ldmcu_weights.

(* LdMcSpecialUnitary (Barenco Lemma 7.9 + Iten et al. Theorem 5): every k >= 1 controls, every pattern.  M 9, M 10, M 11 are the
   operators A, B, C of U (used as they are below three controls); from three controls on the controlled A, B, C are themselves
   blocks  a ; cx ; b ; cx ; c  (M 0..2 for A, M 3..5 for B, M 6..8 for C) around the LinearMcx on the first k-1 controls, which
   targets the target qubit and borrows the last control (action_only from six controls on) and its inverse. *)
Theorem C04_ldmc_special : forall (M : nat -> mat2) (MA MB MC U : mat2),
  mmul (M 0) (mmul Xm (mmul (M 1) (mmul Xm (M 2)))) = MA -> mmul (M 0) (mmul (M 1) (M 2)) = I2 ->
  mmul (M 3) (mmul Xm (mmul (M 4) (mmul Xm (M 5)))) = MB -> mmul (M 3) (mmul (M 4) (M 5)) = I2 ->
  mmul (M 6) (mmul Xm (mmul (M 7) (mmul Xm (M 8)))) = MC -> mmul (M 6) (mmul (M 7) (M 8)) = I2 ->
  mmul MA (mmul Xm (mmul MB (mmul Xm MC))) = U -> mmul MA (mmul MB MC) = I2 ->
  mmul (M 9) (mmul Xm (mmul (M 10) (mmul Xm (M 11)))) = U -> mmul (M 9) (mmul (M 10) (M 11)) = I2 ->
  forall (k : nat) (pat : list bool) (psi : state), 1 <= k ->
  AbcModel.arun M (AbcModel.abc k pat) psi = appf (fun x => if pmatch pat k x then U else I2) k psi.
Proof. exact AbcModel.abc_sem. Qed.
Print Assumptions C04_ldmc_special.

(* Ldmcsu, SU(2) matrices with both diagonals complex (U = V D V^dagger): half_linear_depth_mcv(inverse), linear_depth_mcv of the
   diagonal with the optimisation, half_linear_depth_mcv.  Two V-chains are action_only: their residue on the borrowed qubits is
   undone by the inverse chain, across the one-qubit gates that sit in between (LdmcsuEig.middle_eig).  M 0..5 = H, S, S^dagger,
   the Hadamard-like gate, A, A^dagger; Wf q1 q2 is the product of the one-qubit gates when the two half-register V-chains fire
   according to q1, q2.  Every k >= 2 and every control pattern. *)
Theorem C04_ldmcsu_eig : forall (k : nat), 2 <= k -> forall (pat : list bool) (M : nat -> mat2) (U : mat2),
  LdmcsuEig.Wf M true true = U -> LdmcsuEig.Wf M true false = I2 -> LdmcsuEig.Wf M false true = I2 -> LdmcsuEig.Wf M false false = I2 ->
  forall psi, AbcModel.arun M (LdmcsuEig.eig k pat) psi = appf (fun b => if pmatch pat k b then U else I2) k psi.
Proof. exact LdmcsuEig.eig_sem. Qed.
Print Assumptions C04_ldmcsu_eig.

(* MultiTargetMCSU2: k >= 2 controls, nt >= 1 targets k .. k+nt-1, every pattern.  One pair of multi-target V-chains is shared (for
   one or two controls per half: CX fans and a fanned Toffoli); target i has its own A_i = M (3i), A_i^dagger = M (3i+1) and, when
   flagged, its Hadamard M (3i+2) (Hm hs i = that matrix or the identity).  The circuit applies U_i to target i, for every i,
   exactly on the basis states whose controls match the pattern: the operator is the product over the targets of the controlled U_i. *)
Theorem C04_multitarget : forall (k nt : nat), 1 <= nt -> 2 <= k ->
  forall (pat : list bool) (M : nat -> mat2) (U U' : nat -> mat2) (hs : list bool),
  (forall i, i < nt -> mmul (M (3 * i + 1)) (M (3 * i)) = I2) -> (forall i, i < nt -> mmul (M (3 * i)) (M (3 * i + 1)) = I2) ->
  (forall i, i < nt -> mmul (mmul (mmul (M (3 * i + 1)) Xm) (mmul (M (3 * i)) Xm)) (mmul (mmul (M (3 * i + 1)) Xm) (mmul (M (3 * i)) Xm)) = U' i) ->
  (forall i, i < nt -> mmul (MultiTarget.Hm M hs i) (MultiTarget.Hm M hs i) = I2) ->
  (forall i, i < nt -> mmul (MultiTarget.Hm M hs i) (mmul (U' i) (MultiTarget.Hm M hs i)) = U i) ->
  forall psi, AbcModel.arun M (MultiTarget.mtm k nt pat hs) psi
  = Transpose.comp state (map (fun it => appf (fun b => if pmatch pat k b then U (fst it) else I2) (snd it)) (MultiTarget.Lk k nt)) psi.
Proof. exact MultiTargetAll.mtm_sem_all. Qed.
Print Assumptions C04_multitarget.

(* MCU, the approximate gate, when the base count equals the number of controls T: the sweeps of Ldmcu without the gate from control
   0 to the target.  EXACT operator: the ideal gate W^(2^(T-1)) = U on the matching basis states, times W^-1 on the target whenever
   control 0 matches its pattern bit.  So ideal^-1 * circuit is a controlled W^-1, and the deviation from the ideal operator is that
   of the deepest root from the identity: for an eigenphase theta of U it is |e^(-i theta/2^(T-1)) - 1|, bounded by the requested error
   by C04_mcu_root_deviation when theta / 2^(T-1) <= arccos(1 - eps^2/2), which is how the base count is chosen. *)
Theorem C04_mcu_base : forall (T : nat) (W Wi : mat2) (pat : list bool) (psi : state),
  1 <= T -> mmul W Wi = I2 -> mmul Wi W = I2 ->
  LdmcuInst.frun (LdmcuInst.ELd T W Wi) (McuModel.mcu0 T pat) psi
  = appf (fun b => mmul (if pmatch pat T b then LdmcuInst.npow W (2 ^ (T - 1)) else I2)
                        (if Bool.eqb (get b 0) (nth 0 pat true) then Wi else I2)) T psi.
Proof. exact McuModel.mcu0_sem. Qed.
Print Assumptions C04_mcu_base.

Theorem C04_mcu_root_deviation : forall (phi delta eps : R), (Rabs phi <= delta)%R -> (delta <= PI)%R ->
  (cos delta = 1 - eps * eps / 2)%R -> ((cos phi - 1) * (cos phi - 1) + sin phi * sin phi <= eps * eps)%R.
Proof. exact McuModel.root_deviation. Qed.
Print Assumptions C04_mcu_root_deviation.

(* MCU with e extra controls beyond the base count T (T + e controls, target T + e): controls 0..e act together as control 0 of the
   base circuit - their rotations are multi-controlled and emitted in one block at the end of the sweep -, the other qubits are the
   base qubits shifted by e.  EXACT operator: the ideal gate U = W^(2^(T-1)) on the matching basis states, times W^-1 on the target
   whenever the first e + 1 controls match their pattern bits.  (McuExtra.sweepx_sem: the sweep with the collected gates denotes the
   same grouped form; McuExtra.vrun_virtual_all: a conjunction of never-targeted qubits in place of a control.) *)
Theorem C04_mcu : forall (e T : nat) (W Wi : mat2) (pat : list bool) (psi : state),
  1 <= T -> mmul W Wi = I2 -> mmul Wi W = I2 ->
  McuExtra.xrun (LdmcuInst.ELd T W Wi) (McuExtra.mcux e T pat) psi
  = appf (fun b => mmul (if pmatch pat (T + e) b then LdmcuInst.npow W (2 ^ (T - 1)) else I2)
                        (if pmatch pat (S e) b then Wi else I2)) (T + e) psi.
Proof. exact McuExtra.mcux_sem. Qed.
Print Assumptions C04_mcu.
