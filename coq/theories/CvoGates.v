(* C06: the gate list of CvoModel.cvo_gates (variant without auxiliary qubits) denotes the CVO-QRAM loop of CvoLoop,
   hence prepares  sum_j x_j |pattern_j>|flag=0> + g_m |last pattern>|flag=1>  from |0..0>. *)
From Coq Require Import Reals Lra List Bool Arith Lia NArith FunctionalExtensionality FinFun.
From Coquelicot Require Import Complex.
From QV Require Import Sem Mat2 Toff2 Chain Vchain UcrPlaced TopDownWalk Cvoqram CvoLoop CvoModel.
Import ListNotations.
Open Scope nat_scope.

(* Qiskit's RCCX (relative-phase Toffoli): |a b t> -> phase |a b (t xor ab)> with phase i on |110>, -i on |111>,
   -1 on |101> (a = first control), 1 elsewhere.  As an operator on states: (G psi)(x) = phase(pi x) psi(pi x). *)
Definition rccx_perm (a b t : nat) (x : asg) : asg := if get x a && get x b then flipq t x else x.
Definition rccx_phase (a b t : nat) (x : asg) : C :=
  if get x a then (if get x b then (if get x t then (- Ci)%C else Ci) else (if get x t then RtoC (-1) else RtoC 1))
  else RtoC 1.
Definition rccx (a b t : nat) (psi : state) : state :=
  fun x => (rccx_phase a b t (rccx_perm a b t x) * psi (rccx_perm a b t x))%C.

Section Sem.
Variable U : nat -> mat2.
Definition capp (g : cgate) (psi : state) : state :=
  match g with
  | CX0 q => appf (fun _ => Xm) q psi
  | CCX c t => appf (fun b => Xpow (get b c)) t psi
  | CU j cs t => fun b => if forallb (get b) cs then app1 (U j) t psi b else psi b
  | CRCCX a b t => rccx a b t psi
  end.
Definition crun (c : list cgate) (psi : state) : state := fold_left (fun s g => capp g s) c psi.
Lemma crun_app c1 c2 psi : crun (c1 ++ c2) psi = crun c2 (crun c1 psi).
Proof. unfold crun. now rewrite fold_left_app. Qed.
Lemma crun_single g psi : crun [g] psi = capp g psi.
Proof. reflexivity. Qed.
Lemma crun_cons g c psi : crun (g :: c) psi = crun c (capp g psi).
Proof. reflexivity. Qed.

Variable u : nat.

Lemma flipq_flips l : forall q b, ~ In q l -> flipq q (flips l b) = flips l (flipq q b).
Proof.
  induction l as [|x l IH]; intros q b H; simpl. reflexivity.
  rewrite IH by (intro E; apply H; now right). f_equal.
  apply asg_ext. intros y.
  assert (q <> x) by (intro E; apply H; left; auto).
  destruct (Nat.eq_dec y q) as [Eq|Hq]; destruct (Nat.eq_dec y x) as [Ex|Hx]; subst; try congruence;
    repeat first [rewrite flq_same | rewrite flq_other by auto]; reflexivity.
Qed.

(* a fan of CX from the flag = the flip-flop permutation *)
Lemma ff_sem (ctl : list nat) : ~ In u ctl -> NoDup ctl ->
  forall psi, crun (map (fun q => CCX u q) ctl) psi = FF u ctl psi.
Proof.
  induction ctl as [|q l IH]; intros Hu Hn psi.
  - apply functional_extensionality; intros b. unfold FF, sigma. simpl. now destruct (get b u).
  - inversion Hn; subst. cbn [map]. rewrite crun_cons, IH by (auto; intro E; apply Hu; now right).
    apply functional_extensionality; intros b. unfold FF, sigma, capp, appf.
    assert (Hq : q <> u) by (intro E; apply Hu; left; auto).
    destruct (get b u) eqn:Eu.
    + rewrite flips_get_out by (intro E; apply Hu; now right). rewrite Eu. cbn [Xpow flips].
      rewrite app1_X. f_equal. now apply flipq_flips.
    + rewrite Eu. cbn [Xpow]. apply app1_I2.
Qed.

Lemma cu_sem j ctl psi : capp (CU j ctl u) psi = MCU u ctl (U j) psi.
Proof. reflexivity. Qed.
End Sem.

(* ---------- layout without auxiliary qubits: flag = qubit 0, memory qubit k = 1 + k ---------- *)
Section NoAux.
Variable U : nat -> mat2.
Variable n : nat.
Let u := 0.
Definition ctl_of (pat : list bool) : list nat := map (mem n false) (controls_of n pat).

Lemma ctl_wf pat : wfp u (ctl_of pat).
Proof.
  unfold wfp, ctl_of, mem, controls_of. split.
  - intro I. apply in_map_iff in I as [k [E _]]. unfold u in E. lia.
  - apply Injective_map_NoDup. intros a b E; lia. apply NoDup_filter, seq_NoDup.
Qed.

Lemma load_noaux j pat : load n false j (controls_of n pat) = [CU j (ctl_of pat) u].
Proof.
  unfold load, ctl_of. destruct (controls_of n pat) as [|c [|c' l]]; reflexivity.
Qed.
Lemma ff_noaux pat : flip_flop n false (controls_of n pat) = map (fun q => CCX u q) (ctl_of pat).
Proof. unfold flip_flop, ctl_of. now rewrite map_map. Qed.

(* every pattern but the last is a full step; the last one lacks the closing flip-flop *)
Lemma patterns_sem : forall pats j psi, pats <> [] ->
  crun U (patterns n false j pats) psi
  = FFp u (ctl_of (last pats [])) (run_pats u U j (map ctl_of pats) psi).
Proof.
  induction pats as [|p rest IH]; intros j psi Hne. congruence.
  destruct rest as [|p' rest'].
  - cbn [patterns last map run_pats]. rewrite ff_noaux, load_noaux, crun_app.
    destruct (ctl_wf p) as [Wu Wn].
    rewrite (ff_sem U u _ Wu Wn), crun_single, cu_sem.
    symmetry. now apply step_FF.
  - change (patterns n false j (p :: p' :: rest'))
      with (flip_flop n false (controls_of n p) ++ load n false j (controls_of n p)
            ++ flip_flop n false (controls_of n p) ++ patterns n false (S j) (p' :: rest')).
    rewrite ff_noaux, load_noaux, !crun_app.
    destruct (ctl_wf p) as [Wu Wn].
    rewrite !(ff_sem U u _ Wu Wn), crun_single, cu_sem.
    change (FF u (ctl_of p) (MCU u (ctl_of p) (U j) (FF u (ctl_of p) psi))) with (step u (ctl_of p) (U j) psi).
    rewrite IH by discriminate. reflexivity.
Qed.

Lemma x_ket0 : capp U (CX0 u) ket0 = (fun b => RtoC 0 + RtoC 1 * delta b (eu u))%C.
Proof.
  apply functional_extensionality; intros b. unfold capp, appf. rewrite app1_X.
  unfold ket0, delta, eu. rewrite Cplus_0_l, Cmult_1_l.
  destruct (N.eqb_spec (flipq u b) 0) as [E|E]; destruct (N.eqb_spec b (upd 0%N u true)) as [F|F]; auto.
  - exfalso. apply F. rewrite <- (flipq_flipq u b), E. unfold flipq. now rewrite get_0.
  - exfalso. apply E. rewrite F. unfold flipq. rewrite get_upd_same, upd_upd. simpl.
    apply asg_ext. intros q. destruct (Nat.eq_dec q u) as [->|H]. now rewrite get_upd_same, get_0.
    now rewrite get_upd_other, get_0.
Qed.

(* the circuit of the model, from |0..0> *)
Theorem cvo_gates_spec (pats : list (list bool)) : pats <> [] ->
  (forall i i' p p', (i < i')%nat -> nth_error (map ctl_of pats) i = Some p -> nth_error (map ctl_of pats) i' = Some p' ->
                     not_fired p' p) ->
  forall b,
  crun U (cvo_gates n false pats) ket0 b
  = (loaded U 0 (map ctl_of pats) (RtoC 1) (sigma u (ctl_of (last pats [])) b)
     + remaining U 0 (map ctl_of pats) (RtoC 1) * delta (sigma u (ctl_of (last pats [])) b) (eu u))%C.
Proof.
  intros Hne NF b. unfold cvo_gates. change aux with u. rewrite crun_cons, x_ket0, patterns_sem by auto. unfold FFp.
  rewrite (loop_spec u U (map ctl_of pats) 0 (fun _ => RtoC 0) (RtoC 1)).
  - ring.
  - apply Forall_forall. intros p Hp. apply in_map_iff in Hp as [q [<- _]]. apply ctl_wf.
  - reflexivity.
  - reflexivity.
  - exact NF.
Qed.
End NoAux.

(* executable form of the order premise (checked by vm_compute on every compared instance) *)
Definition memb (q : nat) (l : list nat) : bool := existsb (Nat.eqb q) l.
Definition nofire_b (c' c : list nat) : bool := existsb (fun q => negb (memb q c)) c'.
Lemma memb_in q l : memb q l = true <-> In q l.
Proof.
  unfold memb. rewrite existsb_exists. split.
  - intros [x [H E]]. apply Nat.eqb_eq in E. now subst.
  - intros H. exists q. split; auto. apply Nat.eqb_refl.
Qed.
Lemma nofire_sound u c' c : ~ In u c -> NoDup c -> nofire_b c' c = true -> not_fired c' c.
Proof.
  intros Hu Hn H. unfold nofire_b in H. apply existsb_exists in H as [q [Hq Hm]].
  apply negb_true_iff in Hm. unfold not_fired, allset.
  destruct (forallb (get (Pat c)) c') eqn:E; auto.
  rewrite forallb_forall in E. specialize (E q Hq).
  rewrite Pat_out in E. discriminate.
  intro I. apply memb_in in I. congruence.
Qed.
Fixpoint ordered_b (cs : list (list nat)) : bool :=
  match cs with [] => true | c :: rest => forallb (fun c' => nofire_b c' c) rest && ordered_b rest end.
Lemma ordered_sound u cs : Forall (wfp u) cs -> ordered_b cs = true ->
  forall i i' p p', (i < i')%nat -> nth_error cs i = Some p -> nth_error cs i' = Some p' -> not_fired p' p.
Proof.
  induction cs as [|c rest IH]; intros W H i i' p p' Hlt Hp Hp'.
  - destruct i; discriminate.
  - simpl in H. apply andb_prop in H as [H1 H2]. inversion W as [|? ? [Wu Wn] Wr]; subst.
    destruct i as [|i].
    + simpl in Hp. injection Hp as <-. destruct i' as [|i']; [lia|]. simpl in Hp'.
      apply nth_error_In in Hp'. rewrite forallb_forall in H1. apply (nofire_sound u); auto.
    + destruct i' as [|i']; [lia|]. simpl in Hp, Hp'. apply (IH Wr H2 i i'); auto. lia.
Qed.

Theorem cvo_gates_ordered (U : nat -> mat2) (n : nat) (pats : list (list bool)) : pats <> [] ->
  ordered_b (map (ctl_of n) pats) = true ->
  forall b,
  crun U (cvo_gates n false pats) ket0 b
  = (loaded U 0 (map (ctl_of n) pats) (RtoC 1) (sigma 0 (ctl_of n (last pats [])) b)
     + remaining U 0 (map (ctl_of n) pats) (RtoC 1) * delta (sigma 0 (ctl_of n (last pats [])) b) (eu 0))%C.
Proof.
  intros Hne Ho b. apply cvo_gates_spec; auto.
  apply (ordered_sound 0); auto. apply Forall_forall. intros p Hp. apply in_map_iff in Hp as [q [<- _]]. apply ctl_wf.
Qed.
