(* C19, BlackBoxInitialize end to end in the assignment semantics of Sem.v.
   Qubit 0 is the flag, qubits 1..n the data.  The oracle U = H on 1..n ; UCRY(th) ; UCRZ(ph) with target 0 and the data as
   multiplexer index; the circuit is  U ; (I_t ; U^-1 ; I_s ; U)^r  with I_t = diag(-1,1) on the flag and I_s = -1 on |0..0>.
   With a_k = cos(th_k/2) e^{-i ph_k/2} and sum_k |a_k|^2 = 1 the state after the circuit (times the global phase (-1)^r) has,
   on the flag = 0 branch, amplitude sin((2r+1)t) a_k at data k, where sin t = 1/sqrt(2^n). *)
From Coq Require Import Reals Lra List Bool Arith Lia NArith FunctionalExtensionality.
From Coquelicot Require Import Complex.
From QV Require Import Sem Mat2 Toff2 Chain Cvoqram McxMulti Grover.
Import ListNotations.
Open Scope R_scope.

(* ---------- bits ---------- *)
Lemma get_0 q : get 0%N q = false.
Proof. Local Transparent get. unfold get. apply N.bits_0. Qed.
Lemma nonzero_bit b : b <> 0%N -> exists q, get b q = true.
Proof.
  Local Transparent get. intros H. exists (N.to_nat (N.log2 b)). unfold get. rewrite N2Nat.id. apply N.bit_log2. exact H.
Qed.
Global Opaque get.

Fixpoint clr (m : nat) (b : asg) : asg := match m with O => b | S m' => upd (clr m' b) (S m') false end.
Lemma get_clr m b q : get (clr m b) q = if (1 <=? q)%nat && (q <=? m)%nat then false else get b q.
Proof.
  induction m as [|m IH]; cbn [clr].
  - destruct (Nat.leb_spec 1 q), (Nat.leb_spec q 0); cbn [andb]; auto. lia.
  - destruct (Nat.eq_dec q (S m)) as [->|Hq].
    + rewrite get_upd_same. destruct (Nat.leb_spec 1 (S m)), (Nat.leb_spec (S m) (S m)); cbn [andb]; auto; lia.
    + rewrite get_upd_other by auto. rewrite IH.
      destruct (Nat.leb_spec 1 q), (Nat.leb_spec q m), (Nat.leb_spec q (S m)); cbn [andb]; auto; lia.
Qed.

(* the qubits above n are 0 *)
Definition hz (n : nat) (b : asg) : bool := N.eqb (clr n (upd b 0 false)) 0.
Lemma hz_upd n b t v : (t <= n)%nat -> hz n (upd b t v) = hz n b.
Proof.
  intros Ht. unfold hz. f_equal. apply asg_ext. intros q. rewrite !get_clr.
  destruct ((1 <=? q)%nat && (q <=? n)%nat) eqn:E; auto.
  destruct (Nat.eq_dec q 0) as [->|Hq0]. now rewrite !get_upd_same.
  rewrite !(get_upd_other _ 0) by auto.
  destruct (Nat.eq_dec q t) as [->|Hqt].
  - exfalso. apply andb_false_iff in E. destruct E as [E|E].
    apply Nat.leb_gt in E. lia. apply Nat.leb_gt in E. lia.
  - now rewrite get_upd_other.
Qed.
Lemma hz_get n b q : hz n b = true -> (n < q)%nat -> get b q = false.
Proof.
  unfold hz. intros H Hq. apply N.eqb_eq in H.
  assert (E : get (clr n (upd b 0 false)) q = get 0%N q) by now rewrite H.
  rewrite get_0, get_clr in E.
  replace (q <=? n)%nat with false in E by (symmetry; apply Nat.leb_gt; lia).
  rewrite andb_false_r in E. rewrite get_upd_other in E by lia. exact E.
Qed.
Lemma hz_0 n : hz n 0%N = true.
Proof.
  unfold hz. apply N.eqb_eq. apply asg_ext. intros q. rewrite get_clr, get_0.
  destruct ((1 <=? q)%nat && (q <=? n)%nat); auto.
Qed.

Definition lowz (n : nat) (b : asg) : bool := forallb (fun q => negb (get b q)) (seq 0 (S n)).
Lemma lowz_get n b q : lowz n b = true -> (q <= n)%nat -> get b q = false.
Proof.
  unfold lowz. intros H Hq. rewrite forallb_forall in H. specialize (H q).
  apply negb_true_iff. apply H. apply in_seq. lia.
Qed.
Lemma lowz_0 n : lowz n 0%N = true.
Proof. unfold lowz. apply forallb_forall. intros q _. now rewrite get_0. Qed.
Lemma lowz_hz_0 n b : lowz n b = true -> hz n b = true -> b = 0%N.
Proof.
  intros H1 H2. apply asg_ext. intros q. rewrite get_0.
  destruct (le_lt_dec q n). now apply (lowz_get n). now apply (hz_get n).
Qed.

(* ---------- operators ---------- *)
Definition Hq : mat2 := M2 (/ sqrt 2) (/ sqrt 2) (/ sqrt 2) (- / sqrt 2)%R.
Definition ItM : mat2 := M2 (- (1))%C 0 0 1.
Definition e0 : state := fun b => delta b 0%N.

Inductive bgate := BH (q : nat) | BUcry | BUcrz | BUcryd | BUcrzd | BIt | BIs.

Section Ops.
Variable n : nat.
Variables th ph : nat -> R.

Definition Isop (psi : state) : state := fun b => if lowz n b then (- psi b)%C else psi b.
Definition bapp (g : bgate) (psi : state) : state :=
  match g with
  | BH q => app1 Hq q psi
  | BUcry => mux RotY n th psi
  | BUcrz => mux RotZ n ph psi
  | BUcryd => mux RotY n (fun k => - th k) psi
  | BUcrzd => mux RotZ n (fun k => - ph k) psi
  | BIt => app1 ItM 0 psi
  | BIs => Isop psi
  end.
Definition brun (c : list bgate) (psi : state) : state := fold_left (fun s g => bapp g s) c psi.
Lemma brun_app c d psi : brun (c ++ d) psi = brun d (brun c psi).
Proof. unfold brun. apply fold_left_app. Qed.

Definition Ulist : list bgate := map BH (seq 1 n) ++ [BUcry; BUcrz].
Definition Udlist : list bgate := [BUcrzd; BUcryd] ++ map BH (rev (seq 1 n)).
Fixpoint rounds (r : nat) : list bgate :=
  match r with O => [] | S r' => rounds r' ++ [BIt] ++ Udlist ++ [BIs] ++ Ulist end.
Definition bb_circuit (r : nat) : list bgate := Ulist ++ rounds r.
End Ops.

(* ---------- algebra of the operators ---------- *)
Lemma sqrt2_inv_sq : / sqrt 2 * / sqrt 2 = / 2.
Proof. rewrite <- Rinv_mult. rewrite sqrt_sqrt by lra. reflexivity. Qed.
Lemma Hq_Hq : mmul Hq Hq = I2.
Proof.
  pose proof sqrt2_inv_sq as E. unfold mmul, Hq, I2. cbn [m00 m01 m10 m11].
  apply mat2_eq; cbn [m00 m01 m10 m11]; apply Ceq; cbn [fst snd Cmult Cplus RtoC]; nra.
Qed.
Lemma app1_as_appf m t psi : app1 m t psi = appf (fun _ => m) t psi.
Proof. reflexivity. Qed.
Lemma app1_app1 a c t psi : app1 a t (app1 c t psi) = app1 (mmul a c) t psi.
Proof. rewrite !app1_as_appf. apply appf_appf. intros b v. reflexivity. Qed.
Lemma app1_id t psi : app1 I2 t psi = psi.
Proof. apply functional_extensionality; intros b. apply app1_I2. Qed.
Lemma app1_comm a c t u psi : t <> u -> app1 a t (app1 c u psi) = app1 c u (app1 a t psi).
Proof. intros H. rewrite !app1_as_appf. apply appf_comm; auto; intros b v; reflexivity. Qed.

Fixpoint HL (m : nat) (psi : state) : state := match m with O => psi | S m' => app1 Hq (S m') (HL m' psi) end.
Fixpoint HLr (m : nat) (psi : state) : state := match m with O => psi | S m' => HLr m' (app1 Hq (S m') psi) end.

Lemma HL_comm m q psi : (m < q)%nat -> HL m (app1 Hq q psi) = app1 Hq q (HL m psi).
Proof.
  induction m as [|m IH]; intros Hm; cbn [HL]. reflexivity.
  rewrite IH by lia. apply app1_comm. lia.
Qed.
Lemma HL_HLr m psi : HLr m psi = HL m psi.
Proof.
  revert psi. induction m as [|m IH]; intros psi; cbn [HL HLr]. reflexivity.
  rewrite IH. apply HL_comm. lia.
Qed.
Lemma HL_invol m psi : HL m (HLr m psi) = psi.
Proof.
  revert psi. induction m as [|m IH]; intros psi; cbn [HL HLr]. reflexivity.
  rewrite IH. rewrite app1_app1, Hq_Hq. apply app1_id.
Qed.

Lemma brun_H_seq n th ph m psi : brun n th ph (map BH (seq 1 m)) psi = HL m psi.
Proof.
  revert psi. induction m as [|m IH]; intros psi. reflexivity.
  rewrite seq_S, map_app, brun_app, IH. reflexivity.
Qed.
Lemma brun_H_rev n th ph m psi : brun n th ph (map BH (rev (seq 1 m))) psi = HLr m psi.
Proof.
  revert psi. induction m as [|m IH]; intros psi. reflexivity.
  rewrite seq_S, rev_app_distr. cbn [rev app map]. change (BH (1 + m) :: map BH (rev (seq 1 m))) with ([BH (S m)] ++ map BH (rev (seq 1 m))).
  rewrite brun_app, IH. reflexivity.
Qed.

(* multiplexers *)
Lemma cidx_indep0 k : indep 0 (cidx k).
Proof.
  intros b v. induction k as [|k IH]; cbn [cidx]. reflexivity.
  rewrite IH. rewrite get_upd_other by lia. reflexivity.
Qed.
Lemma mux_appf r k a psi : mux r k a psi = appf (fun b => Rm r (a (cidx k b))) 0 psi.
Proof. reflexivity. Qed.

(* linear maps on states *)
Definition lin (F : state -> state) : Prop :=
  forall psi chi (c : C), F (fun b => (psi b + c * chi b)%C) = fun b => (F psi b + c * F chi b)%C.
Lemma appf_lin f t : lin (appf f t).
Proof. intros psi chi c. apply functional_extensionality; intros b. unfold appf, app1. ring. Qed.
Lemma app1_lin m t : lin (app1 m t).
Proof. intros psi chi c. apply functional_extensionality; intros b. unfold app1. ring. Qed.
Lemma lin_comp F G : lin F -> lin G -> lin (fun psi => F (G psi)).
Proof. intros HF HG psi chi c. rewrite HG. apply HF. Qed.
Lemma HL_lin m : lin (HL m).
Proof.
  induction m as [|m IH]. intros psi chi c; reflexivity.
  cbn [HL]. apply (lin_comp (app1 Hq (S m)) (HL m)); auto. apply app1_lin.
Qed.

Lemma RY_inv x : mmul (RYm x) (RYm (- x)) = I2.
Proof.
  unfold mmul, RYm, I2. cbn [m00 m01 m10 m11].
  replace (- x / 2) with (- (x / 2)) by field. rewrite cos_neg, sin_neg.
  pose proof (sin2_cos2 (x / 2)) as P. unfold Rsqr in P.
  apply mat2_eq; cbn [m00 m01 m10 m11]; apply Ceq; cbn [fst snd Cmult Cplus RtoC]; nra.
Qed.
Lemma RZ_inv x : mmul (RZm x) (RZm (- x)) = I2.
Proof.
  unfold mmul, RZm, I2. cbn [m00 m01 m10 m11].
  replace (- x / 2) with (- (x / 2)) by field. rewrite cos_neg, sin_neg.
  pose proof (sin2_cos2 (x / 2)) as P. unfold Rsqr in P.
  apply mat2_eq; cbn [m00 m01 m10 m11]; apply Ceq; cbn [fst snd Cmult Cplus RtoC]; nra.
Qed.

Section Oracle.
Variable n : nat.
Variables th ph : nat -> R.
Let run := brun n th ph.

Definition Wf (b : asg) : mat2 := mmul (RZm (ph (cidx n b))) (RYm (th (cidx n b))).
Definition Wi (b : asg) : mat2 := mmul (RYm (- th (cidx n b))) (RZm (- ph (cidx n b))).
Lemma Wf_indep : indep 0 Wf.
Proof. intros b v. unfold Wf. now rewrite cidx_indep0. Qed.
Lemma Wi_indep : indep 0 Wi.
Proof. intros b v. unfold Wi. now rewrite cidx_indep0. Qed.
Lemma Wf_Wi b : mmul (Wf b) (Wi b) = I2.
Proof.
  unfold Wf, Wi. rewrite mmul_assoc. rewrite <- (mmul_assoc (RZm _) (RYm _) (RYm _)).
  rewrite RY_inv, mmul_I2_r. apply RZ_inv.
Qed.

Definition Uop (psi : state) : state := appf Wf 0 (HL n psi).
Definition Udop (psi : state) : state := HL n (appf Wi 0 psi).

Lemma run_U psi : run (Ulist n) psi = Uop psi.
Proof.
  unfold run, Ulist. rewrite brun_app, brun_H_seq. cbn [brun fold_left bapp].
  rewrite !mux_appf. rewrite appf_appf. reflexivity.
  intros b v. now rewrite cidx_indep0.
Qed.
Lemma run_Ud psi : run (Udlist n) psi = Udop psi.
Proof.
  unfold run, Udlist. rewrite brun_app, brun_H_rev, HL_HLr. cbn [brun fold_left bapp].
  rewrite !mux_appf. rewrite appf_appf. reflexivity.
  intros b v. now rewrite cidx_indep0.
Qed.
Lemma U_Ud psi : Uop (Udop psi) = psi.
Proof.
  unfold Uop, Udop. rewrite <- (HL_HLr n (appf Wi 0 psi)) at 1. rewrite HL_invol.
  rewrite appf_appf by apply Wi_indep.
  apply functional_extensionality; intros b. unfold appf. rewrite Wf_Wi. apply app1_I2.
Qed.
Lemma U_lin : lin Uop.
Proof. apply (lin_comp (appf Wf 0) (HL n)). apply appf_lin. apply HL_lin. Qed.
Lemma Ud_lin : lin Udop.
Proof. apply (lin_comp (HL n) (appf Wi 0)). apply HL_lin. apply appf_lin. Qed.
End Oracle.

(* ---------- support: nothing above qubit n ---------- *)
Definition sup (n : nat) (psi : state) : Prop := forall b, hz n b = false -> psi b = 0.
Lemma sup_app1 n m t psi : (t <= n)%nat -> sup n psi -> sup n (app1 m t psi).
Proof. intros Ht H b Hb. unfold app1. rewrite !H by (rewrite hz_upd; auto). ring. Qed.
Lemma sup_appf n f t psi : (t <= n)%nat -> sup n psi -> sup n (appf f t psi).
Proof. intros Ht H b Hb. unfold appf. exact (sup_app1 n (f b) t psi Ht H b Hb). Qed.
Lemma sup_HL n m psi : (m <= n)%nat -> sup n psi -> sup n (HL m psi).
Proof.
  induction m as [|m IH]; intros Hm H; cbn [HL]. exact H.
  apply sup_app1. lia. apply IH. lia. exact H.
Qed.
Lemma sup_lin n psi chi (c d : C) : sup n psi -> sup n chi -> sup n (fun b => (c * psi b + d * chi b)%C).
Proof. intros H1 H2 b Hb. rewrite H1, H2 by auto. ring. Qed.

Lemma e0_0 : e0 0%N = 1.
Proof. reflexivity. Qed.
Lemma e0_ne b : b <> 0%N -> e0 b = 0.
Proof. intros H. unfold e0, delta. destruct (N.eqb_spec b 0); congruence. Qed.

(* on such states I_s = 1 - 2 |0><0| *)
Lemma Is_sup n psi : sup n psi -> Isop n psi = fun b => (psi b + (- (psi 0%N + psi 0%N)) * e0 b)%C.
Proof.
  intros H. apply functional_extensionality; intros b. unfold Isop.
  destruct (lowz n b) eqn:L.
  - destruct (hz n b) eqn:Z.
    + rewrite (lowz_hz_0 n b L Z). rewrite e0_0. ring.
    + assert (b <> 0%N) by (intros ->; rewrite hz_0 in Z; discriminate).
      rewrite e0_ne, H by auto. ring.
  - assert (b <> 0%N) by (intros ->; rewrite lowz_0 in L; discriminate).
    rewrite e0_ne by auto. ring.
Qed.

(* ---------- the Hadamard layer: image of |0..0> and the coordinate at 0 of an image ---------- *)
Definition rs2 : R := / sqrt 2.
Lemma HL_e0 m b : HL m e0 b = (RtoC (rs2 ^ m) * delta (clr m b) 0%N)%C.
Proof.
  revert b. induction m as [|m IH]; intros b; cbn [HL clr pow].
  - unfold e0. ring.
  - unfold app1. rewrite !IH.
    assert (E1 : clr m (upd b (S m) true) <> 0%N).
    { intros E. assert (X : get (clr m (upd b (S m) true)) (S m) = get 0%N (S m)) by now rewrite E.
      rewrite get_0, get_clr, get_upd_same in X.
      destruct (Nat.leb_spec (S m) m). lia. rewrite andb_false_r in X. discriminate. }
    assert (E0 : clr m (upd b (S m) false) = upd (clr m b) (S m) false).
    { apply asg_ext. intros q. destruct (Nat.eq_dec q (S m)) as [->|Hq].
      - rewrite get_upd_same, get_clr, get_upd_same. destruct (1 <=? S m)%nat, (S m <=? m)%nat; reflexivity.
      - rewrite get_upd_other by auto. rewrite !get_clr. now rewrite get_upd_other by auto. }
    rewrite E0. unfold delta at 2. destruct (N.eqb_spec (clr m (upd b (S m) true)) 0); [contradiction|].
    unfold Hq, rs2. destruct (get b (S m)); cbn [mget m00 m01 m10 m11]; rewrite RtoC_mult; ring.
Qed.

Fixpoint sumc (m : nat) (f : asg -> C) (b : asg) : C :=
  match m with O => f b | S m' => (sumc m' f (upd b (S m') false) + sumc m' f (upd b (S m') true))%C end.

Lemma HL_at_zero m psi b : (forall q, (1 <= q <= m)%nat -> get b q = false) ->
  HL m psi b = (RtoC (rs2 ^ m) * sumc m psi b)%C.
Proof.
  revert b. induction m as [|m IH]; intros b Hb; cbn [HL sumc pow].
  - ring.
  - unfold app1. rewrite (Hb (S m)) by lia. unfold Hq. cbn [mget m00 m01].
    rewrite !IH by (intros q Hq; rewrite get_upd_other by lia; apply Hb; lia).
    unfold rs2. rewrite RtoC_mult. ring.
Qed.

Lemma sumc_ext_on m : forall f f' b,
  (forall x, (forall q, (q = 0 \/ m < q)%nat -> get x q = get b q) -> f x = f' x) -> sumc m f b = sumc m f' b.
Proof.
  induction m as [|m IH]; intros f f' b H; cbn [sumc].
  - apply H. reflexivity.
  - f_equal; apply IH; intros x Hx; apply H; intros q Hq; rewrite Hx by lia;
      apply get_upd_other; lia.
Qed.
Lemma sumc_lin m f g (c d : C) b : sumc m (fun x => (c * f x + d * g x)%C) b = (c * sumc m f b + d * sumc m g b)%C.
Proof. revert b. induction m as [|m IH]; intros b; cbn [sumc]. reflexivity. rewrite !IH. ring. Qed.

Fixpoint bigsum (f : nat -> C) (k : nat) : C := match k with O => 0 | S k' => (bigsum f k' + f k')%C end.
Lemma bigsum_split f k j : bigsum f (k + j) = (bigsum f k + bigsum (fun i => f (i + k)%nat) j)%C.
Proof.
  induction j as [|j IH]. rewrite Nat.add_0_r. cbn [bigsum]. ring.
  rewrite Nat.add_succ_r. cbn [bigsum]. rewrite IH. rewrite (Nat.add_comm j k). ring.
Qed.
Lemma sumc_cidx m : forall (F : nat -> C) b, sumc m (fun x => F (cidx m x)) b = bigsum F (2 ^ m).
Proof.
  induction m as [|m IH]; intros F b; cbn [sumc].
  - change (2 ^ 0)%nat with 1%nat. cbn [cidx bigsum]. ring.
  - rewrite (sumc_ext_on m _ (fun x => F (cidx m x)) (upd b (S m) false)).
    2:{ intros x Hx. cbn [cidx]. rewrite Hx by lia. rewrite get_upd_same. f_equal. lia. }
    rewrite (sumc_ext_on m _ (fun x => (fun i => F (i + 2 ^ m)%nat) (cidx m x)) (upd b (S m) true)).
    2:{ intros x Hx. cbn [cidx]. rewrite Hx by lia. rewrite get_upd_same. reflexivity. }
    rewrite (IH F), (IH (fun i => F (i + 2 ^ m)%nat)). replace (2 ^ S m)%nat with (2 ^ m + 2 ^ m)%nat by (rewrite Nat.pow_succ_r'; lia).
    now rewrite bigsum_split.
Qed.

Lemma bigsum_lin f g (c d : C) k : bigsum (fun i => (c * f i + d * g i)%C) k = (c * bigsum f k + d * bigsum g k)%C.
Proof. induction k as [|k IH]; cbn [bigsum]. ring. rewrite IH. ring. Qed.
Lemma bigsum_ext f g k : (forall i, f i = g i) -> bigsum f k = bigsum g k.
Proof. intros H. induction k as [|k IH]; cbn [bigsum]. reflexivity. now rewrite IH, H. Qed.
Lemma bigsum_one k : bigsum (fun _ => 1) k = RtoC (INR k).
Proof.
  induction k as [|k IH]. reflexivity. cbn [bigsum]. rewrite IH, S_INR, RtoC_plus. reflexivity.
Qed.

Lemma app1_diag (d0 d1 : C) t psi b : app1 (M2 d0 0 0 d1) t psi b = ((if get b t then d1 else d0) * psi b)%C.
Proof.
  unfold app1. generalize (upd_get b t). destruct (get b t); intros E; cbn [mget m00 m01 m10 m11]; rewrite E; ring.
Qed.
Lemma hz_of_bits n x : (forall q, (q = 0 \/ n < q)%nat -> get x q = false) -> hz n x = true.
Proof.
  intros H. unfold hz. apply N.eqb_eq. apply asg_ext. intros q. rewrite get_clr, get_0.
  destruct (Nat.leb_spec 1 q), (Nat.leb_spec q n); cbn [andb]; auto.
  - rewrite get_upd_other by lia. apply H. lia.
  - replace q with 0%nat by lia. apply get_upd_same.
  - replace q with 0%nat by lia. apply get_upd_same.
Qed.

(* ---------- the two-dimensional invariant subspace ---------- *)
Section Amplify.
Variable n : nat.
Variables th ph : nat -> R.
Let run := brun n th ph.

Definition ak (k : nat) : C := (cos (th k / 2) * cos (ph k / 2), - (cos (th k / 2) * sin (ph k / 2))).
Definition bk (k : nat) : C := (sin (th k / 2) * cos (ph k / 2), sin (th k / 2) * sin (ph k / 2)).
Definition indh (b : asg) : C := if hz n b then 1 else 0.
Definition Gv (b : asg) : C := if get b 0 then 0 else (indh b * ak (cidx n b))%C.
Definition Bv (b : asg) : C := if get b 0 then (indh b * bk (cidx n b))%C else 0.
Definition comb (x y : C) : state := fun b => (x * Gv b + y * Bv b)%C.
Definition sn : R := rs2 ^ n.

Lemma Wf_col0 b : mget (Wf n th ph b) false false = ak (cidx n b) /\ mget (Wf n th ph b) true false = bk (cidx n b).
Proof.
  unfold Wf, mmul, RZm, RYm, ak, bk. cbn [mget m00 m01 m10 m11].
  split; apply injective_projections; cbn [fst snd Cmult Cplus RtoC]; ring.
Qed.
Lemma Wi_row0 b : (mget (Wi n th ph b) false false * ak (cidx n b) = RtoC (cos (th (cidx n b) / 2) * cos (th (cidx n b) / 2)))%C
               /\ (mget (Wi n th ph b) false true * bk (cidx n b) = RtoC (sin (th (cidx n b) / 2) * sin (th (cidx n b) / 2)))%C.
Proof.
  unfold Wi, mmul, RZm, RYm, ak, bk. cbn [mget m00 m01 m10 m11].
  set (k := cidx n b).
  replace (- th k / 2) with (- (th k / 2)) by field. replace (- ph k / 2) with (- (ph k / 2)) by field.
  rewrite !cos_neg, !sin_neg.
  pose proof (sin2_cos2 (ph k / 2)) as P. unfold Rsqr in P.
  split; apply injective_projections; cbn [fst snd Cmult Cplus RtoC]; nra.
Qed.

Lemma indh_upd b t v : (t <= n)%nat -> indh (upd b t v) = indh b.
Proof. intros H. unfold indh. now rewrite hz_upd. Qed.

Lemma U_e0 : Uop n th ph e0 = comb (RtoC sn) (RtoC sn).
Proof.
  apply functional_extensionality; intros b. unfold Uop, appf, app1. rewrite !HL_e0.
  assert (E1 : delta (clr n (upd b 0 true)) 0%N = 0).
  { unfold delta. destruct (N.eqb_spec (clr n (upd b 0 true)) 0) as [E|]; auto.
    assert (X : get (clr n (upd b 0 true)) 0 = get 0%N 0) by now rewrite E.
    rewrite get_0, get_clr, get_upd_same in X. cbn [Nat.leb andb] in X. discriminate. }
  assert (E0 : delta (clr n (upd b 0 false)) 0%N = indh b) by reflexivity.
  rewrite E1, E0. destruct (Wf_col0 b) as [A B]. unfold comb, Gv, Bv, sn.
  destruct (get b 0); [rewrite B | rewrite A]; ring.
Qed.

Lemma sup_comb x y : sup n (comb x y).
Proof. intros b Hb. unfold comb, Gv, Bv, indh. rewrite Hb. destruct (get b 0); ring. Qed.

Lemma It_comb x y : app1 ItM 0 (comb x y) = comb (- x)%C y.
Proof.
  apply functional_extensionality; intros b. unfold ItM. rewrite app1_diag. unfold comb, Gv, Bv.
  destruct (get b 0); ring.
Qed.

Hypothesis norm1 : bigsum (fun k => RtoC (cos (th k / 2) * cos (th k / 2))) (2 ^ n) = 1.

Lemma sin2_sum : bigsum (fun k => RtoC (sin (th k / 2) * sin (th k / 2))) (2 ^ n) = RtoC (2 ^ n - 1).
Proof.
  rewrite (bigsum_ext _ (fun k => (1 * 1 + (- (1)) * RtoC (cos (th k / 2) * cos (th k / 2)))%C)).
  - rewrite (bigsum_lin (fun _ => 1) (fun k => RtoC (cos (th k / 2) * cos (th k / 2)))).
    rewrite norm1, bigsum_one. rewrite pow_INR. cbn [INR]. replace (1 + 1) with 2 by ring.
    apply injective_projections; cbn [fst snd Cmult Cplus Copp RtoC]; ring.
  - intros k. pose proof (sin2_cos2 (th k / 2)) as P. unfold Rsqr in P.
    apply injective_projections; cbn [fst snd Cmult Cplus Copp RtoC]; nra.
Qed.

Lemma Ud_comb_0 x y : Udop n th ph (comb x y) 0%N = (RtoC sn * (x + y * RtoC (2 ^ n - 1)))%C.
Proof.
  unfold Udop. rewrite HL_at_zero by (intros; apply get_0).
  fold sn. f_equal.
  pose (F := fun k => (x * RtoC (cos (th k / 2) * cos (th k / 2)) + y * RtoC (sin (th k / 2) * sin (th k / 2)))%C).
  rewrite (sumc_ext_on n _ (fun b => F (cidx n b))).
  - rewrite (sumc_cidx n F). unfold F. rewrite bigsum_lin, norm1, sin2_sum. ring.
  - intros b Hb. unfold F, appf, app1, comb, Gv, Bv.
    rewrite (Hb 0%nat), get_0 by lia. rewrite !get_upd_same. rewrite !indh_upd by lia. rewrite !cidx_indep0.
    assert (Z : indh b = 1).
    { unfold indh. rewrite hz_of_bits. reflexivity. intros q Hq. rewrite Hb by lia. apply get_0. }
    rewrite Z. destruct (Wi_row0 b) as [A B]. rewrite <- A, <- B. ring.
Qed.

(* one round: I_t ; U^-1 ; I_s ; U *)
Definition round (psi : state) : state := Uop n th ph (Isop n (Udop n th ph (app1 ItM 0 psi))).
Definition dd (x y : C) : C := (RtoC sn * (RtoC sn * (- x + y * RtoC (2 ^ n - 1))))%C.
Lemma round_comb x y : round (comb x y) = comb (- x - (dd x y + dd x y))%C (y - (dd x y + dd x y))%C.
Proof.
  unfold round. rewrite It_comb.
  rewrite Is_sup.
  2:{ unfold Udop. apply sup_HL. lia. apply sup_appf. lia. apply sup_comb. }
  rewrite (U_lin n th ph (Udop n th ph (comb (- x)%C y)) e0).
  rewrite U_Ud, U_e0, Ud_comb_0.
  apply functional_extensionality; intros b. unfold comb, dd. ring.
Qed.
End Amplify.

(* ---------- the whole circuit ---------- *)
Section Circuit.
Variable n : nat.
Variables th ph : nat -> R.
Let run := brun n th ph.
Hypothesis norm1 : bigsum (fun k => RtoC (cos (th k / 2) * cos (th k / 2))) (2 ^ n) = 1.

Definition dR (x y : R) : R := sn n * (sn n * (- x + y * (2 ^ n - 1))).
Fixpoint xy (j : nat) : R * R :=
  match j with
  | O => (sn n, sn n)
  | S j' => (- fst (xy j') - 2 * dR (fst (xy j')) (snd (xy j')), snd (xy j') - 2 * dR (fst (xy j')) (snd (xy j')))
  end.

Lemma run_rounds r psi : run (rounds n (S r)) psi = round n th ph (run (rounds n r) psi).
Proof.
  unfold run. cbn [rounds]. rewrite !brun_app. fold run.
  rewrite (run_U n th ph). change (brun n th ph [BIs]) with (Isop n). rewrite (run_Ud n th ph). reflexivity.
Qed.

Theorem circuit_state r : run (bb_circuit n r) e0 = comb n th ph (RtoC (fst (xy r))) (RtoC (snd (xy r))).
Proof.
  unfold bb_circuit, run. rewrite brun_app. fold run. rewrite (run_U n th ph), U_e0.
  induction r as [|r IH]. reflexivity.
  rewrite run_rounds, IH, (round_comb n th ph norm1). cbn [xy fst snd]. unfold dd, dR.
  f_equal; apply injective_projections; cbn [fst snd Cmult Cplus Copp Cminus RtoC]; ring.
Qed.

(* link with the two-dimensional recurrence of Grover.v: coordinates (x, sq y) in the orthonormal frame *)
Variables t sq : R.
Hypothesis Hsin : sin t = sn n.
Hypothesis Hcos : cos t = sn n * sq.
Hypothesis Hsq : sq * sq = 2 ^ n - 1.

Lemma xy_iter j : iter t j (sin t, cos t) = (fst (xy j), sq * snd (xy j)).
Proof.
  induction j as [|j IH]. cbn [iter xy fst snd]. rewrite Hsin, Hcos. f_equal. ring.
  cbn [iter]. rewrite IH. unfold Q, Ss, It. cbn [fst snd xy]. rewrite Hsin, Hcos. unfold dR.
  f_equal. ring_simplify. replace (sq ^ 2) with (2 ^ n - 1) by (rewrite <- Hsq; ring). ring.
  ring_simplify. replace (sq ^ 3) with (sq * (2 ^ n - 1)) by (rewrite <- Hsq; ring). ring.
Qed.

Theorem xy_closed j : fst (xy j) = sgn j * sin ((2 * INR j + 1) * t) /\ sq * snd (xy j) = sgn j * cos ((2 * INR j + 1) * t).
Proof.
  pose proof (xy_iter j) as E. rewrite grover_rec in E. inversion E as [[E1 E2]]. split; reflexivity.
Qed.

Lemma sgn_sq j : sgn j * sgn j = 1.
Proof. unfold sgn. rewrite <- Rpow_mult_distr. replace (-1 * -1) with 1 by ring. apply pow1. Qed.

(* the flag = 0 branch: with the circuit's global phase (-1)^r, exactly sin((2r+1)t) a_k *)
Theorem flag0_branch r b : get b 0 = false ->
  (RtoC (sgn r) * run (bb_circuit n r) e0 b = RtoC (sin ((2 * INR r + 1) * t)) * (indh n b * ak th ph (cidx n b)))%C.
Proof.
  intros Hb. rewrite circuit_state. unfold comb, Gv, Bv. rewrite Hb.
  destruct (xy_closed r) as [E1 _]. rewrite E1.
  replace (RtoC (sin ((2 * INR r + 1) * t))) with (RtoC (sgn r * sgn r * sin ((2 * INR r + 1) * t))) by (rewrite sgn_sq; f_equal; ring).
  rewrite !RtoC_mult. ring.
Qed.
(* the flag = 1 branch carries the rest: cos((2r+1)t) b_k / sqrt(2^n - 1) *)
Theorem flag1_branch r b : get b 0 = true ->
  (RtoC sq * (RtoC (sgn r) * run (bb_circuit n r) e0 b) = RtoC (cos ((2 * INR r + 1) * t)) * (indh n b * bk th ph (cidx n b)))%C.
Proof.
  intros Hb. rewrite circuit_state. unfold comb, Gv, Bv. rewrite Hb.
  destruct (xy_closed r) as [_ E2].
  replace (RtoC (cos ((2 * INR r + 1) * t))) with (RtoC (sgn r * (sq * snd (xy r)))).
  2:{ rewrite E2. rewrite <- Rmult_assoc, sgn_sq. f_equal. ring. }
  rewrite !RtoC_mult. ring.
Qed.
End Circuit.

(* ---------- the angle of the property: t = asin(1/sqrt(2^n)) ---------- *)
Lemma rs2_pow n : rs2 ^ n = / sqrt (2 ^ n).
Proof.
  induction n as [|n IH]. cbn [pow]. rewrite sqrt_1. field.
  cbn [pow]. rewrite IH. unfold rs2. rewrite sqrt_mult by (try lra; apply pow_le; lra).
  rewrite Rinv_mult. reflexivity.
Qed.
Lemma sn_sq n : sn n * sn n * 2 ^ n = 1.
Proof.
  unfold sn. rewrite rs2_pow. assert (0 < 2 ^ n) by (apply pow_lt; lra).
  rewrite <- Rinv_mult, sqrt_sqrt by lra. field. lra.
Qed.
Lemma sn_pos n : 0 < sn n.
Proof. unfold sn, rs2. apply pow_lt. apply Rinv_0_lt_compat. apply sqrt_lt_R0. lra. Qed.
Lemma sn_le1 n : sn n <= 1.
Proof.
  pose proof (sn_sq n) as E. pose proof (sn_pos n) as P.
  assert (1 <= 2 ^ n) by (apply pow_R1_Rle; lra). nra.
Qed.

Theorem flag0_branch_asin n th ph r b :
  bigsum (fun k => RtoC (cos (th k / 2) * cos (th k / 2))) (2 ^ n) = 1 ->
  get b 0 = false ->
  (RtoC (sgn r) * brun n th ph (bb_circuit n r) e0 b
   = RtoC (sin ((2 * INR r + 1) * asin (/ sqrt (2 ^ n)))) * (indh n b * ak th ph (cidx n b)))%C.
Proof.
  intros N1 Hb.
  pose proof (sn_sq n) as E. pose proof (sn_pos n) as P. pose proof (sn_le1 n) as L.
  assert (Hs : sn n = / sqrt (2 ^ n)) by (unfold sn; apply rs2_pow).
  assert (H2 : 1 <= 2 ^ n) by (apply pow_R1_Rle; lra).
  apply (flag0_branch n th ph N1 (asin (/ sqrt (2 ^ n))) (sqrt (2 ^ n - 1))); auto.
  - rewrite <- Hs. apply sin_asin. lra.
  - rewrite <- Hs. rewrite cos_asin by lra. unfold Rsqr.
    apply sqrt_lem_1.
    + nra.
    + apply Rmult_le_pos. lra. apply sqrt_pos.
    + rewrite Rmult_assoc, (Rmult_comm (sqrt _)), !Rmult_assoc, sqrt_sqrt by lra. nra.
  - apply sqrt_sqrt. lra.
Qed.

(* |a_k|^2 = cos^2(th_k/2): the premise is the normalisation of the vector *)
Lemma ak_norm th ph k : (ak th ph k * Cconj (ak th ph k))%C = RtoC (cos (th k / 2) * cos (th k / 2)).
Proof.
  unfold ak, Cconj. pose proof (sin2_cos2 (ph k / 2)) as P. unfold Rsqr in P.
  apply injective_projections; cbn [fst snd Cmult Cplus Copp RtoC]; nra.
Qed.

(* decidable equality of the alphabet, for the gate-list correspondence *)
Definition bgate_eqb (g h : bgate) : bool :=
  match g, h with
  | BH a, BH b => Nat.eqb a b
  | BUcry, BUcry | BUcrz, BUcrz | BUcryd, BUcryd | BUcrzd, BUcrzd | BIt, BIt | BIs, BIs => true
  | _, _ => false
  end.
Lemma bgate_eqb_eq g h : bgate_eqb g h = true <-> g = h.
Proof.
  destruct g, h; cbn [bgate_eqb]; split; intros H; try reflexivity; try discriminate.
  - apply Nat.eqb_eq in H. now subst.
  - inversion H. apply Nat.eqb_refl.
Qed.

(* the weight on the flag = 1 branch: |b_k|^2 = sin^2(th_k/2), and these sum to 2^n - 1 when the |a_k|^2 sum to 1 *)
Lemma bk_norm th ph k : (bk th ph k * Cconj (bk th ph k))%C = RtoC (sin (th k / 2) * sin (th k / 2)).
Proof.
  unfold bk, Cconj. pose proof (sin2_cos2 (ph k / 2)) as P. unfold Rsqr in P.
  apply injective_projections; cbn [fst snd Cmult Cplus Copp RtoC]; nra.
Qed.
Theorem rest_weight n th ph :
  bigsum (fun k => RtoC (cos (th k / 2) * cos (th k / 2))) (2 ^ n) = 1 ->
  bigsum (fun k => (bk th ph k * Cconj (bk th ph k))%C) (2 ^ n) = RtoC (2 ^ n - 1).
Proof.
  intros H. rewrite (bigsum_ext _ (fun k => RtoC (sin (th k / 2) * sin (th k / 2)))).
  - exact (sin2_sum n th H).
  - intros k. apply bk_norm.
Qed.
