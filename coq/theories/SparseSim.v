(* A sound sparse simulation with symbolic amplitudes, for circuits of X, CX and multi-controlled one-qubit gates with arbitrary
   2x2 matrices M i.  A state is a finite list of (path, basis state); the amplitude of an entry is the product of the matrix
   entries listed in its path.  The structural part - which basis states appear, through which matrix entries - is computable
   (the harness evaluates it inside Coq on the gates the code emitted); [ssim_sound] says that it denotes the operator semantics.
   Used for MergeInitialize (C06): every basis state, every path and every side condition is computed in Coq; only the finitely
   many products of 2x2 entries are compared numerically with the requested amplitudes. *)
From Coq Require Import Reals Lra List Bool Arith Lia NArith FunctionalExtensionality.
From Coquelicot Require Import Complex.
From QV Require Import Sem Mat2 Toff2 Chain Vchain Cvoqram McxModel FnPointsModel FnSem.
Import ListNotations.
Open Scope nat_scope.

Inductive mg := MGX (q : nat) | MGCX (c t : nat) | MGU (i : nat) (cs : list nat) (t : nat).
Definition step := (nat * bool * bool)%type.            (* matrix index, row, column *)
Definition sentry := (list step * asg)%type.

Section SS.
Variable M : nat -> mat2.

Definition mapp (g : mg) (psi : state) : state :=
  match g with
  | MGX q => app1 Xm q psi
  | MGCX c t => appf (fun b => Xpow (get b c)) t psi
  | MGU i cs t => appf (fun b => if allq cs b then M i else I2) t psi
  end.
Definition mrun (c : list mg) (psi : state) : state := fold_left (fun s g => mapp g s) c psi.
Definition mwf (g : mg) : Prop :=
  match g with MGX _ => True | MGCX c t => c <> t | MGU _ cs t => ~ In t cs end.
Definition mwfb (g : mg) : bool :=
  match g with MGX _ => true | MGCX c t => negb (Nat.eqb c t) | MGU _ cs t => negb (existsb (Nat.eqb t) cs) end.
Lemma mwfb_ok g : mwfb g = true -> mwf g.
Proof.
  destruct g as [q|c t|i cs t]; cbn [mwfb mwf]; auto.
  - intros H E. subst. now rewrite Nat.eqb_refl in H.
  - intros H I. apply negb_true_iff in H. assert (existsb (Nat.eqb t) cs = true); [|congruence].
    apply existsb_exists. exists t. split; auto. apply Nat.eqb_refl.
Qed.

Fixpoint pval (p : list step) : C :=
  match p with [] => RtoC 1 | (i, r, c) :: p' => (mget (M i) r c * pval p')%C end.
Definition ev (e : sentry) : entry := (pval (fst e), snd e).

Definition ssplit (i : nat) (cs : list nat) (t : nat) (e : sentry) : list sentry :=
  if allq cs (snd e)
  then [ ((i, false, get (snd e) t) :: fst e, upd (snd e) t false); ((i, true, get (snd e) t) :: fst e, upd (snd e) t true) ]
  else [e].
Definition mperm (g : mg) (b : asg) : asg :=
  match g with MGX q => flipq q b | MGCX c t => if get b c then flipq t b else b | MGU _ _ _ => b end.
Definition ssim1 (g : mg) (l : list sentry) : list sentry :=
  match g with
  | MGU i cs t => flat_map (ssplit i cs t) l
  | _ => map (fun e => (fst e, mperm g (snd e))) l
  end.
Definition ssim (gates : list mg) (l : list sentry) : list sentry := fold_left (fun l g => ssim1 g l) gates l.

Lemma allq_upd cs t b v : ~ In t cs -> allq cs (upd b t v) = allq cs b.
Proof.
  intros H. unfold allq. induction cs as [|c cs IH]; auto. simpl.
  rewrite get_upd_other by (intro E; apply H; left; auto). f_equal. apply IH. intro I. apply H. now right.
Qed.
Lemma delta_Q_neq (Q : asg -> bool) b B : Q b <> Q B -> delta b B = RtoC 0.
Proof. intros H. unfold delta. destruct (N.eqb_spec b B) as [->|E]; auto. congruence. Qed.

Lemma mcu_single (U : mat2) cs t a B b : ~ In t cs ->
  (if allq cs b then app1 U t (fun x => (a * delta x B)%C) b else (a * delta b B)%C)
  = den (if allq cs B then [ ((mget U false (get B t) * a)%C, upd B t false); ((mget U true (get B t) * a)%C, upd B t true) ]
         else [(a, B)]) b.
Proof.
  intros Ht.
  destruct (allq cs B) eqn:EB.
  - cbn [den fst snd].
    destruct (allq cs b) eqn:Eb.
    + unfold app1. rewrite !delta_upd_l.
      destruct (get B t) eqn:Et; destruct (get b t) eqn:Ebt; cbn [Bool.eqb mget];
        try rewrite (delta_get_neq b (upd B t false) t) by (rewrite get_upd_same; congruence);
        try rewrite (delta_get_neq b (upd B t true) t) by (rewrite get_upd_same; congruence); ring.
    + rewrite (delta_Q_neq (allq cs) b B) by congruence.
      rewrite (delta_Q_neq (allq cs) b (upd B t false)) by (rewrite allq_upd by auto; congruence).
      rewrite (delta_Q_neq (allq cs) b (upd B t true)) by (rewrite allq_upd by auto; congruence). ring.
  - cbn [den fst snd].
    destruct (allq cs b) eqn:Eb.
    + rewrite (delta_Q_neq (allq cs) b B) by congruence.
      unfold app1.
      rewrite (delta_Q_neq (allq cs) (upd b t false) B) by (rewrite allq_upd by auto; congruence).
      rewrite (delta_Q_neq (allq cs) (upd b t true) B) by (rewrite allq_upd by auto; congruence). ring.
    + ring.
Qed.

Lemma ev_ssplit i cs t e b :
  den (map ev (ssplit i cs t e)) b
  = den (if allq cs (snd e) then [ ((mget (M i) false (get (snd e) t) * pval (fst e))%C, upd (snd e) t false);
                                   ((mget (M i) true (get (snd e) t) * pval (fst e))%C, upd (snd e) t true) ]
         else [(pval (fst e), snd e)]) b.
Proof. unfold ssplit. destruct (allq cs (snd e)); reflexivity. Qed.

Lemma den_mcu i cs t l : ~ In t cs ->
  appf (fun b => if allq cs b then M i else I2) t (den (map ev l)) = den (map ev (flat_map (ssplit i cs t) l)).
Proof.
  intros Ht. apply functional_extensionality; intros b. induction l as [|e l IH].
  - simpl. unfold appf, app1. simpl. ring.
  - cbn [flat_map map]. rewrite map_app, den_app, <- IH, ev_ssplit.
    rewrite <- (mcu_single (M i) cs t (pval (fst e)) (snd e) b Ht).
    change (den (ev e :: map ev l)) with (fun x => (pval (fst e) * delta x (snd e) + den (map ev l) x)%C).
    unfold appf. destruct (allq cs b).
    + apply app1_lin.
    + rewrite !app1_I2. reflexivity.
Qed.

Lemma mperm_invol g b : mwf g -> mperm g (mperm g b) = b.
Proof.
  destruct g as [q|c t|i cs t]; cbn [mwf mperm]; intros W.
  - apply flipq_flipq.
  - destruct (get b c) eqn:E; [|now rewrite E]. rewrite flq_other, E by auto. apply flipq_flipq.
  - reflexivity.
Qed.
Lemma mapp_perm g psi : (match g with MGU _ _ _ => False | _ => True end) -> mapp g psi = fun b => psi (mperm g b).
Proof.
  destruct g as [q|c t|i cs t]; simpl; intros H; try tauto; apply functional_extensionality; intros b.
  - apply app1_X.
  - unfold appf. destruct (get b c); simpl. apply app1_X. apply app1_I2.
Qed.

Lemma ssim1_sound g l : mwf g -> mapp g (den (map ev l)) = den (map ev (ssim1 g l)).
Proof.
  intros W. destruct g as [q|c t|i cs t].
  - rewrite mapp_perm by exact I. rewrite (den_perm (mperm (MGX q))) by (intros; now apply mperm_invol).
    cbn [ssim1]. now rewrite !map_map.
  - rewrite mapp_perm by exact I. rewrite (den_perm (mperm (MGCX c t))) by (intros; now apply mperm_invol).
    cbn [ssim1]. now rewrite !map_map.
  - cbn [mapp ssim1]. now apply den_mcu.
Qed.
Theorem ssim_sound gates : Forall mwf gates -> forall l, mrun gates (den (map ev l)) = den (map ev (ssim gates l)).
Proof.
  induction gates as [|g gs IH]; intros W l. reflexivity.
  inversion W; subst. cbn [mrun ssim fold_left]. rewrite ssim1_sound by auto. now apply IH.
Qed.
Theorem ssim_sound_b gates : forallb mwfb gates = true -> forall l, mrun gates (den (map ev l)) = den (map ev (ssim gates l)).
Proof.
  intros H. apply ssim_sound. apply Forall_forall. intros g Hg. apply mwfb_ok. rewrite forallb_forall in H. auto.
Qed.
(* from the basis state |0..0> *)
Corollary ssim_from_zero gates : forallb mwfb gates = true ->
  mrun gates (fun b => delta b 0%N) = den (map ev (ssim gates [([], 0%N)])).
Proof.
  intros H. rewrite <- (ssim_sound_b gates H). f_equal. apply functional_extensionality; intros b. simpl. ring.
Qed.
End SS.
