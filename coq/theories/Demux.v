From mathcomp Require Import all_ssreflect all_algebra.
Set Implicit Arguments. Unset Strict Implicit. Unset Printing Implicit Defensive.
Import GRing.Theory.
Local Open Scope ring_scope.

Section Demux.
Variable (F : fieldType) (m : nat).
Implicit Types (U V W D : 'M[F]_m).

Definition bdiag (A B : 'M[F]_m) : 'M[F]_(m + m) := block_mx A 0 0 B.

Lemma bdiag_mul A B C D : bdiag A B *m bdiag C D = bdiag (A *m C) (B *m D).
Proof. by rewrite /bdiag mulmx_block !mulmx0 !mul0mx !addr0 !add0r. Qed.

(* QSD demultiplexing: U1 = V D W, U2 = V D^-1 W *)
Lemma demux U1 U2 V D Dinv Vinv U2inv W :
  V *m Vinv = 1%:M -> D *m Dinv = 1%:M -> Dinv *m D = 1%:M -> U2inv *m U2 = 1%:M ->
  U1 *m U2inv = V *m (D *m D) *m Vinv ->
  W = D *m Vinv *m U2 ->
  bdiag U1 U2 = bdiag V V *m bdiag D Dinv *m bdiag W W.
Proof.
move=> HV HD HD' HU2 Heig ->.
rewrite !bdiag_mul; congr bdiag.
- rewrite !mulmxA -[V *m D *m D]mulmxA -[LHS]mulmx1 -HU2 mulmxA Heig. by rewrite !mulmxA.
- by rewrite !mulmxA -[V *m Dinv *m D]mulmxA HD' mulmx1 HV mul1mx.
Qed.
End Demux.
Print Assumptions demux.
