From mathcomp Require Import all_ssreflect all_algebra.
Set Implicit Arguments. Unset Strict Implicit. Unset Printing Implicit Defensive.
Import GRing.Theory.
Local Open Scope ring_scope.

Section Demux.
Variable (F : fieldType) (m : nat).
Implicit Types (U V W D : 'M[F]_m).

Definition bdiag (A B : 'M[F]_m) : 'M[F]_(m + m) := block_mx A 0 0 B.

Lemma bdiag_mul A B C D : bdiag A B *m bdiag C D = bdiag (A *m C) (B *m D).
Proof. by rewrite /bdiag mulmx_block !mulmx0 !mul0mx !addr0 !add0r. Qed.

(* QSD demultiplexing: U1 = V D W, U2 = V D^-1 W *)
Lemma demux U1 U2 V D Dinv Vinv U2inv W :
  V *m Vinv = 1%:M -> D *m Dinv = 1%:M -> Dinv *m D = 1%:M -> U2inv *m U2 = 1%:M ->
  U1 *m U2inv = V *m (D *m D) *m Vinv ->
  W = D *m Vinv *m U2 ->
  bdiag U1 U2 = bdiag V V *m bdiag D Dinv *m bdiag W W.
Proof.
move=> HV HD HD' HU2 Heig ->.
rewrite !bdiag_mul; congr bdiag.
- rewrite !mulmxA -[V *m D *m D]mulmxA -[LHS]mulmx1 -HU2 mulmxA Heig. by rewrite !mulmxA.
- by rewrite !mulmxA -[V *m Dinv *m D]mulmxA HD' mulmx1 HV mul1mx.
Qed.
End Demux.
Print Assumptions demux.

(* one level of the quantum Shannon decomposition with optimisation A.1, over any field:
   U = (u0 (+) u1) CS (v0 (+) v1)  (cosine-sine),  CS = (1 (+) Z) Y  where Y is what the CZ-built multiplexed RY without its
   last CZ implements (property C13) and 1 (+) Z is that CZ; negating the last columns of u1 (u1 Z) absorbs it; each block pair
   is demultiplexed.  The product of the six emitted blocks is U. *)
Section QsdStep.
Variable (F : fieldType) (m : nat).
Implicit Types (A B : 'M[F]_m).
Lemma a1_absorb (u0 u1 Z : 'M[F]_m) (Y : 'M[F]_(m + m)) :
  bdiag u0 (u1 *m Z) *m Y = bdiag u0 u1 *m (bdiag 1%:M Z *m Y).
Proof. by rewrite mulmxA bdiag_mul mulmx1. Qed.

Theorem qsd_step (U CS Y : 'M[F]_(m + m)) (u0 u1 v0 v1 Z : 'M[F]_m)
  (Vl Dl Dlinv Wl Vr Dr Drinv Wr : 'M[F]_m) :
  U = bdiag u0 u1 *m CS *m bdiag v0 v1 ->
  CS = bdiag 1%:M Z *m Y ->
  bdiag u0 (u1 *m Z) = bdiag Vr Vr *m bdiag Dr Drinv *m bdiag Wr Wr ->
  bdiag v0 v1 = bdiag Vl Vl *m bdiag Dl Dlinv *m bdiag Wl Wl ->
  (bdiag Vr Vr *m bdiag Dr Drinv *m bdiag Wr Wr) *m Y *m (bdiag Vl Vl *m bdiag Dl Dlinv *m bdiag Wl Wl) = U.
Proof. move=> -> -> <- <-. by rewrite a1_absorb !mulmxA. Qed.
End QsdStep.
