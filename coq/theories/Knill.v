From mathcomp Require Import all_ssreflect all_algebra.
Set Implicit Arguments. Unset Strict Implicit. Unset Printing Implicit Defensive.
Import GRing.Theory.
Local Open Scope ring_scope.

Section Knill.
Variable (F : fieldType) (n : nat).
Variable E : 'I_n -> 'M[F]_n.          (* rank-one projectors |v_i><v_i| *)
Variable lam : 'I_n -> F.              (* eigenvalues e^{i theta_i} *)
Hypothesis Eorth : forall i j, i != j -> E i *m E j = 0.
Hypothesis Eidem : forall i, E i *m E i = E i.
Hypothesis Ecomplete : \sum_i E i = 1%:M.

(* one Knill factor: prepare^-1 ; phase lam_i on |0..0> ; prepare  =  1 + (lam_i - 1) |v_i><v_i| *)
Definition factor i : 'M[F]_n := 1%:M + (lam i - 1) *: E i.

Lemma factors_prod (r : seq 'I_n) : uniq r ->
  \big[mulmx/1%:M]_(i <- r) factor i = 1%:M + \sum_(i <- r) (lam i - 1) *: E i.
Proof.
  elim: r => [|i r IH] /=; first by rewrite !big_nil addr0.
  case/andP => Hi Hu. rewrite !big_cons IH // /factor.
  set S := \sum_(j <- r) _.
  have Z : E i *m S = 0.
    rewrite /S mulmx_sumr big_seq_cond big1 // => j /andP [Hj _].
    rewrite -scalemxAr Eorth ?scaler0 //. by apply: contraNneq Hi => ->.
  by rewrite mulmxDl mul1mx -scalemxAl mulmxDr mulmx1 Z addr0 addrAC -addrA.
Qed.

Theorem knill_product :
  \big[mulmx/1%:M]_(i <- enum 'I_n) factor i = \sum_i lam i *: E i.
Proof.
  rewrite factors_prod ?enum_uniq // big_enum /=.
  rewrite -Ecomplete -big_split /=. apply: eq_bigr => i _.
  by rewrite scalerBl scale1r addrCA subrr addr0.
Qed.
End Knill.
Print Assumptions knill_product.

(* one factor as a circuit: P^-1 ; (phase c+1 on |z>, identity elsewhere) ; P  with  P^-1 P = 1 :
   P (1 + c |z><z|) P^-1 = 1 + c (P e_z)(e_z^T P^-1), the rank-one term built from the prepared column *)
Section Factor.
Variable (R : comRingType) (n : nat).
Variables (P Pinv : 'M[R]_n) (z : 'I_n) (c : R).
Hypothesis PPinv : P *m Pinv = 1%:M.
Theorem knill_factor :
  P *m (1%:M + c *: delta_mx z z) *m Pinv = 1%:M + c *: (col z P *m row z Pinv).
Proof.
  rewrite mulmxDr mulmx1 mulmxDl PPinv. congr (_ + _).
  rewrite -scalemxAr -scalemxAl. congr (_ *: _).
  by rewrite -(mul_delta_mx (0 : 'I_1) z z) mulmxA -colE -mulmxA -rowE.
Qed.
End Factor.
