(* C19: reduction of the n-qubit amplification round to the two-dimensional recurrence of Grover.v, over any field with
   involution conj.  |s> = U|0> = sn |g> + cs |b> with |g> (flag = 0 part, normalised) and |b> orthonormal, sn and cs real
   (conj-fixed).  I_t = I - 2 P with P the projector on flag = 0 (P g = g, P b = 0); U I_s U^dagger = I - 2 |s><s| for unitary U.
   On x|g> + y|b> one round acts as  (x, y) |-> Ss (It (x, y))  - the map Grover.Q. *)
From mathcomp Require Import all_ssreflect all_algebra.
From mathcomp Require Import ring.
Set Implicit Arguments. Unset Strict Implicit. Unset Printing Implicit Defensive.
Import GRing.Theory.
Local Open Scope ring_scope.

Section Span.
Variable (F : fieldType) (conj : {rmorphism F -> F}) (N : nat).
Definition adjv (v : 'cV[F]_N) : 'rV[F]_N := \row_j conj (v j 0).
Definition ip (u v : 'cV[F]_N) : F := (adjv u *m v) 0 0.

Lemma ip_addr u v w : ip u (v + w) = ip u v + ip u w.
Proof. by rewrite /ip mulmxDr mxE. Qed.
Lemma ip_scaler u a v : ip u (a *: v) = a * ip u v.
Proof. by rewrite /ip -scalemxAr mxE. Qed.
Lemma ip_addl u v w : ip (u + v) w = ip u w + ip v w.
Proof.
  rewrite /ip !mxE -big_split /=. apply: eq_bigr => j _. by rewrite !mxE rmorphD mulrDl.
Qed.
Lemma ip_scalel a u v : ip (a *: u) v = conj a * ip u v.
Proof.
  rewrite /ip !mxE big_distrr /=. apply: eq_bigr => j _. by rewrite !mxE rmorphM mulrA.
Qed.

Variables g b : 'cV[F]_N.
Hypothesis gg : ip g g = 1.
Hypothesis bb : ip b b = 1.
Hypothesis gb : ip g b = 0.
Hypothesis bg : ip b g = 0.
Variables sn cs : F.
Hypothesis sn_real : conj sn = sn.
Hypothesis cs_real : conj cs = cs.
Variable P : 'M[F]_N.
Hypothesis Pg : P *m g = g.
Hypothesis Pb : P *m b = 0.

Definition svec : 'cV[F]_N := sn *: g + cs *: b.
Definition Rs (v : 'cV[F]_N) : 'cV[F]_N := v - (ip svec v + ip svec v) *: svec.      (* I - 2|s><s| *)
Definition Itv (v : 'cV[F]_N) : 'cV[F]_N := v - (P *m v + P *m v).                    (* I - 2P *)

Lemma It_span x y : Itv (x *: g + y *: b) = (- x) *: g + y *: b.
Proof.
  rewrite /Itv mulmxDr -!scalemxAr Pg Pb scaler0 addr0.
  by rewrite opprD addrA [x *: g + y *: b - x *: g]addrAC subrr add0r addrC scaleNr.
Qed.

Lemma ip_s_span x y : ip svec (x *: g + y *: b) = sn * x + cs * y.
Proof.
  rewrite /svec ip_addl !ip_scalel !ip_addr !ip_scaler gg bb gb bg sn_real cs_real.
  ring.
Qed.

Theorem round_on_span x y :
  Rs (Itv (x *: g + y *: b))
  = (- x - (sn * - x + cs * y + (sn * - x + cs * y)) * sn) *: g + (y - (sn * - x + cs * y + (sn * - x + cs * y)) * cs) *: b.
Proof.
  rewrite It_span /Rs ip_s_span /svec.
  set d := (sn * - x + cs * y + (sn * - x + cs * y)).
  rewrite scalerDr !scalerA opprD addrACA -!scalerBl. reflexivity.
Qed.
End Span.

(* U I_s U^dagger is the reflection about U e_0, for any unitary U *)
Section Reflect.
Variable (F : fieldType) (N : nat).
Variables (U Ud : 'M[F]_N) (E0 : 'M[F]_N).         (* E0 = |0><0| *)
Hypothesis UUd : U *m Ud = 1%:M.
Lemma reflect_conj : U *m (1%:M - (E0 + E0)) *m Ud = 1%:M - (U *m E0 *m Ud + U *m E0 *m Ud).
Proof. by rewrite mulmxBr mulmx1 mulmxBl UUd mulmxDr mulmxDl. Qed.
End Reflect.
