(* C08 / C14 / C11: assembling a product state.  Operators that act locally on pairwise disjoint qubit groups (frame property:
   a factor that ignores the group passes through), each preparing its factor from the zeros of its group, together prepare
   the product of the factors, whatever the rest of the register holds.  Instance: any circuit of the Dcsp alphabet whose
   gates stay inside the group. *)
From Coq Require Import Reals Lra List Bool Arith Lia NArith FunctionalExtensionality.
From Coquelicot Require Import Complex.
From QV Require Import Sem Mat2 Toff2 Chain Vchain Cvoqram SumQ Dcsp.
Import ListNotations.
Open Scope nat_scope.

Definition pw (al beta : state) : state := fun b => (al b * beta b)%C.
Definition localop (qs : list nat) (F : state -> state) : Prop :=
  forall al beta, indeps qs beta -> F (pw al beta) = pw (F al) beta.
(* a factor: depends only on the qubits of its group *)
Definition only_on (qs : list nat) (v : state) : Prop := forall p, ~ In p qs -> indepq p v.

Record block := { bq : list nat; bop : state -> state; bv : state }.
Definition block_ok (B : block) : Prop :=
  localop (bq B) (bop B) /\ bop B (Zq (bq B)) = bv B /\ only_on (bq B) (bv B).
Definition run_blocks (Bs : list block) (psi : state) : state := fold_left (fun s B => bop B s) Bs psi.
Fixpoint zeros (Bs : list block) : state := match Bs with [] => fun _ => RtoC 1 | B :: r => pw (Zq (bq B)) (zeros r) end.
Fixpoint prod (Bs : list block) : state := match Bs with [] => fun _ => RtoC 1 | B :: r => pw (bv B) (prod r) end.
Fixpoint disjoint_groups (Bs : list block) : Prop :=
  match Bs with [] => True | B :: r => (forall B', In B' r -> forall p, In p (bq B) -> ~ In p (bq B')) /\ disjoint_groups r end.

Lemma pw_comm a b : pw a b = pw b a.
Proof. apply functional_extensionality; intros x. unfold pw. ring. Qed.
Lemma pw_assoc a b c : pw a (pw b c) = pw (pw a b) c.
Proof. apply functional_extensionality; intros x. unfold pw. ring. Qed.
Lemma indeps_pw qs a b : indeps qs a -> indeps qs b -> indeps qs (pw a b).
Proof. intros Ha Hb q Hq x v. unfold pw. now rewrite (Ha q Hq), (Hb q Hq). Qed.
Lemma zeros_indeps qs Bs : (forall B, In B Bs -> forall p, In p qs -> ~ In p (bq B)) -> indeps qs (zeros Bs).
Proof.
  induction Bs as [|B r IH]; intros H. intros q Hq x v; reflexivity.
  cbn [zeros]. apply indeps_pw.
  - intros q Hq. apply Zq_indep. apply (H B (or_introl eq_refl)). auto.
  - apply IH. intros B' HB'. apply H. now right.
Qed.

(* running the blocks one after the other on  (product of factors already prepared) x (zeros of the remaining groups) x rest *)
Theorem product_assembly : forall Bs (done rest : state),
  Forall block_ok Bs -> disjoint_groups Bs ->
  (forall B, In B Bs -> indeps (bq B) done) -> (forall B, In B Bs -> indeps (bq B) rest) ->
  run_blocks Bs (pw (pw done (zeros Bs)) rest) = pw (pw done (prod Bs)) rest.
Proof.
  induction Bs as [|B r IH]; intros done rest Hok Hd Hdone Hrest. reflexivity.
  inversion Hok as [|? ? [Hloc [Hprep Honly]] Hok']; subst. destruct Hd as [Hd1 Hd2].
  cbn [run_blocks fold_left zeros prod]. fold (run_blocks r).
  (* bring the zeros of this group to the front, apply the frame property, put the factor with the done part *)
  assert (E1 : pw (pw done (pw (Zq (bq B)) (zeros r))) rest = pw (Zq (bq B)) (pw (pw done (zeros r)) rest)).
  { apply functional_extensionality; intros x. unfold pw. ring. }
  rewrite E1, Hloc, Hprep.
  2:{ apply indeps_pw; [apply indeps_pw|].
      - apply Hdone. now left.
      - apply zeros_indeps. intros B' HB' p Hp. now apply Hd1.
      - apply Hrest. now left. }
  assert (E2 : pw (bv B) (pw (pw done (zeros r)) rest) = pw (pw (pw done (bv B)) (zeros r)) rest).
  { apply functional_extensionality; intros x. unfold pw. ring. }
  rewrite E2, IH; auto.
  - apply functional_extensionality; intros x. unfold pw. ring.
  - intros B' HB'. apply indeps_pw. apply Hdone. now right.
    intros q Hq. apply Honly. intro I. apply (Hd1 B' HB' q I Hq).
  - intros B' HB'. apply Hrest. now right.
Qed.

Corollary product_from_zeros Bs : Forall block_ok Bs -> disjoint_groups Bs -> run_blocks Bs (zeros Bs) = prod Bs.
Proof.
  intros Hok Hd.
  assert (CI : forall B : block, In B Bs -> indeps (bq B) (fun _ : asg => RtoC 1)) by (intros B _ q _ x v; reflexivity).
  pose proof (product_assembly Bs (fun _ => RtoC 1) (fun _ => RtoC 1) Hok Hd CI CI) as E.
  assert (L : forall s, pw (pw (fun _ => RtoC 1) s) (fun _ => RtoC 1) = s).
  { intros s. apply functional_extensionality; intros x. unfold pw. ring. }
  now rewrite !L in E.
Qed.

(* instance: circuits of rotations, controlled swaps and entanglers that stay inside the group *)
Lemma drun_local c qs : Forall (glocal qs) c -> localop qs (drun c).
Proof. intros W al beta Hb. unfold pw. now apply (drun_frame c qs). Qed.
