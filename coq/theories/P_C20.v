(* Property C20 (part 1): the per-qubit split used by meyer_wallach_entanglement.
   _get_iota is TRANSLATED FROM THE SOURCE on every run (Gen_iota). *)
From Coq Require Import ZArith Bool.
From QV Require Import GenLib Gen_iota IotaGen.
Open Scope Z_scope.

Theorem C20_iota_delta : forall j n s b, 0 <= j -> 0 <= b ->
  iota_delta j n s b = (Z.b2z (Z.testbit b j) =? s).
Proof. exact iota_delta_spec. Qed.
Print Assumptions C20_iota_delta.

(* the new index is b with bit j deleted: a bijection from {b < 2^n : bit j = s} onto [0, 2^(n-1)) *)
Theorem C20_iota_index_bits : forall j n s b i, 0 <= j < n -> 0 <= b -> 0 <= i ->
  Z.testbit (iota_index j n s b) i = if i <? j then Z.testbit b i else (Z.testbit b (i + 1) && (i + 1 <? n)).
Proof. exact iota_index_bits. Qed.
Print Assumptions C20_iota_index_bits.

Example ex_iota : iota_index 1 3 0 5 = 3 /\ iota_delta 1 3 0 5 = true /\ iota_index 0 3 1 6 = 3 /\ iota_delta 0 3 1 6 = false.
Proof. vm_compute. auto. Qed.
