From Coq Require Import List Arith QArith Qabs ZArith String.
Import ListNotations.
(* polymorphic model of qclib.gates.ucr.ucr *)
Inductive rot := RotY | RotZ.
Inductive ent := EntCX | EntCZ.
Inductive gate (A : Type) := GRot (r : rot) (theta : A) (q : nat) | GEnt (e : ent) (c t : nat).
Arguments GRot {A}. Arguments GEnt {A}.
Record aops (A : Type) := { aadd : A -> A -> A; asub : A -> A -> A; ahalf : A -> A; askip : A -> bool }.
Section M.
Context {A : Type} (o : aops A).
Fixpoint ucr_nl (r : rot) (e : ent) (k : nat) (a : nat -> A) : list (gate A) :=
  match k with
  | O => if askip _ o (a O) then [] else [GRot r (a O) O]
  | S k' =>
     ucr_nl r e k' (fun j => ahalf _ o (aadd _ o (a j) (a (j + 2^k')%nat)))
     ++ [GEnt e (S k') O]
     ++ rev (ucr_nl r e k' (fun j => ahalf _ o (asub _ o (a j) (a (j + 2^k')%nat)))) 
  end.
Definition ucr r e k (l : list A) (d : A) (last : bool) :=
  ucr_nl r e k (fun j => nth j l d) ++ (match k with O => [] | _ => if last then [GEnt e k O] else [] end).
End M.
Definition qops : aops Q :=
  {| aadd := Qplus; asub := Qminus; ahalf := fun x => Qred (x / 2); askip := fun x => Qle_bool (Qabs x) (1 # 100000000) |}.
Definition run_q r e k l last := ucr qops r e k l 0%Q last.
Require Extraction.
Require Import ExtrOcamlBasic.
Extraction "ucr_model.ml" run_q.
