import warnings; warnings.filterwarnings("ignore")
import numpy as np
from qiskit import QuantumCircuit
from qiskit.circuit import Gate, ControlledGate
STD_STOP={'x','h','cx','cz','ccx','mcx','c3x','c4x','u','ry','rz','rx','p','cp','crx','cu','swap','cswap','unitary','rccx','mcphase','reset','barrier','multiplexer','diagonal','ucry','ucrz','ucrx','id','z','y','s','sdg','t','tdg','u1','u2','u3','cry','crz','mcx_gray','initialize','isometry','state_preparation','global_phase','sx','ch','cy'}
def flatten(circ, qmap=None, out=None, phase=None):
    if out is None: out=[]
    if qmap is None: qmap=list(range(circ.num_qubits))
    if phase is None: phase=[0.0]
    phase[0]+=float(circ.global_phase)
    for inst in circ.data:
        op=inst.operation
        qs=[qmap[circ.find_bit(q).index] for q in inst.qubits]
        name=op.name
        if name in STD_STOP or op.definition is None or (isinstance(op,ControlledGate) and name.startswith('c') and op.definition is None):
            out.append((name,tuple(qs),op))
        elif isinstance(op,ControlledGate) and getattr(op,'base_gate',None) is not None and op.base_gate.name=='unitary':
            out.append(('cunitary',tuple(qs),op))
        else:
            flatten(op.definition,qs,out,phase)
    return out,phase[0]
