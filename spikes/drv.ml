open Ucr_model
let rec pos2i = function XH -> 1 | XO p -> 2 * pos2i p | XI p -> 2 * pos2i p + 1
let z2i = function Z0 -> 0 | Zpos p -> pos2i p | Zneg p -> - (pos2i p)
let rec nat2i = function O -> 0 | S n -> 1 + nat2i n
let rec i2nat n = if n = 0 then O else S (i2nat (n-1))
let rec i2pos n = if n = 1 then XH else if n land 1 = 0 then XO (i2pos (n/2)) else XI (i2pos (n/2))
let i2z n = if n = 0 then Z0 else if n > 0 then Zpos (i2pos n) else Zneg (i2pos (-n))
let () =
  let k = int_of_string Sys.argv.(1) in
  let l = List.init (1 lsl k) (fun i -> { qnum = i2z (3*i - 2); qden = i2pos 8 }) in
  let gs = run_q RotY EntCX (i2nat k) l true in
  List.iter (function
    | GRot (_, th, q) -> Printf.printf "rot %d/%d %d\n" (z2i th.qnum) (pos2i th.qden) (nat2i q)
    | GEnt (_, c, t) -> Printf.printf "ent %d %d\n" (nat2i c) (nat2i t)) gs
