From Coq Require Import ZArith Bool.
Open Scope Z_scope.
(* generated - do not edit *)
Fixpoint _cnot_count_iso (fuel : nat) (n_qubits : Z) (iso : Z) (apply_a2 : Z) {struct fuel} : option Z :=
  match fuel with O => None | S fuel =>
  if (n_qubits >? (2)) then
    if (negb (iso =? 0)) then
      let iso_cnot := (if ((n_qubits - (1)) =? (2)) then (1) else (0)) in
      match _cnot_count_iso fuel (n_qubits - (1)) (iso - (1)) apply_a2 with
      | Some r0_ => let gate_left := (r0_ + iso_cnot) in
      let ucry := (((2) ^ (n_qubits - (1))) - (1)) in
      match _cnot_count_iso_qsd fuel n_qubits apply_a2 with
      | Some r0_ => let gate_right := r0_ in
      Some ((gate_left + ucry) + gate_right)
      | None => None end
      | None => None end
    else
      match _cnot_count_iso_qsd fuel n_qubits apply_a2 with
      | Some r0_ => let gate_left := r0_ in
      let ucry := (((2) ^ (n_qubits - (1))) - (1)) in
      match _cnot_count_iso_qsd fuel n_qubits apply_a2 with
      | Some r0_ => let gate_right := r0_ in
      Some ((gate_left + ucry) + gate_right)
      | None => None end
      | None => None end
  else
    if (negb (apply_a2 =? 0)) then
      Some (2)
    else
      Some (3)
  end
with _cnot_count_iso_qsd (fuel : nat) (n_qubits : Z) (apply_a2 : Z) {struct fuel} : option Z :=
  match fuel with O => None | S fuel =>
  match _cnot_count_iso fuel (n_qubits - (1)) (0) apply_a2 with
  | Some r0_ => let left_gate := r0_ in
  let middle_gate := ((2) ^ (n_qubits - (1))) in
  match _cnot_count_iso fuel (n_qubits - (1)) (0) apply_a2 with
  | Some r0_ => let right_gate := r0_ in
  Some ((left_gate + middle_gate) + right_gate)
  | None => None end
  | None => None end
  end.
