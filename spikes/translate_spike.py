"""Fail-closed Python-ast -> Gallina translator spike (integer functions, fuel-based recursion)."""
import ast, sys, textwrap

class Unsupported(Exception): pass

class Tr:
    def __init__(self, src, names, param_override=None, enums=None):
        self.tree = ast.parse(src)
        self.names = names                    # functions to translate (mutually recursive group)
        self.param_override = param_override or {}
        self.enums = enums or {}              # string constants -> Z codes
        self.funcs = {n.name: n for n in ast.walk(self.tree) if isinstance(n, ast.FunctionDef)}

    def fail(self, node, why):
        raise Unsupported(f"line {getattr(node,'lineno','?')}: {why}: {ast.dump(node)[:120]}")

    # ----- expressions (all of type Z; booleans as Coq bool in conditions) -----
    def expr(self, e):
        if isinstance(e, ast.Constant):
            if isinstance(e.value, bool): return "1" if e.value else "0"
            if isinstance(e.value, int): return f"({e.value})"
            if isinstance(e.value, str) and e.value in self.enums: return f"({self.enums[e.value]})"
            self.fail(e, "constant")
        if isinstance(e, ast.Name): return e.id
        if isinstance(e, ast.BinOp):
            a, b = self.expr(e.left), self.expr(e.right)
            op = {ast.Add: "+", ast.Sub: "-", ast.Mult: "*", ast.FloorDiv: "/", ast.Mod: "mod", ast.Pow: "^"}.get(type(e.op))
            if op is None: self.fail(e, "operator")
            return f"({a} {op} {b})"
        if isinstance(e, ast.IfExp):
            return f"(if {self.cond(e.test)} then {self.expr(e.body)} else {self.expr(e.orelse)})"
        if isinstance(e, ast.Call) and isinstance(e.func, ast.Name):
            f = e.func.id
            if f == "int" and len(e.args) == 1:
                inner = e.args[0]
                if isinstance(inner, ast.Call) and getattr(inner.func, 'id', None) == "ceil":
                    return self.ceil_rational(inner.args[0])
                return self.expr(inner)
            if f in self.names:
                self.fail(e, "recursive call in expression position (must be bound by an assignment)")
        self.fail(e, "expression")

    # rational expression  -> exact ceiling over Z :  ceil(p/q) = (p + q - 1) / q  for q > 0
    def rat(self, e):
        """returns (num, den) Gallina Z terms"""
        if isinstance(e, ast.Constant) and isinstance(e.value, int): return (f"({e.value})", "1")
        if isinstance(e, ast.Name): return (e.id, "1")
        if isinstance(e, ast.BinOp):
            if isinstance(e.op, ast.Div):
                (a, b), (c, d) = self.rat(e.left), self.rat(e.right); return (f"({a} * {d})", f"({b} * {c})")
            if isinstance(e.op, ast.Mult):
                (a, b), (c, d) = self.rat(e.left), self.rat(e.right); return (f"({a} * {c})", f"({b} * {d})")
            if isinstance(e.op, (ast.Add, ast.Sub)):
                (a, b), (c, d) = self.rat(e.left), self.rat(e.right); s = "+" if isinstance(e.op, ast.Add) else "-"
                return (f"({a} * {d} {s} {c} * {b})", f"({b} * {d})")
            if isinstance(e.op, ast.Pow):
                return (self.expr(e), "1")
        self.fail(e, "rational expression")
    def ceil_rational(self, e):
        n, d = self.rat(e); return f"(({n} + {d} - 1) / {d})"

    def cond(self, e):
        if isinstance(e, ast.Compare) and len(e.ops) == 1:
            a, b = self.expr(e.left), self.expr(e.comparators[0])
            op = {ast.Eq: "=?", ast.Lt: "<?", ast.LtE: "<=?", ast.Gt: ">?", ast.GtE: ">=?"}.get(type(e.ops[0]))
            if op: return f"({a} {op} {b})"
            if isinstance(e.ops[0], ast.NotEq): return f"(negb ({a} =? {b}))"
        if isinstance(e, ast.Name): return f"(negb ({e.id} =? 0))"          # truthiness of an int / bool-as-Z
        if isinstance(e, ast.BoolOp):
            j = " && " if isinstance(e.op, ast.And) else " || "
            return "(" + j.join(self.cond(v) for v in e.values) + ")"
        self.fail(e, "condition")

    # ----- statements: returns a Gallina term of type option Z -----
    def block(self, stmts):
        if not stmts: raise Unsupported("fell off the end of a function")
        s, rest = stmts[0], stmts[1:]
        if isinstance(s, ast.Expr) and isinstance(s.value, ast.Constant): return self.block(rest)   # docstring
        if isinstance(s, ast.Return):
            return self.bindcall(s.value, lambda v: f"Some {v}")
        if isinstance(s, ast.Assign) and len(s.targets) == 1 and isinstance(s.targets[0], ast.Name):
            x = s.targets[0].id
            return self.bindcall(s.value, lambda v: f"let {x} := {v} in\n{self.block(rest)}")
        if isinstance(s, ast.If):
            c = self.cond(s.test)
            then = self.block(s.body + rest) if not self.returns(s.body) else self.block(s.body)
            els = self.block((s.orelse or []) + rest) if not self.returns(s.orelse or [None]) else self.block(s.orelse)
            return f"if {c} then\n{textwrap.indent(then,'  ')}\nelse\n{textwrap.indent(els,'  ')}"
        self.fail(s, "statement")
    def returns(self, stmts):
        return bool(stmts) and stmts[-1] is not None and isinstance(stmts[-1], (ast.Return,)) or \
               (bool(stmts) and isinstance(stmts[-1], ast.If) and self.returns(stmts[-1].body) and self.returns(stmts[-1].orelse))
    def bindcall(self, e, k):
        """hoist calls to translated functions out of arithmetic: a + f(x) + b  ->  match f fuel x with Some r => ... """
        calls = []
        class Hoist(ast.NodeTransformer):
            def visit_Call(s2, node):
                s2.generic_visit(node)
                if isinstance(node.func, ast.Name) and node.func.id in self.names:
                    name = f"r{len(calls)}_"; calls.append((name, node)); return ast.Name(id=name, ctx=ast.Load())
                return node
        e2 = Hoist().visit(ast.fix_missing_locations(ast.parse(ast.unparse(e), mode='eval').body))
        out = k(self.expr(e2))
        for name, node in reversed(calls):
            args = " ".join(self.expr(a) for a in node.args)
            out = f"match {node.func.id} fuel {args} with\n| Some {name} => {out}\n| None => None end"
        return out

    def function(self, name, first):
        f = self.funcs[name]
        params = self.param_override.get(name) or [a.arg for a in f.args.args]
        body = f.body
        drop = self.param_override.get(name + ":drop", 0)
        body = [b for b in body if not (isinstance(b, ast.Expr) and isinstance(b.value, ast.Constant))][drop:]
        ps = " ".join(f"({p} : Z)" for p in params)
        kw = "Fixpoint" if first else "with"
        return (f"{kw} {name} (fuel : nat) {ps} {{struct fuel}} : option Z :=\n  match fuel with O => None | S fuel =>\n"
                + textwrap.indent(self.block(body), "  ") + "\n  end")

    def run(self):
        out = ["From Coq Require Import ZArith Bool.", "Open Scope Z_scope.", "(* generated - do not edit *)"]
        out.append("\n".join(self.function(n, i == 0) for i, n in enumerate(self.names)) + ".")
        return "\n".join(out)

if __name__ == "__main__":
    src = open("/repo/qclib/unitary.py").read()
    t = Tr(src, ["_cnot_count_iso", "_cnot_count_iso_qsd"])
    print(t.run())
