#!/bin/bash
# seedsave.sh <id> <prop> <srcdir> "<needs>" "<detected-by>"  : confirm demo passes on clean /repo, store under seeded/<id>
id=$1; prop=$2; src=$3; needs=$4; det=$5
cd /repo && git diff --quiet || { echo dirty; exit 2; }
PYTHONPATH=/repo timeout 900 /venv/bin/python $src/demo.py > /tmp/demo_clean.out 2>&1; rc_clean=$?
git apply $src/patch.diff; PYTHONPATH=/repo timeout 900 /venv/bin/python $src/demo.py > /tmp/demo_mut.out 2>&1; rc_mut=$?; git checkout -- .
mkdir -p /verif/seeded/$id; cp $src/patch.diff $src/demo.py /verif/seeded/$id/; [ -f $src/notes.md ] && cp $src/notes.md /verif/seeded/$id/
python3 - "$id" "$prop" "$needs" "$det" "$rc_clean" "$rc_mut" <<'PY'
import json,sys
id,prop,needs,det,rc_clean,rc_mut=sys.argv[1:]
json.dump({"id":id,"breaks_property":prop,"needs_to_manifest":needs,"demo_exit_on_clean_tree":int(rc_clean),"demo_exit_with_change":int(rc_mut),
 "what_was_run":"demo.py on /repo HEAD and with patch.diff applied (git apply / git checkout); existing tests reported passing by the author of the change (see notes.md); ./check "+prop+" --tier quick with the patch applied",
 "detected_by":det},open(f"/verif/seeded/{id}/meta.json","w"),indent=1)
print(id,"clean rc",rc_clean,"mut rc",rc_mut)
PY
