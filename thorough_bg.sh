#!/bin/bash
# developer helper: hermetic thorough (or quick) pass over all claimed checks on scratch copies of /verif and /repo HEAD,
# so that seeded-change tests on /repo and edits of /verif cannot disturb it.  usage: ./thorough_bg.sh [tier] [jobs]
tier=${1:-thorough}; jobs=${2:-3}
S=/tmp/vt; rm -rf $S/verif; git -C /repo worktree remove --force $S/repo 2>/dev/null; mkdir -p $S
git -C /repo worktree add -q --detach $S/repo HEAD || exit 2
rsync -a --exclude .work --exclude replays --exclude .git /verif/ $S/verif/
export VERIF_HOME=$S/verif VERIF_REPO=$S/repo
cd $S/verif && ./check --setup > $S/log 2>&1 && ./checkall $tier $jobs >> $S/log 2>&1
echo "DONE $(date)" >> $S/log
