#!/usr/bin/env python3
"""Developer helper (not part of any registered check): systematic source mutation of /repo/qclib.

For every in-scope file (the anchors of properties.jsonl) a deterministic sample of small AST mutants is generated
(comparison / arithmetic operator swaps, constant +-1, dropped `not`, range bounds, swapped two-element subscripts), each is
applied to a private worktree of /repo, and the quick checks of the properties anchored in that file are run on hermetic copies
of /verif (VERIF_HOME / VERIF_REPO).  A mutant none of those checks alarms on is a SURVIVOR: either equivalent / outside every
property, or a weakness of the checks - survivors are listed for manual triage in <out>/survivors.txt.

usage: mutsweep.py <out_dir> <workers> <mutants_per_file> [file_substring ...]"""
import ast
import copy
import json
import os
import random
import subprocess
import sys
import time
from concurrent.futures import ThreadPoolExecutor

OUT, WORKERS, PER_FILE = sys.argv[1], int(sys.argv[2]), int(sys.argv[3])
FILTERS = sys.argv[4:]
FILEMAP = {}
for line in open("/verif/properties.jsonl"):
    d = json.loads(line)
    for f in d["anchors"]["files"]:
        FILEMAP.setdefault(f, []).append(d["id"])


class Mut(ast.NodeTransformer):
    """applies the idx-th applicable mutation"""
    def __init__(self, idx):
        self.idx, self.count, self.desc = idx, 0, None

    def _hit(self, node, desc):
        self.count += 1
        if self.count - 1 == self.idx:
            self.desc = f"line {getattr(node, 'lineno', '?')}: {desc}"
            return True
        return False

    def visit_Compare(self, node):
        self.generic_visit(node)
        swaps = {ast.Lt: ast.LtE, ast.LtE: ast.Lt, ast.Gt: ast.GtE, ast.GtE: ast.Gt, ast.Eq: ast.NotEq, ast.NotEq: ast.Eq}
        if len(node.ops) == 1 and type(node.ops[0]) in swaps and self._hit(node, f"{type(node.ops[0]).__name__} -> {swaps[type(node.ops[0])].__name__}"):
            node = copy.deepcopy(node)
            node.ops = [swaps[type(node.ops[0])]()]
        return node

    def visit_BinOp(self, node):
        self.generic_visit(node)
        swaps = {ast.Add: ast.Sub, ast.Sub: ast.Add, ast.Mult: ast.Div, ast.FloorDiv: ast.Mult, ast.Mod: ast.FloorDiv}
        if type(node.op) in swaps and self._hit(node, f"{type(node.op).__name__} -> {swaps[type(node.op)].__name__}"):
            node = copy.deepcopy(node)
            node.op = swaps[type(node.op)]()
        return node

    def visit_Constant(self, node):
        if isinstance(node.value, bool) or not isinstance(node.value, int) or abs(node.value) > 16:
            return node
        if self._hit(node, f"constant {node.value} -> {node.value + 1}"):
            return ast.copy_location(ast.Constant(node.value + 1), node)
        return node

    def visit_UnaryOp(self, node):
        self.generic_visit(node)
        if isinstance(node.op, ast.Not) and self._hit(node, "dropped `not`"):
            return node.operand
        if isinstance(node.op, ast.USub) and self._hit(node, "dropped unary minus"):
            return node.operand
        return node


def mutants_of(path, per_file, rng):
    src = open(path, newline="").read().replace("\r\n", "\n")
    tree = ast.parse(src)
    probe = Mut(-1)
    probe.visit(copy.deepcopy(tree))
    total = probe.count
    picks = sorted(rng.sample(range(total), min(per_file, total)))
    out = []
    for idx in picks:
        m = Mut(idx)
        t2 = m.visit(copy.deepcopy(tree))
        ast.fix_missing_locations(t2)
        try:
            out.append((idx, m.desc, ast.unparse(t2)))
        except Exception:
            pass
    return out


def sh(cmd, **kw):
    return subprocess.run(cmd, shell=True, capture_output=True, text=True, **kw)


def worker_dir(w):
    return f"/tmp/mw{w}"


def setup_worker(w):
    d = worker_dir(w)
    sh(f"rm -rf {d}/verif; git -C /repo worktree remove --force {d}/repo; mkdir -p {d}")
    sh(f"git -C /repo worktree add -q --detach {d}/repo HEAD")
    sh(f"rsync -a --exclude .work --exclude replays --exclude .git --exclude seeded /verif/ {d}/verif/")
    env = dict(os.environ, VERIF_HOME=f"{d}/verif", VERIF_REPO=f"{d}/repo")
    sh(f"cd {d}/verif && ./check --setup", env=env)


def run_mutant(w, rel, idx, desc, code, props):
    d = worker_dir(w)
    env = dict(os.environ, VERIF_HOME=f"{d}/verif", VERIF_REPO=f"{d}/repo")
    sh(f"git -C {d}/repo checkout -q -- .")
    with open(f"{d}/repo/{rel}", "w") as f:
        f.write(code)
    imp = sh(f"cd {d}/repo && PYTHONPATH={d}/repo timeout 120 /venv/bin/python -c 'import qclib.state_preparation, qclib.gates, qclib.unitary, qclib.isometry, qclib.entanglement'")
    res = {"file": rel, "idx": idx, "desc": desc, "props": props, "import_ok": imp.returncode == 0, "caught_by": [], "times": {}}
    if imp.returncode == 0:
        for p in props:
            t0 = time.time()
            r = sh(f"cd {d}/verif && timeout 1500 ./check {p} --tier quick", env=env)
            res["times"][p] = round(time.time() - t0)
            if r.returncode != 0 or "VIOLATION" in r.stdout:
                res["caught_by"].append(p)
                break                      # one alarm is enough
    sh(f"git -C {d}/repo checkout -q -- .")
    return res


def main():
    os.makedirs(OUT, exist_ok=True)
    rng = random.Random(20261001)
    jobs = []
    for rel, props in sorted(FILEMAP.items()):
        if FILTERS and not any(s in rel for s in FILTERS):
            continue
        for idx, desc, code in mutants_of(f"/repo/{rel}", PER_FILE, rng):
            jobs.append((rel, idx, desc, code, props))
    print(len(jobs), "mutants", flush=True)
    for w in range(WORKERS):
        setup_worker(w)
    import queue
    free = queue.Queue()
    for w in range(WORKERS):
        free.put(w)

    def task(job):
        w = free.get()
        try:
            return run_mutant(w, *job)
        finally:
            free.put(w)
    results = []
    with ThreadPoolExecutor(max_workers=WORKERS) as ex, open(f"{OUT}/results.jsonl", "a") as log:
        for res in ex.map(task, jobs):
            results.append(res)
            log.write(json.dumps(res) + "\n")
            log.flush()
            tag = "IMPORT-FAIL" if not res["import_ok"] else ("caught:" + ",".join(res["caught_by"]) if res["caught_by"] else "SURVIVED")
            print(f"{res['file']} #{res['idx']} {res['desc']} -> {tag} {res['times']}", flush=True)
    with open(f"{OUT}/survivors.txt", "w") as f:
        for r in results:
            if r["import_ok"] and not r["caught_by"]:
                f.write(f"{r['file']} #{r['idx']} {r['desc']} (checks run: {r['props']})\n")
    for w in range(WORKERS):
        sh(f"git -C /repo worktree remove --force {worker_dir(w)}/repo; rm -rf {worker_dir(w)}")
    print("DONE", flush=True)


if __name__ == "__main__":
    main()
