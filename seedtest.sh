#!/bin/bash
# developer helper: seedtest.sh <prop> <patch.diff> [demo.py]  - apply a seeded change to /repo, run the check, undo
prop=$1; patch=$2; demo=$3
cd /repo || exit 2
git diff --quiet || { echo "repo dirty"; exit 2; }
git apply "$patch" || { echo "patch does not apply"; exit 2; }
if [ -n "$demo" ]; then (cd /repo && PYTHONPATH=/repo timeout 600 /venv/bin/python "$demo" > /tmp/demo.out 2>&1; echo "demo exit with patch: $? ($(tail -1 /tmp/demo.out | cut -c1-100))"); fi
cd /verif && ./check $prop > /tmp/seed_$prop.log 2>&1; rc=$?
echo "check rc=$rc"; grep -c "^VIOLATION" /tmp/seed_$prop.log; grep "^VIOLATION\|^# " /tmp/seed_$prop.log | head -8 | cut -c1-220
git -C /repo checkout -- . ; git -C /repo status --short | head -3
